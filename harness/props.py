"""Per-property registry and decision procedures used by ./check."""
from __future__ import annotations

import json
import os
import time
from collections import Counter

import framework as fw

CHIP_FIELDS = {'bets', 'stacks', 'payoffs', 'pots_', 'subpots', 'pots', 'total_pot', 'pot_amounts'}
CHIP_OPS = {'AntePosting', 'BetCollection', 'BlindOrStraddlePosting', 'CheckingOrCalling',
            'BringInPosting', 'CompletionBettingOrRaisingTo', 'ChipsPushing', 'ChipsPulling'}
CARD_FIELDS = {'deck', 'board', 'mucked', 'burned', 'hole', 'discarded', 'holeSt', 'in_play', 'out_play',
               'censored', 'down', 'up'}
CARD_OPS = {'CardBurning', 'HoleDealing', 'BoardDealing', 'StandingPatOrDiscarding',
            'HoleCardsShowingOrMucking', 'Folding', 'HandKilling'}
PHASE_FIELDS = {'status', 'street', 'ante', 'collect', 'blind', 'burn', 'holeDeal', 'boardDeal', 'pat',
                'actors', 'selectors', 'showdown', 'kill', 'subpots', 'pull', 'nops', 'allin', 'sri', 'src',
                'ante_ix', 'blind_ix', 'runout_ix', 'kill_ix', 'pull_ix'}
CAN_FIELDS = {'can_post_ante', 'can_collect_bets', 'can_post_blind', 'can_burn', 'can_deal_hole',
              'can_deal_board', 'can_draw', 'can_fold', 'can_call', 'can_bring_in', 'can_cbr',
              'can_runout', 'can_show', 'can_kill', 'can_push', 'can_pull', 'can_noop'}
BET_FIELDS = {'actors', 'cbrAmt', 'cbrCnt', 'acted', 'consec', 'bringin', 'completion', 'opener',
              'min_cbr', 'pot_cbr', 'max_cbr', 'call_amt', 'bringin_amt', 'actor', 'turn',
              'can_fold', 'can_call', 'can_bring_in', 'can_cbr', 'eff'}
BET_OPS = {'Folding', 'CheckingOrCalling', 'BringInPosting', 'CompletionBettingOrRaisingTo'}
DEAL_FIELDS = {'burn', 'holeDeal', 'boardDeal', 'pat', 'holeSt', 'hole', 'board', 'dealee', 'bdc', 'pat_idx',
               'censored', 'down', 'up',
               'can_burn', 'can_deal_hole', 'can_deal_board', 'can_draw'}
DEAL_OPS = {'CardBurning', 'HoleDealing', 'BoardDealing', 'StandingPatOrDiscarding'}
RUNOUT_FIELDS = {'selectors', 'runout', 'rflag', 'sri', 'src', 'board_count', 'board', 'can_runout', 'runout_ix'}
SHOW_FIELDS = {'showdown', 'kill', 'sd_idx', 'can_show', 'can_kill', 'subpots', 'pots_', 'kill_ix'}
SHOW_OPS = {'HoleCardsShowingOrMucking', 'HandKilling', 'ChipsPushing', 'RunoutCountSelection'}
ALL_OPS = CHIP_OPS | CARD_OPS | BET_OPS | DEAL_OPS | SHOW_OPS | {'NoOperation'}


def touched(d: dict) -> tuple[set, set, bool]:
    """(digest/query fields, logged operation kinds, result-line?) that differ at the first
    difference of a case."""
    fields, ops, result = set(), set(), False
    for f, e, a in d['fields']:
        if f != 'line':
            fields.add(f)
            continue
        for txt in (e, a):
            if txt.startswith('L '):
                ops.add(txt.split(' ')[1])
            elif txt.startswith(('R ', 'C ')):
                result = True
            elif txt.startswith('H '):
                fields.add('phh')
            elif txt.startswith('Z '):
                fields.add('acpc')
            elif txt == '.' or txt.startswith(('D ', 'Q ')) or txt == '<end>':
                # stream shapes differ (one side logged more operations)
                ops.add('*')
    return fields, ops, result


def slice_hit(spec: dict, d: dict) -> bool:
    fields, ops, result = touched(d)
    if fields & spec.get('fields', set()):
        return True
    if ops & spec.get('ops', set()) or ('*' in ops and spec.get('ops')):
        return True
    if result and spec.get('results', False):
        return True
    return False


ENGINE_ASSUME = [
    'chips are python int (Fraction/float/Decimal chips are not modelled: correspondence only)',
    'shuffle replaced by a deterministic permutation of the cards being shuffled; theorems quantify over every permutation',
    'user rake/divmod: default implementations and one conforming custom divmod are exercised; theorems assume only the contract',
]

PROPS: dict[str, dict] = {}


def engine_prop(pid, monitors, fields, ops, results=False, quick=960, thorough=24000, profile=None,
                technique='', note='', pre=None, directed=None):
    if not os.path.exists(os.path.join(fw.LEAN, 'PK', 'Audit', f'{pid}.lean')):
        return      # no theorem yet: not claimed
    PROPS[pid] = dict(kind='engine', monitors=monitors, fields=fields, ops=ops, results=results,
                      quick=quick, thorough=thorough, profile=profile, technique=technique, note=note,
                      pre=pre, directed=directed)


def pre_c11():
    """exhaustive comparison of the live game classes with the Lean model of games.py"""
    import variants
    n, diffs = variants.compare_variants()
    codes = {v.__name__: k for k, v in __import__('gen').VARIANTS.items()}
    pseudo = []
    for d in diffs:
        pseudo.append(dict(case='variants-table', seed=0, at_op=0, line_no=0, expected=str(d['expected']),
                           actual=str(d['actual']), fields=[('variant_table', str(d['expected']), str(d['actual']))],
                           script=['case variants-table', f'variants {d["bets"][0]} {d["bets"][1]}'],
                           meta={'variant': codes.get(d['class'], 'custom'), 'class': d['class'], 'what': d['what']}))
    return dict(diffs=pseudo, coverage=dict(variant_table_fields=n, variant_table_differences=len(diffs),
                                            bet_size_pairs=variants.PAIRS, exhaustive=True))


engine_prop('C01', ['C01'], CHIP_FIELDS, CHIP_OPS)
engine_prop('C02', ['C02'], SHOW_FIELDS | CHIP_FIELDS, {'ChipsPushing', 'HandKilling', 'HoleCardsShowingOrMucking'},
            directed={'chop': 0.04})
engine_prop('C03', ['C03'], BET_FIELDS, BET_OPS, directed={'rule96': 0.08, 'bigpost': 0.04})
engine_prop('C06', ['C06'], CARD_FIELDS, CARD_OPS, directed={'deck_boundary': 0.08})
engine_prop('C07', ['C07'], PHASE_FIELDS | CAN_FIELDS, ALL_OPS, results=True)
engine_prop('C08', ['C08'], CAN_FIELDS, set(), results=True)
engine_prop('C09', ['C09'], PHASE_FIELDS | CHIP_FIELDS | CARD_FIELDS, ALL_OPS,
            directed={'ante_allin': 0.04, 'stud8': 0.04, 'mixdeal': 0.04})
engine_prop('C10', ['C10'], DEAL_FIELDS, DEAL_OPS, directed={'exact_deck': 0.08, 'stud8': 0.04})
engine_prop('C12', ['C12'], SHOW_FIELDS | CHIP_FIELDS, SHOW_OPS, directed={'stud8': 0.05})
# C11's statement covers, per variant, the hole cards and facings and the board cards of every street, the
# betting structure, caps and bet sizes: the dealing slice belongs to it as well as the raise sizes
engine_prop('C11', ['C11', 'C11deal', 'C11open'],
            {'variant_table', 'min_cbr', 'pot_cbr', 'max_cbr', 'can_cbr', 'cbrCnt', 'cbrAmt',
             'opener', 'actors', 'actor', 'turn', 'bringin', 'completion'} | DEAL_FIELDS,
            {'CompletionBettingOrRaisingTo', 'BringInPosting'} | DEAL_OPS, profile={'predefined': True}, pre=pre_c11,
            directed={'stud8': 0.04, 'ante_allin': 0.06})
def pre_c16():
    import phh
    r = phh.check_parse_lines(20250916, 4000)
    pseudo = [dict(case='parse-action', seed=0, at_op=0, line_no=0, expected=d['expected'], actual=d['actual'],
                   fields=[('phh', d['expected'], d['actual'])], script=['case parse-action', 'parseline ' + d['input']],
                   meta={'variant': 'custom', 'line': d['input']}) for d in r['diffs']]
    c = phh.check_commentary(20250916, 300)
    d = phh.check_decimal(int(os.environ.get('VERIF_SEED', '0')) + 20250916, 400)
    return dict(diffs=pseudo, viols=c['viols'] + d['viols'],
                coverage=dict(parsed_action_lines=r['count'], parse_differences=len(r['diffs']),
                              commented_hands=c['count'], commentary_violations=len(c['viols']),
                              decimal_chip_hands=d['count'], decimal_violations=len(d['viols'])))


engine_prop('C16', ['C16'], {'phh'}, set(), profile={'predefined': True}, pre=pre_c16)
engine_prop('C17', ['C17'], {'acpc'}, set(), quick=1440,
            profile={'predefined': True, 'variants': ['FT', 'NT'], 'equal_stacks': True, 'max_players': 6, 'no_antes': 0.7,
                     'tune': {'unknown': False}})
engine_prop('C13', ['C13'], {'opener', 'actors', 'actor', 'turn', 'bringin', 'completion'}, BET_OPS,
            directed={'ante_allin': 0.08, 'stud8': 0.06})
engine_prop('C14', ['C14'], RUNOUT_FIELDS | {'subpots', 'pots_'}, {'RunoutCountSelection', 'BoardDealing', 'ChipsPushing', 'HoleCardsShowingOrMucking'},
            directed={'multirun': 0.06})
engine_prop('C15', ['C15'], set(), ALL_OPS, directed={'chop': 0.05})


def _print_known(matched: dict):
    for kid, (k, v) in matched.items():
        print(f'KNOWN-FINDING: property={v["property"]} {k["id"]}: {k["what"]} '
              f'[clause {v["clause"]}, signature {v["signature"]}]')


def decide(pid: str, spec: dict, tier: str, seed: int, theorems, t0: float) -> int:
    if spec['kind'] == 'engine':
        return decide_engine(pid, spec, tier, seed, theorems, t0)
    return spec['decide'](pid, spec, tier, seed, theorems, t0)


def decide_engine(pid, spec, tier, seed, theorems, t0):
    count = spec['thorough'] if tier == 'thorough' else spec['quick']
    known = fw.load_known()
    res = fw.correspondence(seed, count, spec['monitors'], profile=spec.get('profile'), tag=pid,
                            directed=spec.get('directed'),
                            small_budget=(0 if spec.get('profile') else (400 if tier == 'thorough' else 60)))
    mine = [v for v in res['viols'] if v['property'] == pid]
    pre = spec['pre']() if spec.get('pre') else None
    if pre and pre.get('viols'):
        mine = mine + list(pre['viols'])
    matched, fresh = {}, []
    for v in mine:
        k = fw.match_known(v, known)
        if k is None:
            fresh.append(v)
        else:
            matched.setdefault(k['id'], (k, v))
    hits = [d for d in res['diffs'] if slice_hit(spec, d)]
    other = len(res['diffs']) - len(hits)
    if pre:
        hits = pre['diffs'] + hits
    rc = 0
    replay = None
    searched = 0
    if fresh:
        v = fresh[0]
        replay = fw.write_replay(pid, seed, dict(kind='violation', property=pid, clause=v['clause'],
                                                  signature=v['signature'], detail=v['detail'],
                                                  script=v['script'], valid=v['valid'], meta=v['meta']))
        print(f'VIOLATION property={pid} replay={replay}')
        rc = 1
    elif hits:
        # the model slice this property's theorems speak about no longer corresponds to the code:
        # search for a failing input with the diverging stratum boosted
        d = hits[0]
        boost = fw.correspondence(seed + 7919, max(count * 10, 2000), spec['monitors'],
                                  variant=d['meta'].get('variant') if d['meta'].get('variant') in __import__('gen').VARIANTS else None,
                                  tag=pid + 'b',
                                  directed={d['meta']['director']: 0.5} if d['meta'].get('director') else None)
        searched = boost['cases']
        bf = [v for v in boost['viols'] if v['property'] == pid and fw.match_known(v, known) is None]
        if bf:
            v = bf[0]
            replay = fw.write_replay(pid, seed, dict(kind='violation', property=pid, clause=v['clause'],
                                                      signature=v['signature'], detail=v['detail'],
                                                      script=v['script'], valid=v['valid'], meta=v['meta'],
                                                      found_by='boosted search after a correspondence failure'))
            print(f'VIOLATION property={pid} replay={replay}')
        else:
            replay = fw.write_replay(pid, seed, dict(
                kind='correspondence', property=pid,
                theorems_no_longer_tied=[n for n, _ in theorems],
                first_difference=dict(at_op=d['at_op'], fields=d['fields'][:8], expected=d['expected'][:400],
                                      actual=d['actual'][:400]),
                script=d['script'][1:], meta=d['meta'], searched_cases=searched + res['cases']))
            print(f'VIOLATION property={pid} replay={replay} no-failing-input-found')
        rc = 1
    _print_known(matched)
    wall = time.time() - t0
    ops_ok = sum(v for k, v in res['stats'].items() if k.startswith('ok:'))
    coverage = dict(
        obligations=len(theorems), discharged=len(theorems),
        checker_cmd='cd lean && lake build PK && lake env lean PK/Audit/%s.lean' % pid,
        trusted_base=fw.TRUSTED_BASE,
        theorems=[dict(name=n, axioms=ax) for n, ax in theorems],
        evaluations=res['cases'], distinct_nontrivial=res['nontrivial'],
        rule='hands generated from one PRNG (seed*1000003+i); non-trivial = at least 8 logged operations; '
             'every logged operation and every public call compared field by field with the Lean model',
        correspondence=dict(cases=res['cases'], compared_lines=res['lines'], operations_performed=ops_ok,
                            differences_in_slice=len(hits), differences_elsewhere=other,
                            boosted_search_cases=searched),
        monitor=dict(violations_new=len(fresh), known_findings=sorted(matched)),
        **({'exhaustive_tables': pre['coverage']} if pre else {}),
        distribution={k: v for k, v in sorted(res['dist'].items())},
        operations={k: v for k, v in sorted(res['stats'].items()) if k.startswith(('ok:', 'err:', 'log:', 'crash:'))},
        samples=res['samples'][:3])
    if tier == 'thorough' and pid == 'C07':
        # how much of state.py the stream that ties the model to the code actually executes
        try:
            import subprocess
            import sys as _sys
            out = subprocess.run([_sys.executable, os.path.join(os.path.dirname(__file__), 'linecov.py'), '400', str(seed)],
                                 capture_output=True, text=True, timeout=3000)
            coverage['implementation_line_coverage'] = json.loads(out.stdout)
        except Exception as e:  # noqa: BLE001
            coverage['implementation_line_coverage'] = {'error': repr(e)}
    fw.write_evidence(pid, tier, seed, coverage, ENGINE_ASSUME, wall, len(fresh) + (1 if hits and not fresh else 0))
    print(f'{pid}: theorems={len(theorems)} cases={res["cases"]} lines={res["lines"]} '
          f'diffs(slice/other)={len(hits)}/{other} monitor(new/known)={len(fresh)}/{len(matched)} '
          f'wall={wall:.1f}s -> {"FAIL" if rc else "ok"}')
    return rc


def replay(pid: str, spec: dict, path: str) -> int:
    """Re-execute a replay file against /repo alone (no model) with the property's monitor."""
    import impl
    import monitors
    import paired  # noqa: F401
    import dealing  # noqa: F401
    import opener  # noqa: F401
    import runout  # noqa: F401
    import variants  # noqa: F401
    import phh  # noqa: F401
    import acpc  # noqa: F401
    d = json.load(open(path))
    if spec['kind'] == 'eval':
        return replay_eval(pid, d)
    if d.get('meta', {}).get('commentary_seed') is not None:
        vs = phh.commentary_violations(d['meta']['commentary_seed'])
        for sig, detail in vs:
            print(f'reproduced: property={pid} clause=commentary signature={sig}: {detail[:300]}')
        if not vs:
            print('not reproduced on the current tree: commentary round trip')
        return 1 if vs else 0
    if d.get('meta', {}).get('decimal_seed') is not None:
        vs = phh.decimal_violations(d['meta']['decimal_seed']) or []
        for sig, detail in vs:
            print(f'reproduced: property={pid} clause=replay signature={sig}: {detail[:300]}')
        if not vs:
            print('not reproduced on the current tree: decimal-chip round trip')
        return 1 if vs else 0
    mons = [monitors.ALL[m]() for m in spec.get('monitors', []) if m in monitors.ALL]
    impl.replay_script(d['script'], mons, d.get('valid'))
    vs = [v for m in mons for v in m.violations if v['property'] == pid]
    if vs:
        seen = set()
        for v in vs:
            k = (v['clause'], v['signature'])
            if k not in seen:
                seen.add(k)
                print(f'reproduced: property={pid} clause={v["clause"]} signature={v["signature"]}: {v["detail"][:300]}')
        return 1
    print(f'not reproduced on the current tree: {d.get("kind")} {d.get("clause", "")}')
    return 0


# ------------------------------------------------------------------------------- C04 / C05
EVAL_ASSUME = [
    'the content of the lookup tables is compared exhaustively with the model on every run; its agreement '
    'with the rules of poker is established by enumeration against harness/pyspec.py (thorough tier: every hand '
    'of every deck), not by a Lean proof',
]
TYPES_OF_LOOKUP = {
    'StandardLookup': ['StandardHighHand', 'StandardLowHand'],
    'ShortDeckHoldemLookup': ['ShortDeckHoldemHand'],
    'EightOrBetterLookup': ['EightOrBetterLowHand'],
    'RegularLookup': ['RegularLowHand'],
    'BadugiLookup': ['BadugiHand'],
    'StandardBadugiLookup': ['StandardBadugiHand'],
    'KuhnPokerLookup': ['KuhnPokerHand'],
}


def _exh(args):
    import evalcheck
    tn, limit = args
    n, bad = evalcheck.exhaustive_order(tn, limit)
    return tn, n, bad


def decide_c04(pid, spec, tier, seed, theorems, t0):
    import evalcheck as ec
    from concurrent.futures import ProcessPoolExecutor
    total, tdiffs = ec.compare_tables()
    ddiffs = ec.compare_decl()
    nsamp = 60000 if tier == 'thorough' else 6000
    sh = ec.sample_hands(seed, nsamp)
    # exhaustive enumeration against the independent ranking
    small = ['KuhnPokerHand', 'BadugiHand', 'StandardBadugiHand']
    full = small + ['ShortDeckHoldemHand', 'EightOrBetterLowHand', 'RegularLowHand', 'StandardHighHand',
                    'StandardLowHand', 'GreekHoldemHand', 'OmahaHoldemHand', 'OmahaEightOrBetterLowHand']
    todo = [(t, None) for t in (full if tier == 'thorough' else small)]
    if tier != 'thorough':
        todo += [(t, 150000) for t in full if t not in small]
    suspects = set()
    for d in tdiffs:
        suspects.update(TYPES_OF_LOOKUP.get(d['table'], []))
    for d in ddiffs:
        suspects.add(d['hand_type'])
    todo = [(t, None) for t in suspects] + [x for x in todo if x[0] not in suspects]
    with ProcessPoolExecutor(max_workers=16) as ex:
        exh = list(ex.map(_exh, todo))
    viols = list(sh['viols'])
    enumerated = 0
    for tn, n, bad in exh:
        enumerated += n
        for b in bad[:1]:
            viols.append(dict(property='C04', clause='exhaustive_' + b[0], signature=f'{b[0]}:{tn}',
                              detail=f'{tn}: {b}', input=(tn,) + tuple(str(x) for x in b[1:3])))
    rc = 0
    replay = None
    diverged = bool(tdiffs or ddiffs or sh['diffs'])
    if viols:
        v = viols[0]
        replay = fw.write_replay(pid, seed, dict(kind='violation', property=pid, clause=v['clause'],
                                                  signature=v['signature'], detail=v['detail'], input=v['input']))
        print(f'VIOLATION property={pid} replay={replay}')
        rc = 1
    elif diverged:
        first = (tdiffs or ddiffs or sh['diffs'])[0]
        replay = fw.write_replay(pid, seed, dict(kind='correspondence', property=pid,
                                                  theorems_no_longer_tied=[n for n, _ in theorems],
                                                  first_difference=first, enumerated_hands=enumerated))
        print(f'VIOLATION property={pid} replay={replay} no-failing-input-found')
        rc = 1
    wall = time.time() - t0
    cov = dict(obligations=len(theorems), discharged=len(theorems),
               checker_cmd=f'cd lean && lake build PK && lake env lean PK/Audit/{pid}.lean',
               trusted_base=fw.TRUSTED_BASE, theorems=[dict(name=n, axioms=ax) for n, ax in theorems],
               evaluations=total + sh['count'] * 2 + enumerated, distinct_nontrivial=total,
               rule='all entries of the nine live lookup tables compared with the model (exhaustive=True for the tables); '
                    'Hand(cards)/<,==,hash sampled through the real classes; hands enumerated against harness/pyspec.py',
               exhaustive=True,
               correspondence=dict(table_entries=total, table_differences=len(tdiffs), class_attribute_differences=len(ddiffs),
                                   sampled_hand_constructions=sh['count'] * 2, sampled_differences=len(sh['diffs'])),
               enumeration={tn: dict(hands=n, disagreements=len(bad)) for tn, n, bad in exh},
               samples=sh['samples'])
    fw.write_evidence(pid, tier, seed, cov, EVAL_ASSUME, wall, len(viols) + (1 if diverged and not viols else 0))
    print(f'{pid}: theorems={len(theorems)} table_entries={total} table_diffs={len(tdiffs)} sampled={sh["count"] * 2} '
          f'sample_diffs={len(sh["diffs"])} enumerated={enumerated} spec_violations={len(viols)} wall={wall:.1f}s '
          f'-> {"FAIL" if rc else "ok"}')
    return rc


def decide_c05(pid, spec, tier, seed, theorems, t0):
    import evalcheck as ec
    from concurrent.futures import ProcessPoolExecutor
    n = 16 if tier == 'thorough' else 4
    per = 12000 if tier == 'thorough' else 3000
    ddiffs = ec.compare_decl()
    with ProcessPoolExecutor(max_workers=16) as ex:
        rs = list(ex.map(_evalsample, [(seed * 1000 + i, per) for i in range(n)]))
    diffs = [d for r in rs for d in r['diffs']]
    viols = [v for r in rs for v in r['viols']]
    count = sum(r['count'] for r in rs)
    rc = 0
    if viols:
        v = viols[0]
        replay = fw.write_replay(pid, seed, dict(kind='violation', property=pid, clause=v['clause'],
                                                  signature=v['signature'], detail=v['detail'], input=v['input']))
        print(f'VIOLATION property={pid} replay={replay}')
        rc = 1
    elif diffs or ddiffs:
        # search harder with the spec monitor before giving up
        with ProcessPoolExecutor(max_workers=16) as ex:
            more = list(ex.map(_evalsample, [(seed * 1000 + 500 + i, 20000) for i in range(16)]))
        mv = [v for r in more for v in r['viols']]
        count += sum(r['count'] for r in more)
        if mv:
            v = mv[0]
            replay = fw.write_replay(pid, seed, dict(kind='violation', property=pid, clause=v['clause'],
                                                      signature=v['signature'], detail=v['detail'], input=v['input']))
            print(f'VIOLATION property={pid} replay={replay}')
        else:
            replay = fw.write_replay(pid, seed, dict(kind='correspondence', property=pid,
                                                      theorems_no_longer_tied=[n for n, _ in theorems],
                                                      first_difference=(diffs or ddiffs)[0]))
            print(f'VIOLATION property={pid} replay={replay} no-failing-input-found')
        rc = 1
    wall = time.time() - t0
    cov = dict(obligations=len(theorems), discharged=len(theorems),
               checker_cmd=f'cd lean && lake build PK && lake env lean PK/Audit/{pid}.lean',
               trusted_base=fw.TRUSTED_BASE, theorems=[dict(name=n, axioms=ax) for n, ax in theorems],
               evaluations=count, distinct_nontrivial=count,
               rule='(hand type, hole, board) triples generated per type with 0-7 hole and 0-5 board cards and card '
                    'patterns biased to low boards, suited runs and paired boards; from_game compared with the model '
                    '(entry index, label and chosen cards) and with the best legal combination under harness/pyspec.py',
               correspondence=dict(inputs=count, differences=len(diffs), class_attribute_differences=len(ddiffs)),
               samples=rs[0]['samples'])
    fw.write_evidence(pid, tier, seed, cov, EVAL_ASSUME, wall, len(viols) + (1 if rc and not viols else 0))
    print(f'{pid}: theorems={len(theorems)} inputs={count} diffs={len(diffs)} spec_violations={len(viols)} '
          f'wall={wall:.1f}s -> {"FAIL" if rc else "ok"}')
    return rc


def _evalsample(args):
    import evalcheck
    return evalcheck.sample_eval(*args)


def replay_eval(pid, d):
    import evalcheck as ec
    import pyspec
    inp = d.get('input')
    if not inp:
        print('replay file carries no concrete input (correspondence failure)')
        return 0
    if pid == 'C20':
        import sitelogs
        from pokerkit import HandHistory
        site, text = inp[1], inp[2]
        print(f'replaying a stored {site} log through the real importer')
        import warnings as _w
        with _w.catch_warnings(record=True) as rec:
            _w.simplefilter('always')
            got = list(getattr(HandHistory, sitelogs.IMPORTERS[site])(text))
        print('imported:', [(h.players, h.actions) for h in got][:1], 'warnings:', [str(w.message)[:80] for w in rec][:2])
        print('reproduced: property=C20 (compare with the detail recorded in the replay file)')
        return 1
    if pid == 'C18':
        import analysis_check as ac
        msg = ac.replay(inp)
        if msg:
            print(f'reproduced: property=C18 {msg}')
            return 1
        print('not reproduced on the current tree (equity / ICM inputs are re-run by the full check)')
        return 0
    if pid == 'C19':
        import reprs
        msg = reprs.replay(inp)
        if msg:
            print(f'reproduced: property=C19 {msg}')
            return 1
        print('not reproduced on the current tree')
        return 0
    tn = inp[0]
    if pid == 'C05':
        line, h = ec.impl_eval(tn, inp[1] if inp[1] != '=' else '', inp[2] if inp[2] != '=' else '')
        want = pyspec.best_key(tn, inp[1] if inp[1] != '=' else '', inp[2] if inp[2] != '=' else '')
        got = None if h is None else pyspec.hand_key(tn, h.cards)
        if got != want:
            print(f'reproduced: property=C05 {tn} hole {inp[1]} board {inp[2]}: implementation {line}, best legal key {want}')
            return 1
        print('not reproduced on the current tree')
        return 0
    import evalcheck as ec
    from pokerkit import Card as _Card
    hs, err = [], None
    for c in inp[1:]:
        # the same argument shape the sampler used (text, tuple, list, iterator, generator)
        line, h = ec.impl_hand(tn, [] if c == '=' else list(_Card.parse(c)))
        if h is None:
            hs, err = None, ValueError(line)
            break
        hs.append(h)
    from pokerkit import Card
    if any(not all(Card.parse(c)) for c in inp[1:] if c != '='):
        if hs is not None:
            print(f'reproduced: property=C04 {tn}{inp[1:]}: accepted although it contains a card that is not a '
                  f'real card (unknown rank or suit)')
            return 1
        print('not reproduced on the current tree')
        return 0
    keys = [pyspec.hand_key(tn, c) for c in inp[1:]]
    if hs is None:
        if all(k is not None for k in keys):
            print(f'reproduced: property=C04 {tn}{inp[1:]}: rejected ({type(err).__name__}) but valid by the rules')
            return 1
        print('not reproduced on the current tree')
        return 0
    if len(hs) == 2 and None not in keys:
        a, b = hs
        if (a < b) != (keys[0] < keys[1]) or (a == b) != (keys[0] == keys[1]):
            print(f'reproduced: property=C04 {tn}: {inp[1]} vs {inp[2]}: implementation <:{a < b} ==:{a == b}, '
                  f'rules <:{keys[0] < keys[1]} ==:{keys[0] == keys[1]}')
            return 1
    print('not reproduced on the current tree')
    return 0


def impl_types():
    import impl
    return impl.HAND_TYPES


def _c19_part(args):
    import reprs
    name, seed, count = args
    return name, getattr(reprs, 'check_' + name)(seed, count)


def decide_c19(pid, spec, tier, seed, theorems, t0):
    from concurrent.futures import ProcessPoolExecutor
    k = 10 if tier == 'thorough' else 1
    jobs = []
    for j in range(4 * k):
        jobs += [('chips', seed * 100 + j, 1500), ('cards', seed * 100 + j, 1200), ('helpers', seed * 100 + j, 1500)]
    for j in range(2 * k):
        jobs.append(('states', seed * 100 + j, 25))
    with ProcessPoolExecutor(max_workers=16) as ex:
        rs = list(ex.map(_c19_part, jobs))
    viols = [v for _, r in rs for v in r['viols']]
    diffs = [dict(d, part=name) for name, r in rs for d in r['diffs']]
    counts = Counter()
    for name, r in rs:
        counts[name] += r['count']
    rc = 0
    if viols:
        v = viols[0]
        replay = fw.write_replay(pid, seed, dict(kind='violation', property=pid, clause=v['clause'],
                                                  signature=v['signature'], detail=v['detail'], input=v['input']))
        print(f'VIOLATION property={pid} replay={replay}')
        rc = 1
    elif diffs:
        replay = fw.write_replay(pid, seed, dict(kind='correspondence', property=pid,
                                                  theorems_no_longer_tied=[n for n, _ in theorems],
                                                  first_difference=diffs[0], searched_inputs=sum(counts.values())))
        print(f'VIOLATION property={pid} replay={replay} no-failing-input-found')
        rc = 1
    wall = time.time() - t0
    cov = dict(obligations=len(theorems), discharged=len(theorems),
               checker_cmd=f'cd lean && lake build PK && lake env lean PK/Audit/{pid}.lean',
               trusted_base=fw.TRUSTED_BASE, theorems=[dict(name=n, axioms=ax) for n, ax in theorems],
               evaluations=sum(counts.values()), distinct_nontrivial=sum(counts.values()),
               rule='chip layouts (number / list short, exact, long / mapping with positive, negative, mixed, duplicate-seat and '
                    'out-of-range keys), card texts (all 70 cards, 10 for T, 0-6 cards with ten kinds of separator, malformed text), '
                    'divmod and rake arguments generated from one PRNG; utilities compared with the Lean model line by line; the '
                    'property itself (all writings agree; states equal; invalid layouts refused; parts add up) evaluated on the implementation',
               correspondence=dict(inputs=dict(counts), differences=len(diffs)),
               monitor=dict(violations_new=len(viols)), samples=[])
    fw.write_evidence(pid, tier, seed, cov, [
        'chips are python int in the modelled helpers (Fraction/float/Decimal chips: not modelled)',
        'str.split() whitespace set transcribed into the model (isPyWhitespace); other Unicode behaviour of str is trusted',
    ], wall, len(viols) + (1 if rc and not viols else 0))
    print(f'{pid}: theorems={len(theorems)} inputs={dict(counts)} diffs={len(diffs)} spec_violations={len(viols)} '
          f'wall={wall:.1f}s -> {"FAIL" if rc else "ok"}')
    return rc


def _c18_part(args):
    import analysis_check as ac
    name, seed, count, thorough = args
    if name == 'ranges':
        return name, ac.check_ranges(seed, count, thorough)
    return name, getattr(ac, 'check_' + name)(seed, count)


def decide_c18(pid, spec, tier, seed, theorems, t0):
    from concurrent.futures import ProcessPoolExecutor
    th = tier == 'thorough'
    k = 8 if th else 1
    jobs = [('ranges', seed * 100, 600, th)]
    for j in range(6 * k):
        jobs += [('equities', seed * 100 + j, 60, th), ('icm', seed * 100 + j, 250, th), ('locked', seed * 100 + j, 12, th)]
    with ProcessPoolExecutor(max_workers=16) as ex:
        rs = list(ex.map(_c18_part, jobs))
    viols = [v for _, r in rs for v in r['viols']]
    diffs = [dict(d, part=name) for name, r in rs for d in r['diffs']]
    counts = Counter()
    dist = Counter()
    for name, r in rs:
        counts[name] += r['count']
        dist.update(r.get('dist', {}))
    rc = 0
    if viols:
        v = viols[0]
        replay = fw.write_replay(pid, seed, dict(kind='violation', property=pid, clause=v['clause'],
                                                  signature=v['signature'], detail=v['detail'], input=v['input']))
        print(f'VIOLATION property={pid} replay={replay}')
        rc = 1
    elif diffs:
        replay = fw.write_replay(pid, seed, dict(kind='correspondence', property=pid,
                                                  theorems_no_longer_tied=[n for n, _ in theorems],
                                                  first_difference=diffs[0], searched_inputs=sum(counts.values())))
        print(f'VIOLATION property={pid} replay={replay} no-failing-input-found')
        rc = 1
    wall = time.time() - t0
    cov = dict(obligations=len(theorems), discharged=len(theorems),
               checker_cmd=f'cd lean && lake build PK && lake env lean PK/Audit/{pid}.lean',
               trusted_base=fw.TRUSTED_BASE, theorems=[dict(name=n, axioms=ax) for n, ax in theorems],
               evaluations=sum(counts.values()), distinct_nontrivial=sum(counts.values()),
               rule='ranges: every XY / XYs / XYo / + form of every rank pair of the standard and short-deck orders (exhaustive), '
                    'interval forms (sampled; all 13^4 x suffix in the thorough tier), composite texts with seven kinds of separator, '
                    'malformed tokens; equities: fully specified deals of eight hand-type tuples incl. two hi-lo games, with twin '
                    'holdings (ties in one half) and low-heavy decks, compared with the model and with the engine playing the deal '
                    'all-in; ICM: 1-6 players, 0-n payouts, integer / rational / equal / skewed chips',
               correspondence=dict(inputs=dict(counts), differences=len(diffs)),
               monitor=dict(violations_new=len(viols)), distribution=dict(dist), samples=[])
    fw.write_evidence(pid, tier, seed, cov, [
        'equities and ICM are computed by the code in binary floating point; theorems are about exact rationals and the comparison uses a relative tolerance of 1e-9',
        'equities: only the fully specified case (nothing to sample) is modelled; Monte-Carlo sampling is outside the property',
    ], wall, len(viols) + (1 if rc and not viols else 0))
    print(f'{pid}: theorems={len(theorems)} inputs={dict(counts)} diffs={len(diffs)} spec_violations={len(viols)} '
          f'wall={wall:.1f}s -> {"FAIL" if rc else "ok"}')
    return rc


def _c20_part(args):
    import sitelogs
    return sitelogs.check_site_logs(*args)


def decide_c20(pid, spec, tier, seed, theorems, t0):
    from concurrent.futures import ProcessPoolExecutor
    k = 16 * (6 if tier == 'thorough' else 1)
    known = fw.load_known()
    with ProcessPoolExecutor(max_workers=16) as ex:
        rs = list(ex.map(_c20_part, [(seed * 1000 + j, 25) for j in range(k)]))
    viols_all = [v for r in rs for v in r['viols']]
    diffs = [d for r in rs for d in r['diffs']]
    count = sum(r['count'] for r in rs)
    dist = Counter()
    for r in rs:
        dist.update(r['dist'])
    matched, viols = {}, []
    for v in viols_all:
        kf = fw.match_known(v, known)
        if kf is None:
            viols.append(v)
        else:
            matched.setdefault(kf['id'], (kf, v))
    rc = 0
    if viols:
        v = viols[0]
        replay = fw.write_replay(pid, seed, dict(kind='violation', property=pid, clause=v['clause'],
                                                  signature=v['signature'], detail=v['detail'], input=v['input']))
        print(f'VIOLATION property={pid} replay={replay}')
        rc = 1
    elif diffs:
        replay = fw.write_replay(pid, seed, dict(kind='correspondence', property=pid,
                                                  theorems_no_longer_tied=[n for n, _ in theorems],
                                                  first_difference=diffs[0], searched_inputs=count))
        print(f'VIOLATION property={pid} replay={replay} no-failing-input-found')
        rc = 1
    _print_known(matched)
    unparsed = {k_: v_ for k_, v_ in dist.items() if k_.endswith(':unparsed')}
    wall = time.time() - t0
    cov = dict(obligations=len(theorems), discharged=len(theorems),
               checker_cmd=f'cd lean && lake build PK && lake env lean PK/Audit/{pid}.lean',
               trusted_base=fw.TRUSTED_BASE, theorems=[dict(name=n, axioms=ax) for n, ax in theorems],
               evaluations=count, distinct_nontrivial=count,
               rule='no-limit hold\'em hands (2-6 players, sparse seats, any button, limps, raises, limp-reraises, all-ins, showdowns) '
                    'played on the real engine and rendered as text in the six site formats from templates written against the '
                    'importers\' own patterns; the real importer is run on every text; action extraction compared with the Lean model, '
                    'the imported history with the hand that was rendered',
               correspondence=dict(rendered_logs=count, differences=len(diffs)),
               monitor=dict(violations_new=len(viols), known_findings=sorted(matched)), distribution=dict(dist), samples=[])
    fw.write_evidence(pid, tier, seed, cov, [
        'the regular-expression layer is NOT modelled: it is exercised only through the rendered texts',
        'the site formats are reconstructed from the patterns and two examples; no site corpus is available offline',
        f'logs the importer rejected (reported, hence acceptable for the property): {unparsed or "none"}',
    ], wall, len(viols) + (1 if rc and not viols else 0))
    print(f'{pid}: theorems={len(theorems)} logs={count} diffs={len(diffs)} spec_violations(new/known)={len(viols)}/{len(matched)} '
          f'wall={wall:.1f}s -> {"FAIL" if rc else "ok"}')
    return rc


for _pid, _fn in (('C04', decide_c04), ('C05', decide_c05), ('C19', decide_c19), ('C18', decide_c18), ('C20', decide_c20)):
    if os.path.exists(os.path.join(fw.LEAN, 'PK', 'Audit', f'{_pid}.lean')):
        PROPS[_pid] = dict(kind='eval', decide=_fn, monitors=[])
