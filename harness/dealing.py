"""History-based monitors for the dealing protocol (C10), the opener of each betting round (C13)
and run-outs / multiple boards (C14).  They are executable transcriptions of the statements in
lean/PK/Properties/C10.lean, C13.lean and C14.lean, evaluated on the implementation's own traces;
none of them reads the engine's dealing / opener bookkeeping fields (card_burning_status,
hole_dealing_statuses, board_dealing_counts, opener_index, street_return_*): what is owed is
recomputed from the street definitions and the operations logged so far."""
from __future__ import annotations

from collections import Counter

import impl
import pyspec
from monitors import Monitor, REFUSALS

DEAL_OPS = ('CardBurning', 'HoleDealing', 'BoardDealing', 'StandingPatOrDiscarding')
BET_OPS = ('Folding', 'CheckingOrCalling', 'BringInPosting', 'CompletionBettingOrRaisingTo')


def known(c) -> bool:
    return str(c.rank.value) != '?' and str(c.suit.value) != '?'


def avail(s) -> int:
    """cards the dealer can still draw on: the deck plus the known burnt, mucked and discarded cards"""
    n = len(s.deck_cards)
    n += sum(1 for c in s.burn_cards if known(c)) + sum(1 for c in s.mucked_cards if known(c))
    n += sum(1 for d in s.discarded_cards for c in d if known(c))
    return n


class Pass:
    """one pass over one street: what has been done so far"""

    def __init__(self, si, street, live, boards, avail_before):
        self.si = si
        self.street = street
        self.live = live                      # players in the hand when the street started
        self.boards = boards
        self.avail = avail_before
        self.burns = 0
        self.got = {i: [] for i in live}      # facings of the hole cards received, in order
        self.disc = {}                        # player -> facings of the cards he discarded
        self.board_cards = 0
        self.closed = False

    def want_hole(self, fallback):
        h = list(self.street.hole_dealing_statuses)
        if self.street.draw_status:
            return {i: list(self.disc.get(i, [])) for i in self.live}
        return {i: ([] if fallback else list(h)) for i in self.live}

    def complete(self):
        """every card the street prescribes has been dealt (either reading of the deck rule)"""
        return any(self.mismatch(fb) is None for fb in self.fallbacks())

    def fallbacks(self):
        if self.street.draw_status or not self.street.hole_dealing_statuses:
            return [False]
        # a burnt card stays available (it joins the reserve the deck is replenished from), so the
        # street is covered exactly when the hole cards alone fit into what is available
        need = len(self.street.hole_dealing_statuses) * len(self.live)
        return [need > self.avail]

    def mismatch(self, fallback):
        st = self.street
        if self.burns != (1 if st.card_burning_status else 0):
            return f'{self.burns} card(s) burnt, street prescribes {int(st.card_burning_status)}'
        if st.draw_status and set(self.disc) != set(self.live):
            return f'players {sorted(set(self.live) - set(self.disc))} have not stood pat or discarded'
        want = self.want_hole(fallback)
        for i in self.live:
            if self.got[i] != want[i]:
                return (f'player {i} received hole cards with facings {self.got[i]}, '
                        f'prescribed {want[i]}' + (' (deck exhausted: dealt to the board)' if fallback else ''))
        per = st.board_dealing_count + (len(st.hole_dealing_statuses) if fallback else 0)
        if self.board_cards != per * self.boards:
            return (f'{self.board_cards} board card(s) dealt, prescribed {per} for each of {self.boards} board(s)'
                    + (' (deck exhausted: hole cards go to the board)' if fallback else ''))
        return None


class C10Deal(Monitor):
    """counts / facing / burn_first / order / draw / folded_get_nothing / complete_before_betting / fallback."""
    prop = 'C10'

    def __init__(self):
        super().__init__()
        self.cur = None
        self.line = ''
        self.prev = None
        self.ok = True
        self._nlog_before = 0

    def report(self, clause, sig, detail):
        if self.ok:
            super().report(clause, sig, detail)

    def _snap(self, s):
        self.prev = dict(hole=[list(h) for h in s.hole_cards], st=[list(h) for h in s.hole_card_statuses],
                         statuses=list(s.statuses), avail=avail(s), board=sum(len(b) for b in s.board_cards))

    def after_init(self, sess, err):
        # not gated on the deck sufficing for the whole deal: the fall-back clause is about exactly
        # those decks; a failed construction or operation ends the monitoring instead
        if err is not None:
            self.ok = False
            self.violations.clear()
        if sess.state is not None:
            self._snap(sess.state)

    def before_op(self, sess, line):
        self.line = line
        self._nlog_before = len(sess.state.operations)
        if '?' in line:
            self.ok = False      # unknown cards: the deck accounting of the property is off

    def _close(self, where):
        p = self.cur
        if p is None or p.closed:
            return
        p.closed = True
        if not self.ok:
            return
        errs = [p.mismatch(fb) for fb in p.fallbacks()]
        if all(e is not None for e in errs):
            self.report('complete', f'incomplete@{where}:street{p.si}', f'street {p.si} before {where}: {errs[0]}')

    def after_log(self, s, o):
        n = type(o).__name__
        if self.prev is None:
            # first record of the construction: rebuild the snapshot from before it
            self._snap(s)
            k = len(getattr(o, 'cards', ()) or ())
            if n == 'HoleDealing' and k:
                i = o.player_index
                self.prev['hole'][i] = self.prev['hole'][i][:-k]
                self.prev['st'][i] = self.prev['st'][i][:-k]
                self.prev['avail'] += k
            elif n == 'BoardDealing':
                self.prev['board'] -= k
                self.prev['avail'] += k
        if n in DEAL_OPS:
            si = s.street_index
            if self.cur is None or self.cur.closed or si != self.cur.si or \
                    (self.cur.complete() and n != 'StandingPatOrDiscarding'):
                self._close('the next street')
                live = [i for i, x in enumerate(self.prev['statuses']) if x]
                self.cur = Pass(si, s.streets[si], live, s.starting_board_count, self.prev['avail'])
            p = self.cur
            st = p.street
            if n == 'CardBurning':
                p.burns += 1
                if any(p.got.values()) or p.board_cards:
                    self.report('burn_first', 'burn_after_deal', f'street {p.si}: card burnt after cards were dealt')
                if not st.card_burning_status or p.burns > 1:
                    self.report('burn_first', 'burn_not_prescribed', f'street {p.si}: burn {p.burns}, prescribed {int(st.card_burning_status)}')
            elif n == 'HoleDealing':
                i = o.player_index
                if st.card_burning_status and not p.burns:
                    self.report('burn_first', 'hole_before_burn', f'street {p.si}: hole cards dealt before the burn')
                if i not in p.live:
                    self.report('folded_get_nothing', 'dealt_to_folded', f'street {p.si}: player {i} is not in the hand')
                else:
                    if st.draw_status and set(p.disc) != set(p.live):
                        self.report('draw', 'dealt_before_draws', f'street {p.si}: replacement dealt before every player has drawn')
                    explicit = self.line.startswith('deal_hole') and self.line.split(' ')[-1] != '-' \
                        and len(s.operations) == self._nlog_before + 1
                    if not explicit and self.ok:
                        owed = {}
                        for fb in p.fallbacks():
                            w = p.want_hole(fb)
                            owed = {j: len(w[j]) - len(p.got[j]) for j in p.live}
                            if any(v > 0 for v in owed.values()):
                                break
                        if st.draw_status:
                            exp = next((j for j in p.live if owed[j] > 0), None)
                        else:
                            m = max(owed.values()) if owed else 0
                            exp = next((j for j in p.live if owed[j] == m and m > 0), None)
                        if exp is not None and exp != i:
                            self.report('order', f'order:street{p.si}', f'street {p.si}: default dealee {i}, position order gives {exp} (owed {owed})')
                    p.got[i] += [bool(x) for x in o.statuses]
                    # the record and the state agree, earlier cards are untouched
                    if self.prev['hole'][i] + list(o.cards) != list(s.hole_cards[i]) or \
                            self.prev['st'][i] + [bool(x) for x in o.statuses] != [bool(x) for x in s.hole_card_statuses[i]]:
                        self.report('facing', 'hole_not_appended', f'player {i}: hole {s.hole_cards[i]} / {s.hole_card_statuses[i]} '
                                    f'is not the previous hole plus {o.cards} / {o.statuses}')
                    want = p.want_hole(False)[i]
                    if p.got[i] != want[:len(p.got[i])]:
                        self.report('facing', f'facing:street{p.si}', f'street {p.si}: player {i} received facings {p.got[i]}, prescribed {want}')
            elif n == 'BoardDealing':
                if st.card_burning_status and not p.burns:
                    self.report('burn_first', 'board_before_burn', f'street {p.si}: board dealt before the burn')
                p.board_cards += len(o.cards)
                if sum(len(b) for b in s.board_cards) != self.prev['board'] + len(o.cards):
                    self.report('counts', 'board_not_appended', f'board grew by {sum(len(b) for b in s.board_cards) - self.prev["board"]} for {len(o.cards)} card(s)')
                # a community card is on a board: every card dealt to `board_cards` is among the cards of one of
                # the `board_count` boards (what the hands are made from)
                try:
                    seen = [c for b in range(s.board_count) for c in s.get_board_cards(b)]
                except Exception:  # noqa: BLE001
                    seen = None
                if seen is not None:
                    lost = [c for slot in s.board_cards for c in slot if c and c not in seen]
                    if lost:
                        self.report('counts', f'board_card_on_no_board:street{p.si}',
                                    f'street {p.si}: {lost} dealt as community card(s) but on none of the {s.board_count} '
                                    f'board(s): board_cards {s.board_cards}, boards '
                                    f'{[list(s.get_board_cards(b)) for b in range(s.board_count)]}')
            else:
                i = o.player_index
                if i in p.disc:
                    self.report('draw', 'draws_twice', f'street {p.si}: player {i} draws twice')
                if not st.draw_status or i not in p.live:
                    self.report('draw', 'draw_not_prescribed', f'street {p.si}: draw by {i}')
                held = Counter(self.prev['hole'][i])
                if Counter(o.cards) - held:
                    self.report('draw', 'discard_not_held', f'player {i} discards {o.cards} holding {self.prev["hole"][i]}')
                else:
                    pairs = list(zip(self.prev['hole'][i], [bool(x) for x in self.prev['st'][i]]))
                    fac = []
                    for c in o.cards:
                        k = next(k for k, (h, _) in enumerate(pairs) if h == c)
                        fac.append(pairs.pop(k)[1])
                    now = list(zip(s.hole_cards[i], [bool(x) for x in s.hole_card_statuses[i]]))
                    if now != pairs:
                        self.report('draw', 'kept_cards_changed', f'player {i} discards {o.cards}: keeps {now}, expected {pairs}')
                    p.disc[i] = fac
                    p.got.setdefault(i, [])
        elif n in BET_OPS or n in ('HoleCardsShowingOrMucking', 'ChipsPushing', 'RunoutCountSelection'):
            if n in BET_OPS or s.street_index is not None or n == 'ChipsPushing':
                self._close('betting' if n in BET_OPS else n)
        self._snap(s)

    def after_op(self, sess, line, err, valid):
        if err is not None and (type(err).__name__ not in REFUSALS or len(sess.state.operations) > sess.nlog_before):
            self.ok = False
        if sess.state is not None:
            self._snap(sess.state)


import monitors as _m  # noqa: E402

_m.ALL['C10'] = C10Deal


class C11Deal(C10Deal):
    """the same clauses reported for C11: in a predefined variant the street definitions are the documented
    table (compared exhaustively by C11's pre-check), so a hand not dealt by them is not dealt as the variant
    prescribes"""
    prop = 'C11'


_m.ALL['C11deal'] = C11Deal

