"""Model-mutation experiment (an evaluation of the proofs, not a registered check): each entry changes one line of
the Lean model in a scratch copy of lean/ under /tmp and rebuilds the library; a change that no proof notices
(`SURVIVED`) marks behaviour of the model that no theorem pins down - it is then pinned by the correspondence only.
usage: python3 harness/modelmut.py [names...]   (about 1.5 minutes per entry)"""
import subprocess, shutil, os, sys, re, json, time
SRC='/verif/lean'; DST='/tmp/leanmut/lean'
os.makedirs('/tmp/leanmut', exist_ok=True)
MUTS=[
 ('ante_stack_sign','PK/Model/Machine.lean',"          stacks := s.stacks.set p (getI s.stacks p - amount)\n          payoffs := s.payoffs.set p (getI s.payoffs p - amount) }\n        m.cont s [.updAnte (some (.antePosting p amount))] rest","          stacks := s.stacks.set p (getI s.stacks p + amount)\n          payoffs := s.payoffs.set p (getI s.payoffs p - amount) }\n        m.cont s [.updAnte (some (.antePosting p amount))] rest"),
 ('ante_loop_without_automation','PK/Model/Machine.lean',"    else if cfg.auto .antePosting then m.cont s [.kAnteLoop] rest","    else if true then m.cont s [.kAnteLoop] rest"),
 ('reopen_strict','PK/Model/Machine.lean',"          let s := if inc ≥ s.cbrAmount then { s with acted := [p] } else s","          let s := if inc > s.cbrAmount then { s with acted := [p] } else s"),
 ('runout_offered_in_tournaments','PK/Model/Machine.lean',"          if !s.runoutFlag && !cfg.tournament then","          if !s.runoutFlag then"),
 ('deal_on_with_one_player','PK/Model/Machine.lean',"        if s.allIn && !s.streetIsLast cfg && s.liveCount > 1 then m.cont s [.beginDeal] rest","        if s.allIn && !s.streetIsLast cfg then m.cont s [.beginDeal] rest"),
 ('eligible_strictly_above_level','PK/Model/State.lean',"  (playerIndices cfg).filter fun i => getI pending i ≥ v && getB s.statuses i","  (playerIndices cfg).filter fun i => getI pending i > v && getB s.statuses i"),
 ('winners_not_only_best','PK/Model/Machine.lean',"            let winners := pot.players.filter fun i => hands.getD i none == maxHand","            let winners := pot.players.filter fun i => (hands.getD i none).isSome"),
 ('showdown_erase_always','PK/Model/Machine.lean',"      let s := if (s.street cfg).isSome then { s with showdown := s.showdown.erase p } else s","      let s := { s with showdown := s.showdown.erase p }"),
 ('fold_without_bet_in_tournament','PK/Model/State.lean',"        if cfg.tournament then .error .valueError else warnOr cfg ()","        if !cfg.tournament then .error .valueError else warnOr cfg ()"),
 ('fallback_threshold','PK/Model/Machine.lean',"  if pending > (s.dealableCards env none).length then","  if pending ≥ (s.dealableCards env none).length then"),
 ('replenish_on_superset','PK/Model/State.lean',"  b.all (a.contains ·) && a.any (fun c => !b.contains c)","  b.all (a.contains ·)"),
 ('kill_lone_survivor','PK/Model/Machine.lean',"    else if s.liveCount ≤ 1 then .ok (l.set i false)","    else if s.liveCount ≤ 0 then .ok (l.set i false)"),
 ('pull_adds_twice','PK/Model/Machine.lean',"        stacks := s.stacks.set p (getI s.stacks p + amount)\n        payoffs := s.payoffs.set p (getI s.payoffs p + amount)\n        bets := s.bets.set p 0","        stacks := s.stacks.set p (getI s.stacks p + amount + amount)\n        payoffs := s.payoffs.set p (getI s.payoffs p + amount)\n        bets := s.bets.set p 0"),
 ('board_count_not_decreased','PK/Model/Machine.lean',"        let s' := { s' with boardDealing := s'.boardDealing.set bi (bdc - cards.length) }","        let s' := { s' with boardDealing := s'.boardDealing.set bi bdc }"),
 ('muck_keeps_runout_choice','PK/Model/Machine.lean',"          | .ok s' => .ok { s' with runoutSelectors := s'.runoutSelectors.set p false }","          | .ok s' => .ok s'"),
 ('log_record_dropped_on_call','PK/Model/Machine.lean',"        m.cont s [.updBet (some (.checkingOrCalling p amount)) false] rest","        m.cont s [.updBet none false] rest"),
]
only=sys.argv[1:] 
res=[]
for name, f, old, new in MUTS:
    if only and name not in only: continue
    if os.path.exists(DST): shutil.rmtree(DST)
    shutil.copytree(SRC, DST, symlinks=True)
    p=os.path.join(DST,f); s=open(p).read()
    if s.count(old)!=1:
        res.append((name,'pattern-count-%d'%s.count(old),'')); print(res[-1], flush=True); continue
    open(p,'w').write(s.replace(old,new))
    t=time.time()
    r=subprocess.run(['lake','build','PK'],cwd=DST,capture_output=True,text=True)
    out=r.stdout+r.stderr
    failed=re.findall(r'^- (PK\.[A-Za-z0-9_.]+)', out, re.M)
    errs=re.findall(r'error: (PK/[A-Za-z0-9_/]+\.lean):(\d+)', out)
    res.append((name, 'killed' if r.returncode!=0 else 'SURVIVED', sorted(set(failed))[:6]))
    print(res[-1], '%.0fs'%(time.time()-t), flush=True)
json.dump(res, open('/tmp/leanmut/results.json','w'), indent=1)
shutil.rmtree(DST, ignore_errors=True)
