"""Model-mutation experiment (an evaluation of the proofs, not a registered check): each entry changes one line of
the Lean model in a scratch copy of lean/ under /tmp and rebuilds the library; a change that no proof notices
(`SURVIVED`) marks behaviour of the model that no theorem pins down - it is then pinned by the correspondence only.
usage: python3 harness/modelmut.py [names...]   (about 1.5 minutes per entry)"""
import subprocess, shutil, os, sys, re, json, time
SRC='/verif/lean'; DST='/tmp/leanmut/lean'
os.makedirs('/tmp/leanmut', exist_ok=True)
MUTS=[
 ('ante_stack_sign','PK/Model/Machine.lean',"          stacks := s.stacks.set p (getI s.stacks p - amount)\n          payoffs := s.payoffs.set p (getI s.payoffs p - amount) }\n        m.cont s [.updAnte (some (.antePosting p amount))] rest","          stacks := s.stacks.set p (getI s.stacks p + amount)\n          payoffs := s.payoffs.set p (getI s.payoffs p - amount) }\n        m.cont s [.updAnte (some (.antePosting p amount))] rest"),
 ('ante_loop_without_automation','PK/Model/Machine.lean',"    else if cfg.auto .antePosting then m.cont s [.kAnteLoop] rest","    else if true then m.cont s [.kAnteLoop] rest"),
 ('reopen_strict','PK/Model/Machine.lean',"          let s := if inc ≥ s.cbrAmount then { s with acted := [p] } else s","          let s := if inc > s.cbrAmount then { s with acted := [p] } else s"),
 ('runout_offered_in_tournaments','PK/Model/Machine.lean',"          if !s.runoutFlag && !cfg.tournament then","          if !s.runoutFlag then"),
 ('deal_on_with_one_player','PK/Model/Machine.lean',"        if s.allIn && !s.streetIsLast cfg && s.liveCount > 1 then m.cont s [.beginDeal] rest","        if s.allIn && !s.streetIsLast cfg then m.cont s [.beginDeal] rest"),
 ('eligible_strictly_above_level','PK/Model/State.lean',"  (playerIndices cfg).filter fun i => getI pending i ≥ v && getB s.statuses i","  (playerIndices cfg).filter fun i => getI pending i > v && getB s.statuses i"),
 ('winners_not_only_best','PK/Model/Machine.lean',"            let winners := pot.players.filter fun i => hands.getD i none == maxHand","            let winners := pot.players.filter fun i => (hands.getD i none).isSome"),
 ('showdown_erase_always','PK/Model/Machine.lean',"      let s := if (s.street cfg).isSome then { s with showdown := s.showdown.erase p } else s","      let s := { s with showdown := s.showdown.erase p }"),
 ('fold_without_bet_in_tournament','PK/Model/State.lean',"        if cfg.tournament then .error .valueError else warnOr cfg ()","        if !cfg.tournament then .error .valueError else warnOr cfg ()"),
 ('fallback_threshold','PK/Model/Machine.lean',"  if pending > (s.dealableCards env none).length then","  if pending ≥ (s.dealableCards env none).length then"),
 ('replenish_on_superset','PK/Model/State.lean',"  b.all (a.contains ·) && a.any (fun c => !b.contains c)","  b.all (a.contains ·)"),
 ('kill_lone_survivor','PK/Model/Machine.lean',"    else if s.liveCount ≤ 1 then .ok (l.set i false)","    else if s.liveCount ≤ 0 then .ok (l.set i false)"),
 ('pull_adds_twice','PK/Model/Machine.lean',"        stacks := s.stacks.set p (getI s.stacks p + amount)\n        payoffs := s.payoffs.set p (getI s.payoffs p + amount)\n        bets := s.bets.set p 0","        stacks := s.stacks.set p (getI s.stacks p + amount + amount)\n        payoffs := s.payoffs.set p (getI s.payoffs p + amount)\n        bets := s.bets.set p 0"),
 ('board_count_not_decreased','PK/Model/Machine.lean',"        let s' := { s' with boardDealing := s'.boardDealing.set bi (bdc - cards.length) }","        let s' := { s' with boardDealing := s'.boardDealing.set bi bdc }"),
 ('muck_keeps_runout_choice','PK/Model/Machine.lean',"          | .ok s' => .ok { s' with runoutSelectors := s'.runoutSelectors.set p false }","          | .ok s' => .ok s'"),
 ('log_record_dropped_on_call','PK/Model/Machine.lean',"        m.cont s [.updBet (some (.checkingOrCalling p amount)) false] rest","        m.cont s [.updBet none false] rest"),
]

MUTS += [
 # --- non-engine models
 ('acpc_raise_total_is_increment','PK/Model/Acpc.lean',"    (c', some (.raise (if nt then some (getI c'.committed p).toNat else none)))","    (c', some (.raise (if nt then some (x - getI c.bets p).toNat else none)))"),
 ('acpc_call_is_fold','PK/Model/Acpc.lean',"  | .folding _ => (c, some .fold)","  | .folding _ => (c, some .call)"),
 ('import_pokerstars_raise_is_total','PK/Model/Import.lean',"  | .pokerStars => maxBet + raw\n  | .fullTilt => raw","  | .pokerStars => raw\n  | .fullTilt => raw"),
 ('import_short_raise_not_call','PK/Model/Import.lean',"    (setN bets p t, some (if t ≤ mx then .call p else .cbr p t))","    (setN bets p t, some (.cbr p t))"),
 ('import_headsup_blinds_not_swapped','PK/Model/Import.lean',"  if posted.length == 2 then l.reverse else l","  l"),
 ('phh_muck_written_as_show','PK/Model/Notation.lean',"  | .holeCardsShowingOrMucking p cs => some (if cs.isEmpty then .muck p else .showCards p cs)","  | .holeCardsShowingOrMucking p cs => some (.showCards p cs)"),
 ('equity_share_ignores_ties','PK/Model/Analysis.lean',"  if (hs.getD i none).isSome && hs.getD i none == best then 1 / ((k : Rat) * (winners : Rat)) else 0","  if (hs.getD i none).isSome && hs.getD i none == best then 1 / (k : Rat) else 0"),
 ('icm_no_renormalisation','PK/Model/Analysis.lean',"  | j :: rest, denom => (pct.getD j 0 / denom) * orderProbability pct rest (denom - pct.getD j 0)","  | j :: rest, denom => (pct.getD j 0 / denom) * orderProbability pct rest denom"),
 # --- engine, second batch
 ('blind_not_taken_from_stack','PK/Model/Machine.lean',"          blindPosting := s.blindPosting.set p false\n          bets := s.bets.set p amount\n          stacks := s.stacks.set p (getI s.stacks p - amount)","          blindPosting := s.blindPosting.set p false\n          bets := s.bets.set p amount\n          stacks := s.stacks.set p (getI s.stacks p)"),
 ('burn_flag_not_cleared','PK/Model/Machine.lean',"          let s := { s with cardBurning := false, burned := s.burned ++ [v.val] }","          let s := { s with burned := s.burned ++ [v.val] }"),
 ('hole_cards_not_queued_for_dealing','PK/Model/Machine.lean',"        holeDealing := s.holeDealing.set p (q.drop cards.length)","        holeDealing := s.holeDealing.set p q"),
 ('call_amount_ignores_stack','PK/Model/State.lean',"    | .ok (some p) => .ok (some (min (getI s.stacks p) (maxI s.bets - getI s.bets p)))","    | .ok (some p) => .ok (some (maxI s.bets - getI s.bets p))"),
 ('raise_cap_off_by_one','PK/Model/State.lean',"      if (match st.maxCount with | some c => s.cbrCount == c | none => false) then .error .valueError","      if (match st.maxCount with | some c => s.cbrCount == c + 1 | none => false) then .error .valueError"),
 ('short_all_in_rule_dropped','PK/Model/State.lean',"          if !s.consecAllIn.isEmpty && sumI s.consecAllIn < s.cbrAmount && s.acted.contains p\n          then .error .valueError","          if false\n          then .error .valueError"),
 ('push_before_pull_order','PK/Model/Machine.lean',"    else m.cont s [.beginPull] rest","    else m.cont s [.endHand] rest"),
 ('end_hand_keeps_status','PK/Model/Machine.lean',"  | .endHand => m.cont { s with status := false } [] rest","  | .endHand => m.cont s [] rest"),
 ('runout_disagreement_keeps_first','PK/Model/Machine.lean',"          | some rc => if rc != c then { s with runoutCount := some 1 } else s","          | some rc => s"),
 ('odd_chips_to_last_winner','PK/Model/Machine.lean',"    bets.set i (getI bets i + (if some i == winners.head? then q + r else q))) bets","    bets.set i (getI bets i + (if some i == winners.getLast? then q + r else q))) bets"),
 ('refusal_changes_warned_flag','PK/Model/Machine.lean',"def raise (m : M) (e : Err) : M := { m with ctl := [], err := some e }","def raise (m : M) (e : Err) : M := { m with ctl := [], err := some e, warned := true }"),
 ('collect_keeps_flag','PK/Model/Machine.lean',"  let s1 := { s with betCollection := false }","  let s1 := s"),
]

MUTS += [
 # --- third batch: the betting queue (what C03Round speaks about) and the F25 / F26 / F28 models
 ('call_does_not_leave_queue','PK/Model/Machine.lean',"        let s := { s with\n          actors := actors, acted := insNat p s.acted\n          bets := s.bets.set p (getI s.bets p + amount)","        let s := { s with\n          actors := p :: actors, acted := insNat p s.acted\n          bets := s.bets.set p (getI s.bets p + amount)"),
 ('raise_keeps_raiser_in_queue','PK/Model/Machine.lean',"        let actors := ((rotatedRange n p).drop 1).filter fun i =>","        let actors := (rotatedRange n p).filter fun i =>"),
 ('raise_queue_keeps_all_in_players','PK/Model/Machine.lean',"        let actors := ((rotatedRange n p).drop 1).filter fun i =>\n          getB s.statuses i && getI s.stacks i != 0","        let actors := ((rotatedRange n p).drop 1).filter fun i =>\n          getB s.statuses i"),
 ('round_start_keeps_covered_players','PK/Model/Machine.lean',"            | .ok eff => if eff == 0 then (actors.erase i, none) else (actors, none))","            | .ok eff => (actors, none))"),
 ('round_ends_with_one_to_act','PK/Model/Machine.lean',"    if s.actors.isEmpty || s.liveCount ≤ 1 || status then m.cont s [.endBet] rest","    if s.actors.length ≤ 1 || s.liveCount ≤ 1 || status then m.cont s [.endBet] rest"),
 ('fold_does_not_leave_queue','PK/Model/Machine.lean',"        let s := { s with actors := actors, acted := insNat p s.acted }\n        if getI s.stacks p == 0 then { m with st := s, ctl := [], err := some .assertionError }","        let s := { s with actors := p :: actors, acted := insNat p s.acted }\n        if getI s.stacks p == 0 then { m with st := s, ctl := [], err := some .assertionError }"),
 ('lone_actor_flag_strict','PK/Model/Machine.lean',"          | [a] => getI s.bets a ≥ maxI s.bets","          | [a] => getI s.bets a > maxI s.bets"),
 ('hand_accepts_unknown_suits','PK/Model/Hand.lean',"    if !cs.all Card.known then .error .valueError","    if false then .error .valueError"),
 ('icm_orders_as_long_as_payouts','PK/Model/Analysis.lean',"  let orders := permsK (min payouts.length chips.length) (List.range chips.length)","  let orders := permsK payouts.length (List.range chips.length)"),
 ('min_raise_below_largest_bet','PK/Model/State.lean',"      let amount := if !s.completionStatus then amount + maxI s.bets else amount","      let amount := amount"),
]
only=sys.argv[1:] 
res=[]
for name, f, old, new in MUTS:
    if only and name not in only: continue
    if os.path.exists(DST): shutil.rmtree(DST)
    shutil.copytree(SRC, DST, symlinks=True)
    p=os.path.join(DST,f); s=open(p).read()
    if s.count(old)!=1:
        res.append((name,'pattern-count-%d'%s.count(old),'')); print(res[-1], flush=True); continue
    open(p,'w').write(s.replace(old,new))
    t=time.time()
    r=subprocess.run(['lake','build','PK'],cwd=DST,capture_output=True,text=True)
    out=r.stdout+r.stderr
    failed=re.findall(r'^- (PK\.[A-Za-z0-9_.]+)', out, re.M)
    errs=re.findall(r'error: (PK/[A-Za-z0-9_/]+\.lean):(\d+)', out)
    res.append((name, 'killed' if r.returncode!=0 else 'SURVIVED', sorted(set(failed))[:6]))
    print(res[-1], '%.0fs'%(time.time()-t), flush=True)
json.dump(res, open('/tmp/leanmut/results.json','w'), indent=1)
shutil.rmtree(DST, ignore_errors=True)
