"""History-based monitor for C14 — multiple run-outs and multiple boards.

Executable transcription of lean/PK/Properties/C14.lean (`C14_offered`, `C14_offered_only_all_in`,
`C14_select_iff`, `C14_select_once`, `C14_consensus`, `C14_tournament_once`, `C14_board_count`,
`C14_shared_prefix`, `C14_own_suffix`, `C14_even_split`) plus the two clauses that have no Lean
theorem (every board complete at the end, no card twice), evaluated on the implementation's own
traces.  Nothing here reads `runout_count_selector_statuses`, `street_return_index/count` or the
all-in flag: who may still choose is recomputed from the log, the consensus from the logged
preferences, the board layout from the street definitions."""
from __future__ import annotations

import impl
from monitors import Monitor, REFUSALS

DEAL_OPS = ('CardBurning', 'HoleDealing', 'BoardDealing', 'StandingPatOrDiscarding')
BET_OPS = ('Folding', 'CheckingOrCalling', 'BringInPosting', 'CompletionBettingOrRaisingTo')


def known(c) -> bool:
    return str(c.rank.value) != '?' and str(c.suit.value) != '?'


def consensus(prefs):
    """the documented rule: all expressed preferences equal -> that number, otherwise one run;
    nobody expressed one -> nothing recorded"""
    ex = [p for p in prefs if p is not None]
    if not ex:
        return None
    return ex[0] if all(p == ex[0] for p in ex) else 1


class C14Runout(Monitor):
    prop = 'C14'

    def __init__(self):
        super().__init__()
        self.ok = True
        self.prefs = []              # logged preferences, in order
        self.selected = set()
        self.open = False            # first showdown before the last street is in progress
        self.closed = False          # ... and dealing has resumed (or the hand went on) since
        self.pre_board = None        # board cards per starting board when the first showdown opened
        self.betting_seen = False
        self.pushes = {}             # pot -> board -> amount
        self.push_boardless = False
        self.fallback = False
        self.board_ops = 0
        self.clean = True            # every explicitly named card so far was a card of the deck
        self.pots_before = []
        self.pushing = False
        self.divchunk = 1

    def before_op(self, sess, line):
        t = line.split(' ')
        s = sess.state
        if s is not None and t[0] in ('burn', 'deal_hole', 'deal_board', 'show') and len(t) > 1:
            arg = t[1]
            if arg not in ('-', '=', 'T', 'F') and not arg.startswith('#'):
                try:
                    cs = list(impl.Card.parse(arg))
                except ValueError:
                    cs = []
                own = []
                if t[0] == 'show':
                    try:
                        pl = int(t[2]) if len(t) > 2 and t[2] != '-' else s.showdown_index
                        own = list(s.hole_cards[pl]) if pl is not None else []
                    except Exception:  # noqa: BLE001
                        own = []
                deck = list(s.deck_cards)
                for c in cs:
                    if not known(c):
                        continue
                    if c in deck:
                        deck.remove(c)      # a card named twice is there only once: pokerkit warns (C06)
                    elif c not in own:
                        self.clean = False

    def _shares(self, s, k):
        """even division of pot `k` (its amount just before the first push) over the boards"""
        if k >= len(self.pots_before):
            return None
        nb = s.board_count
        # by the division the state was configured with (the default, or one that deals in chunks): every
        # board the quotient, the first board the remainder as well
        q, rem = s.divmod(self.pots_before[k], nb)
        return {j: q + (rem if j == 0 else 0) for j in range(nb)}

    # -- helpers ------------------------------------------------------------------------------
    @staticmethod
    def board_to_come(s):
        si = s.street_index
        if si is None:
            return False
        return any(st.board_dealing_count > 0 for st in s.streets[si + 1:])

    @staticmethod
    def everyone_all_in(s):
        """no further betting is possible: at most one player in the hand has chips behind"""
        live = [i for i in range(s.player_count) if s.statuses[i]]
        return sum(1 for i in live if s.stacks[i] > 0) <= 1

    def _can(self, sess, i):
        s = sess.state
        with impl.warnings.catch_warnings():
            impl.warnings.simplefilter('error' if sess.warnerr else 'ignore')
            try:
                return bool(s.can_select_runout_count(None, i)) if i is not None else bool(s.can_select_runout_count())
            except Exception as e:  # noqa: BLE001
                return type(e).__name__

    # -- log ------------------------------------------------------------------------------------
    def after_log(self, state, operation):
        if not self.ok:
            return
        s = state
        n = type(operation).__name__
        if n == 'RunoutCountSelection':
            i = operation.player_index
            if s.mode == impl.Mode.TOURNAMENT:
                self.report('tournament_once', 'selection_in_tournament', f'player {i} selects {operation.runout_count} in tournament mode')
            if i in self.selected:
                self.report('each_once', 'selects_twice', f'player {i} selects a second time')
            if not s.statuses[i]:
                self.report('offered', 'folded_selects', f'player {i} is not in the hand')
            if self.closed:
                self.report('offered', 'after_runout_began', f'player {i} selects after dealing has resumed')
            if operation.runout_count is not None and operation.runout_count < 1:
                self.report('consensus', 'count_below_one', f'player {i} selects {operation.runout_count} run-outs')
            if not self.everyone_all_in(s):
                self.report('offered', 'not_all_in', f'selection by {i} while more than one player can still bet '
                            f'(stacks {list(s.stacks)}, statuses {list(s.statuses)})')
            if not self.board_to_come(s):
                self.report('offered', 'no_board_to_come', f'selection by {i} on street {s.street_index} with no community card to come')
            self.selected.add(i)
            self.prefs.append(operation.runout_count)
            want = consensus(self.prefs)
            if s.runout_count != want:
                self.report('consensus', f'consensus:{len(self.prefs)}', f'preferences {self.prefs}: recorded count {s.runout_count}, rule gives {want}')
        elif n in DEAL_OPS:
            if self.open:
                self.closed = True
            if n == 'BoardDealing':
                self.board_ops += 1
        elif n in BET_OPS:
            self.betting_seen = True
        elif n == 'ChipsPushing':
            if operation.board_index is None:
                self.push_boardless = True
            else:
                d = self.pushes.setdefault(operation.pot_index, {})
                d[operation.board_index] = d.get(operation.board_index, 0) + sum(operation.amounts)
                want = self._shares(s, operation.pot_index)
                if want is not None and d[operation.board_index] > want.get(operation.board_index, 0):
                    self.report('even_split', f'even_split:{s.board_count}', f'pot {operation.pot_index} of {self.pots_before[operation.pot_index]} '
                                f'over {s.board_count} boards: board {operation.board_index} has received {d[operation.board_index]}, '
                                f'even division gives {want}')
        if n == 'ChipsPushing':
            self.pushing = True
        elif s.status and not self.pushing:
            try:
                self.pots_before = [p.unraked_amount for p in s.pots]
            except Exception:  # noqa: BLE001
                pass

    # -- quiescent points -------------------------------------------------------------------------
    def _quiescent(self, sess):
        s = sess.state
        if s is None or not self.ok:
            return
        b = s.starting_board_count
        # the number of boards
        r = consensus(self.prefs)
        if s.mode == impl.Mode.TOURNAMENT:
            if s.board_count != b or s.runout_count is not None:
                self.report('tournament_once', 'boards_in_tournament', f'board_count {s.board_count}, runout_count {s.runout_count} with {b} starting board(s)')
        else:
            if s.board_count not in (b, b * (r or 1)):
                self.report('boards', 'board_count', f'board_count {s.board_count}: {b} starting board(s), preferences {self.prefs}')
            if self.closed and s.status and s.board_count != b * (r or 1):
                self.report('boards', 'board_count_after_resume', f'board_count {s.board_count} after dealing resumed: {b} starting '
                            f'board(s) x {r or 1} run-out(s) (preferences {self.prefs})')
        if not s.status:
            return
        # is the first showdown before the last street in progress?
        if not self.open and not self.closed and s.street_index is not None:
            with impl.warnings.catch_warnings():
                impl.warnings.simplefilter('ignore')
                try:
                    showing = bool(s.can_show_or_muck_hole_cards())
                except Exception:  # noqa: BLE001  (unknown hole cards: the query itself fails, C08's business)
                    showing = False
            anyone = self._can(sess, None) is True
            if (showing or anyone) and self.board_to_come(s):
                self.open = True
                self.pre_board = [len(list(s.get_board_cards(j))) for j in range(s.board_count)]
        pending = {i for i in range(s.player_count) if self._can(sess, i) is True}
        odd = {i: v for i in range(s.player_count) for v in [self._can(sess, i)] if v not in (True, False)}
        if odd:
            self.report('offered', 'query_raises', f'can_select_runout_count raises {odd}')
        live = {i for i in range(s.player_count) if s.statuses[i]}
        if pending:
            if s.mode == impl.Mode.TOURNAMENT:
                self.report('tournament_once', 'offered_in_tournament', f'choice offered to {sorted(pending)} in tournament mode')
            if not self.everyone_all_in(s):
                self.report('offered', 'offered_not_all_in', f'choice offered to {sorted(pending)} while more than one player can still bet '
                            f'(stacks {list(s.stacks)})')
            if not self.board_to_come(s):
                self.report('offered', 'offered_no_board', f'choice offered to {sorted(pending)} with no community card to come')
            if pending - live:
                self.report('offered', 'offered_to_folded', f'choice offered to {sorted(pending - live)}, not in the hand')
            if pending & self.selected:
                self.report('each_once', 'offered_again', f'choice offered again to {sorted(pending & self.selected)}')
            if self.closed:
                self.report('offered', 'offered_after_resume', f'choice offered to {sorted(pending)} after dealing has resumed')
        if self.open and not self.closed and s.mode != impl.Mode.TOURNAMENT and self.everyone_all_in(s) \
                and self.board_to_come(s) and len(live) >= 2:
            want = live - self.selected
            if pending != want:
                self.report('offered', 'not_offered', f'all-in showdown on street {s.street_index} with community cards to come: '
                            f'choice pending for {sorted(pending)}, rules give {sorted(want)} (selected so far {sorted(self.selected)})')

    def after_init(self, sess, err):
        if err is not None or sess.state is None:
            self.ok = False
            return
        self.divchunk = sess.extra.get('divchunk', 1)
        self._quiescent(sess)

    def after_op(self, sess, line, err, valid):
        if err is not None and (type(err).__name__ not in REFUSALS or len(sess.state.operations) > sess.nlog_before):
            self.ok = False
            return
        self._quiescent(sess)

    # -- the end of the hand ----------------------------------------------------------------------
    def at_end(self, sess):
        s = sess.state
        if s is None or not self.ok or s.status:
            return
        live = [i for i in range(s.player_count) if s.statuses[i]]
        b = s.starting_board_count
        r = consensus(self.prefs) or 1
        if len(live) < 2 or self.push_boardless:
            return
        total = sum(st.board_dealing_count for st in s.streets)
        if total == 0:
            return
        nb = s.board_count
        if s.mode == impl.Mode.TOURNAMENT:
            r = 1
        if nb != b * r:
            self.report('boards', 'final_board_count', f'{nb} board(s) at the end: {b} starting board(s) x {r} run-out(s)')
            return
        boards = [list(s.get_board_cards(j)) for j in range(nb)]
        lens = {len(x) for x in boards}
        if len(lens) != 1 or min(lens) < total:
            self.report('boards', 'incomplete_board', f'boards at the end have {sorted(len(x) for x in boards)} cards, '
                        f'the streets prescribe {total}')
            return
        pre = self.pre_board[0] if self.pre_board else None
        if r > 1 and pre is not None:
            for k in range(b):
                group = boards[k * r:(k + 1) * r]
                if any(g[:pre] != group[0][:pre] for g in group):
                    self.report('boards', 'runouts_do_not_share', f'run-outs of starting board {k} differ on the {pre} card(s) dealt '
                                f'before the all-in: {[g[:pre] for g in group]}')
            # the cards dealt after the all-in are different cards on every board
            tails = [c for j in range(nb) for c in boards[j][pre:] if known(c)]
            if not self.clean:
                pass
            elif len(tails) != len(set(tails)):
                self.report('boards', 'card_twice', f'a card appears on two boards after the all-in: {[bd[pre:] for bd in boards]}')
            heads = [c for k in range(b) for c in boards[k * r][:pre] if known(c)]
            if self.clean and (len(heads) != len(set(heads)) or set(heads) & set(tails)):
                self.report('boards', 'card_twice', f'a community card appears twice: {boards}')
        else:
            cells = [c for row in s.board_cards for c in row if known(c)]
            if self.clean and len(cells) != len(set(cells)):
                self.report('boards', 'card_twice', f'a community card appears twice: {s.board_cards}')
        # even split of every pot between the boards (default divmod only)
        for pot, d in sorted(self.pushes.items()):
            want = self._shares(s, pot)
            got = {j: d.get(j, 0) for j in range(nb)}
            if want is not None and got != want:
                self.report('even_split', f'even_split:{nb}', f'pot {pot} of {self.pots_before[pot]} over {nb} boards: pushed {got}, '
                            f'even division gives {want}')

import monitors as _m  # noqa: E402

_m.ALL['C14'] = C14Runout
