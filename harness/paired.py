"""Paired-run monitors on the implementation: automated run vs manual twin (C09), automatic
showdown vs everybody-shows (C12), log replay / determinism / deep-copy independence (C15)."""
from __future__ import annotations

import copy

import impl
import pyspec
from impl import Automation, State
from monitors import Monitor, REFUSALS

# the order in which the engine itself performs automated steps
DRIVER = [
    (Automation.ANTE_POSTING, 'can_post_ante', 'post_ante -'),
    (Automation.BET_COLLECTION, 'can_collect_bets', 'collect_bets'),
    (Automation.BLIND_OR_STRADDLE_POSTING, 'can_post_blind_or_straddle', 'post_blind -'),
    (Automation.CARD_BURNING, 'can_burn_card', 'burn -'),
    (Automation.HOLE_DEALING, 'can_deal_hole', 'deal_hole - -'),
    (Automation.BOARD_DEALING, 'can_deal_board', 'deal_board -'),
    (Automation.RUNOUT_COUNT_SELECTION, 'can_select_runout_count', 'runout - -'),
    (Automation.HOLE_CARDS_SHOWING_OR_MUCKING, 'can_show_or_muck_hole_cards', 'show - -'),
    (Automation.HAND_KILLING, 'can_kill_hand', 'kill -'),
    (Automation.CHIPS_PUSHING, 'can_push_chips', 'push'),
    (Automation.CHIPS_PULLING, 'can_pull_chips', 'pull -'),
]


def fresh(sess, autos=None):
    kw = dict(sess.kw)
    if autos is not None:
        kw['automations'] = tuple(autos)
    impl._SEED[0] = sess.extra['seed']
    with impl.warnings.catch_warnings():
        impl.warnings.simplefilter('ignore')
        return impl.construct(kw)


def drive(s: State, autos, limit=2000):
    """Perform, while one exists, the first operation (engine order, default arguments) whose
    automation is in `autos` and which is available."""
    n = 0
    progress = True
    while progress and n < limit:
        progress = False
        for a, can, line in DRIVER:
            if a in autos and getattr(s, can)():
                impl.call_op(s, line)
                n += 1
                progress = True
                break
    return n


def ops_text(s: State):
    return [impl.p_operation(o) for o in s.operations]


def successful_ops(sess):
    """(line) of every top-level operation of the original run that succeeded."""
    return list(getattr(sess, 'ok_ops', []))


class PairedBase(Monitor):
    def after_op(self, sess, line, err, valid):
        if err is not None and len(sess.state.operations) > sess.nlog_before:
            # the call was performed in part and then failed (C07's clause): the rest of this
            # history is not a sequence of successful operations any more
            sess.crashed = True
        if err is None:
            if not hasattr(sess, 'ok_ops'):
                sess.ok_ops = []
            if not sess.ok_ops or sess.ok_ops[-1][0] != len(sess.script):
                sess.ok_ops.append((len(sess.script), line))


class C09Twin(PairedBase):
    """Spec.Twin: the run with automations A has the same operation log and stacks as the run
    with no automation driven by `drive` (default arguments, engine order) between the same
    player decisions."""
    prop = 'C09'

    def at_end(self, sess):
        s = sess.state
        if s is None or getattr(sess, 'crashed', False):
            return
        autos = tuple(s.automations)
        impl._SEED[0] = sess.extra['seed']
        with impl.warnings.catch_warnings():
            impl.warnings.simplefilter('ignore')
            try:
                t = fresh(sess, ())
                drive(t, autos)
                for _, line in successful_ops(sess):
                    impl.call_op(t, line)
                    drive(t, autos)
            except Exception as e:  # noqa: BLE001
                self.report('twin_fails', f'twin:{type(e).__name__}',
                            f'the manual twin raised {type(e).__name__}: {e} after {len(t.operations)} operations '
                            f'(automated run logged {len(s.operations)})')
                return
        a, b = ops_text(s), ops_text(t)
        if a != b:
            k = next((i for i, (x, y) in enumerate(zip(a, b)) if x != y), min(len(a), len(b)))
            self.report('same_log', 'log_differs',
                        f'operation {k}: automated {a[k] if k < len(a) else "<end>"} / twin {b[k] if k < len(b) else "<end>"} '
                        f'(automations {[x.name for x in autos]})')
        elif list(s.stacks) != list(t.stacks) or s.status != t.status:
            self.report('same_stacks', 'stacks_differ', f'{s.stacks}/{s.status} vs twin {t.stacks}/{t.status}')


def can_win_by_rules(s: State, i: int) -> bool | None:
    """Independent `can win now`: could player i's full hand win or tie any pot he is eligible
    for, on any board, for any hand type, against the hands shown so far (independent ranking)."""
    types = [t.__name__ for t in s.hand_types]
    try:
        pots = list(s.pots)
    except Exception:  # noqa: BLE001
        return None
    if s.statuses[i] and sum(1 for x in s.statuses if x) == 1:
        # a lone survivor takes everything there is, whatever he holds and however many board cards are out
        # (with nothing in the middle - an ante refunded by trimming, say - there is nothing to win).  A survivor
        # whose own cards are not known is outside the quantifier ("every deal": real cards): with cards it cannot
        # read the engine's default is to muck, also for the last hand standing - the F12c family, not decided here
        if any(not c for c in s.hole_cards[i]):
            return None
        return any(p.amount for p in pots)
    inplay = [c for row in s.board_cards for c in row if c] + [c for h in s.hole_cards for c in h if c]
    if len(inplay) != len(set(inplay)):
        # the same card twice (dealt against a dealability warning): the rules rank hands of distinct cards
        return None
    own = [c for c in s.hole_cards[i] if c]
    if len(own) != len(s.hole_cards[i]):
        return None
    for b in range(s.board_count):
        board = list(s.get_board_cards(b))
        if any(not c for c in board):
            return None
        for k, tn in enumerate(types):
            if tn == 'GreekHoldemHand' and len(own) != 2:
                return None
            mine = pyspec.best_key(tn, own, board)
            if mine is None:
                continue
            for pot in pots:
                best = None
                for j in pot.player_indices:
                    if not s.statuses[j]:
                        continue
                    up = list(s.get_up_cards(j))
                    kj = pyspec.best_key(tn, up, board) if up else None
                    if kj is not None and (best is None or kj > best):
                        best = kj
                if best is None or mine >= best:
                    return True
    return False


class C12Muck(PairedBase):
    """muck_only_losers / kill_only_losers / tournament_must_show / same_payoffs."""
    prop = 'C12'

    def __init__(self):
        super().__init__()
        self.pending = None

    def before_op(self, sess, line):
        s = sess.state
        self.snap_can = {}
        # the decision is taken against the hands shown so far: evaluate the rule before the call
        if s.showdown_indices or any(s.hand_killing_statuses):
            for i in range(s.player_count):
                if s.statuses[i]:
                    self.snap_can[i] = can_win_by_rules(s, i)
        self.allin_or_final = s.all_in_status or (s.street_index is not None and s.street_index == s.street_count - 1)
        self.in_showdown = bool(s.showdown_indices)
        self.line = line

    def after_log(self, state, operation):
        n = type(operation).__name__
        line = getattr(self, 'line', '')
        auto_decision = not line.startswith('show ') or line.startswith('show - ')
        if n == 'HoleCardsShowingOrMucking':
            p = operation.player_index
            mucked = not operation.hole_cards
            if mucked and auto_decision and getattr(self, 'snap_can', {}).get(p) is True and not state.all_in_status:
                self.report('muck_only_losers', 'mucked_possible_winner',
                            f'player {p} was mucked by the default decision although his hand could win or tie a pot')
            if (not mucked and auto_decision and getattr(self, 'snap_can', {}).get(p) is False
                    and not state.all_in_status and False):
                pass
            if (state.mode == impl.Mode.TOURNAMENT and not mucked and getattr(self, 'in_showdown', False)
                    and getattr(self, 'allin_or_final', False)
                    and sum(1 for c in operation.hole_cards if c) < len(state.hole_cards[p])):
                self.report('tournament_must_show', 'partial_show_accepted',
                            f'tournament: player {p} showed {operation.hole_cards} of {len(state.hole_cards[p])} cards')
        if n == 'HandKilling':
            p = operation.player_index
            # the kill set is computed when hand killing begins, against all shown hands
            want = can_win_by_rules_before_kill(state, p, getattr(self, 'kill_snapshot', None))
            if want is True:
                self.report('kill_only_losers', 'killed_possible_winner',
                            f'player {p} was killed although his shown hand could win or tie a pot')

    def after_op(self, sess, line, err, valid):
        super().after_op(sess, line, err, valid)
        s = sess.state
        if any(s.hand_killing_statuses) and getattr(self, 'kill_snapshot', None) is None:
            self.kill_snapshot = {i: can_win_by_rules(s, i) for i in range(s.player_count) if s.statuses[i]}
            for i, st in enumerate(s.hand_killing_statuses):
                if st and self.kill_snapshot.get(i) is True:
                    self.report('kill_only_losers', 'kill_flag_on_possible_winner',
                                f'player {i} is flagged for hand killing although his hand could win or tie a pot')
                if not st and s.statuses[i] and self.kill_snapshot.get(i) is False:
                    pass

    def at_end(self, sess):
        """Re-run the same decisions with everybody tabling his full hand and no automatic
        showdown decision: final payoffs must be the same."""
        s = sess.state
        if s is None or s.status or getattr(sess, 'crashed', False):
            return
        # only when every show/muck decision of the original run was the engine's default
        ops = successful_ops(sess)
        if any(line.startswith('show ') and not line.startswith('show - ') for _, line in ops):
            return
        if any(line.startswith('kill') for _, line in ops) and False:
            return
        autos = tuple(a for a in s.automations if a != Automation.HOLE_CARDS_SHOWING_OR_MUCKING)
        impl._SEED[0] = sess.extra['seed']
        with impl.warnings.catch_warnings():
            impl.warnings.simplefilter('ignore')
            try:
                t = fresh(sess, autos)

                def show_all():
                    k = 0
                    while t.showdown_indices and t.can_show_or_muck_hole_cards(True) and k < 50:
                        t.show_or_muck_hole_cards(True)
                        k += 1
                show_all()
                for _, line in ops:
                    if line.startswith('show '):
                        continue
                    try:
                        impl.call_op(t, line)
                    except Exception as e:  # noqa: BLE001
                        if type(e).__name__ in REFUSALS:
                            # e.g. a manual kill of a player who, having shown, is no longer flagged
                            if line.startswith('kill'):
                                continue
                            return
                        raise
                    show_all()
            except Exception as e:  # noqa: BLE001
                if type(e).__name__ in ('ValueError', 'UserWarning'):
                    return
                self.report('same_payoffs', f'allshow:{type(e).__name__}', f'everybody-shows run raised {type(e).__name__}: {e}')
                return
        if t.status:
            return
        if list(t.payoffs) != list(s.payoffs):
            self.report('same_payoffs', 'payoffs_differ',
                        f'automatic showdown payoffs {s.payoffs}, everybody shows {t.payoffs}')


def can_win_by_rules_before_kill(state, p, snap):
    if snap is None:
        return None
    return snap.get(p)


class C15Log(PairedBase):
    """replay / determinism / deep copy."""
    prop = 'C15'

    def __init__(self):
        super().__init__()
        self.copy_at = None
        self.copied = None

    def after_op(self, sess, line, err, valid):
        super().after_op(sess, line, err, valid)
        s = sess.state
        if err is None and self.copied is None and len(s.operations) >= getattr(sess, 'copy_after', 6):
            impl._SEED[0] = sess.extra['seed']
            self.copied = (copy.deepcopy(s), len(getattr(sess, 'ok_ops', [])), impl.digest(s))

    def at_end(self, sess):
        s = sess.state
        if s is None or getattr(sess, 'crashed', False):
            return
        impl._SEED[0] = sess.extra['seed']
        with impl.warnings.catch_warnings():
            impl.warnings.simplefilter('ignore')
            # (1) replay of the operation log on a fresh un-automated state
            try:
                t = fresh(sess, ())
                for o in s.operations:
                    apply_logged(t, o)
            except Exception as e:  # noqa: BLE001
                self.report('replay', f'replay:{type(e).__name__}',
                            f'replaying logged operation {len(t.operations)} {impl.p_operation(o)} raised {type(e).__name__}: {e}')
                t = None
            if t is not None:
                a, b = ops_text(s), ops_text(t)
                if a != b:
                    k = next((i for i, (x, y) in enumerate(zip(a, b)) if x != y), min(len(a), len(b)))
                    self.report('replay', 'replay_log_differs',
                                f'operation {k}: logged {a[k] if k < len(a) else "<end>"}, replay {b[k] if k < len(b) else "<end>"}')
                elif strip(impl.digest(s)) != strip(impl.digest(t)):
                    da, db = strip(impl.digest(s)), strip(impl.digest(t))
                    diff = [x for x, y in zip(da.split(';'), db.split(';')) if x != y][:3]
                    self.report('replay', 'replay_state_differs', f'fields {diff}')
            # (2) determinism: the same decisions again
            try:
                u = fresh(sess)
                for _, line in successful_ops(sess):
                    impl.call_op(u, line)
                if ops_text(u) != ops_text(s) or impl.digest(u) != impl.digest(s):
                    self.report('determinism', 'second_run_differs', 'same deck order and decisions, different result')
            except Exception as e:  # noqa: BLE001
                self.report('determinism', f'second_run:{type(e).__name__}', str(e))
            # (3) deep copy: the copy taken earlier was not disturbed by what happened since, and
            #     responds to the remaining operations exactly like the original did
            if self.copied is not None:
                c, k, dig = self.copied
                if impl.digest(c) != dig:
                    self.report('copy_independent', 'copy_changed', 'operating on the original changed the deep copy')
                else:
                    try:
                        for _, line in successful_ops(sess)[k:]:
                            impl.call_op(c, line)
                        if ops_text(c) != ops_text(s) or impl.digest(c) != impl.digest(s):
                            self.report('copy_same_response', 'copy_diverges',
                                        'the deep copy responded differently to the same operations')
                    except Exception as e:  # noqa: BLE001
                        self.report('copy_same_response', f'copy:{type(e).__name__}', str(e))


def strip(d: str) -> str:
    return d


def apply_logged(t: State, o):
    """Apply one logged Operation, with the logged players, amounts and cards."""
    n = type(o).__name__
    if n == 'AntePosting':
        r = t.post_ante(o.player_index)
    elif n == 'BetCollection':
        r = t.collect_bets()
    elif n == 'BlindOrStraddlePosting':
        r = t.post_blind_or_straddle(o.player_index)
    elif n == 'CardBurning':
        r = t.burn_card(o.card)
    elif n == 'HoleDealing':
        r = t.deal_hole(o.cards, o.player_index)
    elif n == 'BoardDealing':
        r = t.deal_board(o.cards)
    elif n == 'StandingPatOrDiscarding':
        r = t.stand_pat_or_discard(o.cards)
    elif n == 'Folding':
        r = t.fold()
    elif n == 'CheckingOrCalling':
        r = t.check_or_call()
    elif n == 'BringInPosting':
        r = t.post_bring_in()
    elif n == 'CompletionBettingOrRaisingTo':
        r = t.complete_bet_or_raise_to(o.amount)
    elif n == 'RunoutCountSelection':
        r = t.select_runout_count(o.runout_count, o.player_index)
    elif n == 'HoleCardsShowingOrMucking':
        if not o.hole_cards and not t.hole_cards[o.player_index]:
            r = t.show_or_muck_hole_cards((), o.player_index)     # a show by a player holding no cards
        else:
            r = t.show_or_muck_hole_cards(o.hole_cards if o.hole_cards else False, o.player_index)
    elif n == 'HandKilling':
        r = t.kill_hand(o.player_index)
    elif n == 'ChipsPushing':
        r = t.push_chips()
    elif n == 'ChipsPulling':
        r = t.pull_chips(o.player_index)
    elif n == 'NoOperation':
        r = t.no_operate()
    else:
        raise KeyError(n)
    return r


import monitors as _m  # noqa: E402

_m.ALL['C09'] = C09Twin
_m.ALL['C12'] = C12Muck
_m.ALL['C15'] = C15Log
