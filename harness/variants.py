"""C11 — each predefined variant plays the game its name and documentation say.

Three pieces:
* `dump_live` / `compare_variants`: every concrete game class of the live pokerkit.games module is
  instantiated with sentinel bet sizes and compared, attribute by attribute and street by street,
  with the Lean model of games.py (`pkdriver variants`); `HandHistory.game_types` is compared with
  the model's codes.  Exhaustive: all classes, all fields, several bet-size pairs.
* `TABLE`: python transcription of lean/PK/Spec/Variants.lean — the documented table, written from
  the names and docs/simulation.rst (deck, hand types, cards per street, draws, opening, structure,
  small/big-bet streets, cap).  `C11_table` proves model = this table in Lean.
* `C11Variant`: trace monitor.  At construction the created state's deck, hand types, structure
  and streets are checked against TABLE; at every betting decision the accepted raise amounts and
  the raise count are checked against what the documented structure prescribes (the C03 rules with
  structure / cap / bet size taken from TABLE, never from the state).
"""
from __future__ import annotations

import inspect
import os
import subprocess

import impl
import monitors
from monitors import C03Betting

DRIVER = os.path.join(os.path.dirname(os.path.dirname(os.path.abspath(__file__))), 'lean', '.lake', 'build', 'bin', 'pkdriver')
BS = {impl.BettingStructure.FIXED_LIMIT: 'FL', impl.BettingStructure.POT_LIMIT: 'PL', impl.BettingStructure.NO_LIMIT: 'NL'}


# ---------------------------------------------------------------- the live classes
def live_classes():
    from pokerkit import games as g
    out = []
    for name, cls in inspect.getmembers(g, inspect.isclass):
        if cls.__module__ == g.__name__ and issubclass(cls, g.Poker) and 'create_state' in dir(cls) \
                and not inspect.isabstract(cls) and hasattr(cls, 'deck') and hasattr(cls, 'hand_types') \
                and hasattr(cls, 'betting_structure'):
            out.append(cls)
    return out


def instantiate(cls, sb, bb):
    params = list(inspect.signature(cls.__init__).parameters)
    single = 'min_bet' in params
    bring = 'bring_in' in params
    args = [(), False, 0]
    args.append(1 if bring else (1, 2))
    args += [sb] if single else [sb, bb]
    return cls(*args), single, bring


def street_line(name, i, st):
    hole = ''.join('U' if x else 'D' for x in st.hole_dealing_statuses) or '-'
    cap = st.max_completion_betting_or_raising_count
    return (f'S {name} {i} burn={int(st.card_burning_status)} hole={hole} board={st.board_dealing_count} '
            f'draw={int(st.draw_status)} opening={st.opening.name} min={st.min_completion_betting_or_raising_amount} '
            f'cap={"N" if cap is None else cap}')


def dump_live(sb, bb):
    from pokerkit import HandHistory
    codes = {cls.__name__: code for code, cls in HandHistory.game_types.items()}
    lines = {}
    for cls in live_classes():
        game, single, bring = instantiate(cls, sb, bb)
        name = cls.__name__
        deck = ''.join(repr(c) for c in game.deck)
        head = (f'V {name} code={codes.get(name, "-")} bs={BS[game.betting_structure]} single={int(single)} '
                f'bringin={int(bring)} deck={deck} htypes={",".join(t.__name__ for t in game.hand_types)}')
        lines[name] = [head] + [street_line(name, i, st) for i, st in enumerate(game.streets)]
    extra_codes = {code: cls.__name__ for code, cls in HandHistory.game_types.items()}
    return lines, extra_codes


def dump_model(pairs):
    inp = ''.join(f'variants {sb} {bb}\n' for sb, bb in pairs)
    p = subprocess.run([DRIVER], input=inp, capture_output=True, text=True, timeout=120)
    blocks, cur = [], {}
    for ln in p.stdout.split('\n'):
        if ln == '.':
            blocks.append(cur)
            cur = {}
        elif ln.startswith(('V ', 'S ')):
            cur.setdefault(ln.split(' ')[1], []).append(ln)
    return blocks


PAIRS = [(3, 7), (1, 2), (5, 5), (2, 10)]


def compare_variants():
    """(number of compared fields, list of differences)"""
    model = dump_model(PAIRS)
    diffs, n = [], 0
    for (sb, bb), mblock in zip(PAIRS, model):
        live, codes = dump_live(sb, bb)
        for name in sorted(set(live) | set(mblock)):
            a, b = live.get(name), mblock.get(name)
            if a is None or b is None:
                diffs.append({'class': name, 'bets': (sb, bb), 'expected': a, 'actual': b,
                              'what': 'class missing in ' + ('the code' if a is None else 'the model')})
                continue
            for x, y in zip(a + [None] * (len(b) - len(a)), b + [None] * (len(a) - len(b))):
                n += len((x or y).split(' '))
                if x != y:
                    diffs.append({'class': name, 'bets': (sb, bb), 'expected': x, 'actual': y, 'what': 'field'})
        # the code table of HandHistory: every code must name a class whose model code is that code
        mcodes = {}
        for name, ls in mblock.items():
            c = ls[0].split(' ')[2].split('=', 1)[1]
            if c != '-':
                mcodes[c] = name
        if codes != mcodes:
            diffs.append({'class': 'HandHistory.game_types', 'bets': (sb, bb), 'expected': codes, 'actual': mcodes,
                          'what': 'codes'})
        n += len(codes)
    return n, diffs


# ---------------------------------------------------------------- the documented table
def _holdem(hole):
    return [dict(down=hole, burn=False), dict(board=3), dict(board=1, big=True), dict(board=1, big=True)]


def _stud(first, later):
    return [dict(down=2, up=1, opening=first, burn=False), dict(up=1, opening=later),
            dict(up=1, opening=later, big=True), dict(up=1, opening=later, big=True),
            dict(down=1, opening=later, big=True)]


def _draw(hole, draws):
    return [dict(down=hole, burn=False)] + [dict(draw=True, big=(draws >= 2 and k + 2 >= draws)) for k in range(draws)]


STD, SHORT, REG, ROYAL = 52, 36, 52, 20
TABLE = {
    'FixedLimitTexasHoldem': dict(deck='STANDARD', hands=['StandardHighHand'], bs='FL', rows=_holdem(2)),
    'NoLimitTexasHoldem': dict(deck='STANDARD', hands=['StandardHighHand'], bs='NL', rows=_holdem(2)),
    'NoLimitShortDeckHoldem': dict(deck='SHORT_DECK_HOLDEM', hands=['ShortDeckHoldemHand'], bs='NL', rows=_holdem(2)),
    'NoLimitRoyalHoldem': dict(deck='ROYAL_POKER', hands=['StandardHighHand'], bs='NL', rows=_holdem(2)),
    'PotLimitOmahaHoldem': dict(deck='STANDARD', hands=['OmahaHoldemHand'], bs='PL', rows=_holdem(4)),
    'FixedLimitOmahaHoldemHighLowSplitEightOrBetter': dict(
        deck='STANDARD', hands=['OmahaHoldemHand', 'OmahaEightOrBetterLowHand'], bs='FL', rows=_holdem(4)),
    'FixedLimitSevenCardStud': dict(deck='STANDARD', hands=['StandardHighHand'], bs='FL', rows=_stud('LOW_CARD', 'HIGH_HAND')),
    'FixedLimitSevenCardStudHighLowSplitEightOrBetter': dict(
        deck='STANDARD', hands=['StandardHighHand', 'EightOrBetterLowHand'], bs='FL', rows=_stud('LOW_CARD', 'HIGH_HAND')),
    'FixedLimitRazz': dict(deck='REGULAR', hands=['RegularLowHand'], bs='FL', rows=_stud('HIGH_CARD', 'LOW_HAND')),
    'NoLimitDeuceToSevenLowballSingleDraw': dict(deck='STANDARD', hands=['StandardLowHand'], bs='NL', rows=_draw(5, 1)),
    'FixedLimitDeuceToSevenLowballTripleDraw': dict(deck='STANDARD', hands=['StandardLowHand'], bs='FL', rows=_draw(5, 3)),
    'FixedLimitBadugi': dict(deck='REGULAR', hands=['BadugiHand'], bs='FL', rows=_draw(4, 3)),
}


def spec_streets(name, sb, bb):
    t = TABLE[name]
    cap = 4 if t['bs'] == 'FL' else None
    out = []
    for r in t['rows']:
        out.append(dict(burn=r.get('burn', True), hole=[False] * r.get('down', 0) + [True] * r.get('up', 0),
                        board=r.get('board', 0), draw=r.get('draw', False), opening=r.get('opening', 'POSITION'),
                        min=bb if r.get('big') else sb, cap=cap))
    return out


class C11Variant(C03Betting):
    """structure / created-state clauses of C11 on implementation traces"""
    prop = 'C11'

    def __init__(self):
        super().__init__()
        self.v = None

    def structure_of(self, sess, s):
        return TABLE[self.v[0]]['bs']

    def cap_of(self, sess, s, st):
        return spec_streets(*self.v)[s.street_index]['cap']

    def minbet_of(self, sess, s, st):
        return spec_streets(*self.v)[s.street_index]['min']

    def after_init(self, sess, err):
        self.v = sess.extra.get('variant')
        if self.v is None or self.v[0] not in TABLE or err is not None or sess.state is None:
            self.v = None
            return
        s = sess.state
        name, sb, bb = self.v
        t = TABLE[name]
        from pokerkit import Deck
        if tuple(s.deck) != tuple(getattr(Deck, t['deck'])):
            self.report('deck', f'deck:{name}', f'{name}: deck of {len(s.deck)} cards, documented {t["deck"]}')
        if [h.__name__ for h in s.hand_types] != t['hands']:
            self.report('hand_types', f'hand_types:{name}', f'{name}: hand types {[h.__name__ for h in s.hand_types]}, documented {t["hands"]}')
        if BS[s.betting_structure] != t['bs']:
            self.report('structure', f'structure:{name}', f'{name}: betting structure {s.betting_structure.name}, the name says {t["bs"]}')
        want = spec_streets(name, sb, bb)
        got = [dict(burn=bool(st.card_burning_status), hole=[bool(x) for x in st.hole_dealing_statuses],
                    board=st.board_dealing_count, draw=bool(st.draw_status), opening=st.opening.name,
                    min=st.min_completion_betting_or_raising_amount, cap=st.max_completion_betting_or_raising_count)
               for st in s.streets]
        if got != want:
            k = next((i for i, (a, b) in enumerate(zip(got, want)) if a != b), min(len(got), len(want)))
            self.report('streets', f'streets:{name}', f'{name}: street {k} is {got[k] if k < len(got) else None}, '
                        f'documented {want[k] if k < len(want) else None} (bets {sb}/{bb})')
        super().after_init(sess, err)

    def after_log(self, state, operation):
        if self.v is not None:
            super().after_log(state, operation)

    def after_op(self, sess, line, err, valid):
        if self.v is not None:
            super().after_op(sess, line, err, valid)

    def report(self, clause, sig, detail):
        # only the clauses C11 is about: which amounts and how many raises the structure admits
        if clause in ('actor', 'actions', 'call_amount'):
            return
        super().report(clause, sig, detail)


monitors.ALL['C11'] = C11Variant
