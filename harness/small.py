"""Small-scope exhaustive correspondence: for a handful of tiny games (two or three players, a few chips, a
three- or twenty-card deck) EVERY sequence of decisions is played - fold / call / minimum raise / maximum
raise, show / muck, one or two run-outs, stand pat / discard - on the implementation and on the Lean model,
and compared like the random stream.  It does not depend on the random generator (so it does not move when
the generator changes) and reaches the corners a random walk visits rarely: every betting line of a short
stack, every combination of all-ins, every order of shows and mucks."""
from __future__ import annotations

import time
import warnings
from collections import Counter

import impl
import run
from impl import Automation, BettingStructure, Mode, Opening, Street, phands
from pokerkit import Deck

PLAYER_STEPS = {Automation.HOLE_CARDS_SHOWING_OR_MUCKING, Automation.RUNOUT_COUNT_SELECTION} \
    if hasattr(Automation, 'RUNOUT_COUNT_SELECTION') else {Automation.HOLE_CARDS_SHOWING_OR_MUCKING}
ALL_AUTO = tuple(a for a in Automation if a not in PLAYER_STEPS)


def _cfg(name, deck, hts, streets, bs, antes, blinds, bring_in, stacks, n, mode, boards, autos, seed=11, warnerr=True):
    kw = dict(automations=autos, deck=deck, hand_types=hts, streets=streets, betting_structure=bs,
              ante_trimming_status=True, raw_antes=antes, raw_blinds_or_straddles=blinds, bring_in=bring_in,
              raw_starting_stacks=stacks, player_count=n, mode=mode, starting_board_count=boards,
              divmod=impl.make_divmod(1), rake=impl.make_rake(0, 1, None, False))
    extra = {'seed': seed, 'warnerr': warnerr, 'divchunk': 1, 'variant': None, 'rake_line': (0, 1, 'inf', 0), 'deck_ok': True}
    meta = {'variant': 'small:' + name, 'autos': 'all' if autos else 'none', 'mode': mode.name, 'boards': boards, 'n': n,
            'stacks': 'small', 'antes': 'small', 'blinds': 'small', 'rake': 'none', 'style': 'exhaustive', 'deck_ok': True}
    return name, kw, extra, meta


def configs():
    P = Opening.POSITION
    out = []
    kuhn = (Street(False, (False,), 0, False, P, 1, 1),)
    for stacks in ((2, 2), (3, 2), (2, 3, 3)):
        for autos in (ALL_AUTO, ()):
            out.append(_cfg(f'kuhn{stacks}', Deck.KUHN_POKER, (phands.KuhnPokerHand,), kuhn, BettingStructure.FIXED_LIMIT,
                            1, 0, 0, stacks, len(stacks), Mode.TOURNAMENT, 1, autos))
    flop = (Street(False, (False, False), 0, False, P, 2, None), Street(True, (), 3, False, P, 2, None))
    for stacks, mode, boards in (((4, 4), Mode.TOURNAMENT, 1), ((3, 6), Mode.CASH_GAME, 1), ((5, 3, 7), Mode.CASH_GAME, 1),
                                 ((4, 6), Mode.CASH_GAME, 2), ((2, 9, 5), Mode.TOURNAMENT, 1)):
        for bs in (BettingStructure.NO_LIMIT, BettingStructure.POT_LIMIT):
            out.append(_cfg(f'flop{stacks}{bs.name[0]}', Deck.ROYAL_POKER, (phands.StandardHighHand,), flop, bs,
                            0, (1, 2), 0, stacks, len(stacks), mode, boards, ALL_AUTO))
    out.append(_cfg('flop-manual', Deck.ROYAL_POKER, (phands.StandardHighHand,), flop, BettingStructure.NO_LIMIT,
                    1, (1, 2), 0, (4, 5), 2, Mode.CASH_GAME, 1, ()))
    stud = (Street(False, (False, True), 0, False, Opening.LOW_CARD, 2, 1),
            Street(True, (True,), 0, False, Opening.HIGH_HAND, 2, 1),
            Street(True, (True,), 0, False, Opening.HIGH_HAND, 4, 1),
            Street(True, (False,), 0, False, Opening.HIGH_HAND, 4, 1))
    for stacks in ((4, 4), (3, 8), (6, 2, 4)):
        out.append(_cfg(f'stud{stacks}', Deck.ROYAL_POKER, (phands.StandardHighHand,), stud, BettingStructure.FIXED_LIMIT,
                        1, 0, 1, stacks, len(stacks), Mode.TOURNAMENT, 1, ALL_AUTO))
    draw = (Street(False, (False,) * 5, 0, False, P, 2, 1), Street(True, (), 0, True, P, 2, 1))
    out.append(_cfg('draw', Deck.ROYAL_POKER, (phands.StandardHighHand,), draw, BettingStructure.FIXED_LIMIT,
                    0, (1, 2), 0, (5, 6), 2, Mode.TOURNAMENT, 1, ALL_AUTO))
    hilo = (Street(False, (False, False, False, False), 0, False, P, 2, 1), Street(True, (), 3, False, P, 2, 1))
    out.append(_cfg('hilo', Deck.STANDARD, (phands.OmahaHoldemHand, phands.OmahaEightOrBetterLowHand), hilo,
                    BettingStructure.FIXED_LIMIT, 0, (1, 2), 0, (5, 4, 6), 3, Mode.CASH_GAME, 1, ALL_AUTO))
    return out


def choices(s) -> list[str]:
    """the decisions (and, without automation, the single default step) available at a quiescent state"""
    with warnings.catch_warnings():
        warnings.simplefilter('error')      # the sessions run with warnings as errors
        if s.can_post_ante():
            return ['post_ante -']
        if s.can_collect_bets():
            return ['collect_bets']
        if s.can_post_blind_or_straddle():
            return ['post_blind -']
        if s.can_burn_card():
            return ['burn -']
        if s.can_deal_hole():
            return ['deal_hole - -']
        if s.can_deal_board():
            return ['deal_board -']
        if s.can_stand_pat_or_discard():
            own = list(s.hole_cards[s.stander_pat_or_discarder_index])
            return ['draw ='] + ([f'draw {own[0]!r}'] if own else [])
        out = []
        if s.can_select_runout_count():
            out += ['runout - -', 'runout 2 -']
        if s.actor_indices:
            if s.can_post_bring_in():
                out.append('bring_in')
            if s.can_fold():
                out.append('fold')
            if s.can_check_or_call():
                out.append('call')
            if s.can_complete_bet_or_raise_to():
                mn, mx = s.min_completion_betting_or_raising_to_amount, s.max_completion_betting_or_raising_to_amount
                out.append(f'cbr {mn}')
                if mx != mn:
                    out.append(f'cbr {mx}')
            return out
        if s.can_show_or_muck_hole_cards():
            out += ['show - -', 'show F -', 'show T -']
            return out
        if out:
            return out
        if s.can_kill_hand():
            return ['kill -']
        if s.can_push_chips():
            return ['push']
        if s.can_pull_chips():
            return ['pull -']
    return []


def _play(cid, kw, extra, meta, ops, mons):
    sess = impl.Session(kw, dict(extra), [m() for m in mons])
    err = sess.init()
    if err is not None:
        return sess, None
    for ln in ops:
        e = sess.op(ln, valid=True)
        if e is not None and type(e).__name__ not in ('ValueError', 'UserWarning'):
            sess.crashed = True
            break
    return sess, sess.state


def explore(name, kw, extra, meta, mons, budget, max_depth=60):
    """depth-first over all decision sequences; yields finished sessions (one per leaf)"""
    leaves = []
    stack = [[]]
    while stack and len(leaves) < budget:
        ops = stack.pop()
        sess, s = _play(f'{name}', kw, extra, meta, ops, mons)
        if s is None or getattr(sess, 'crashed', False) or not s.status or len(ops) >= max_depth:
            leaves.append((ops, sess))
            continue
        try:
            ch = choices(s)
        except Exception:  # noqa: BLE001  a query that raises: this branch ends here (the lock-step stream and
            sess.crashed = True             # the C07 / C08 monitors of the other streams report the query)
            ch = []
        if not ch:
            leaves.append((ops, sess))
            continue
        for c in reversed(ch):
            stack.append(ops + [c])
    return leaves


def run_small(tag: str, monitors=(), budget_per_config=250, only=None):
    """Same result shape as run.run_batch.  `only`: indices of the configurations to play."""
    t0 = time.time()
    scripts, expects, metas, stats = {}, {}, {}, Counter()
    all_script = []
    k = 0
    for ci, (name, kw, extra, meta) in enumerate(configs()):
        if only is not None and ci not in only:
            continue
        for ops, sess in explore(name, kw, extra, meta, monitors, budget_per_config):
            cid = f'{tag}-small{ci}-{k}'
            k += 1
            for m in sess.monitors:
                try:
                    m.at_end(sess)
                except Exception:  # noqa: BLE001
                    pass
            mt = dict(meta)
            mt['ops'] = len(ops)
            mt['terminal'] = bool(sess.state is not None and not sess.state.status)
            mt['nlog'] = len(sess.state.operations) if sess.state is not None else 0
            mt['violations'] = [v for m in sess.monitors for v in m.violations]
            mt['valid_flags'] = [1] * len(ops)
            sc = ['case ' + cid] + sess.script
            ex = ['case ' + cid] + sess.expect
            scripts[cid], expects[cid], metas[cid] = sc, ex, mt
            all_script += sc
            stats['small:' + name] += 1
    t1 = time.time()
    out = run.run_driver(all_script, tag + 'small')
    t2 = time.time()
    acts = run.split_cases(out)
    diffs = []
    for cid in scripts:
        d = run.compare_case(expects[cid][1:], acts.get(cid, ['<missing case>']))
        if d is not None:
            d['case'] = cid
            d['seed'] = 0
            d['meta'] = metas[cid]
            nresp = sum(1 for ln in expects[cid][1:d['line_no'] + 1] if ln == '.')
            cmds = [ln for ln in scripts[cid][1:] if ln == 'init' or ln.startswith('op ')]
            d['at_op'] = cmds[nresp] if nresp < len(cmds) else '<end>'
            d['script'] = scripts[cid]
            diffs.append(d)
    return {'cases': k, 'diffs': diffs, 'stats': stats, 'metas': metas, 'impl_s': t1 - t0, 'model_s': t2 - t1,
            'lines': sum(len(v) for v in expects.values()), 'scripts': scripts, 'expects': expects}


if __name__ == '__main__':
    import sys
    r = run_small('cli', (), int(sys.argv[1]) if len(sys.argv) > 1 else 250)
    print(f"cases={r['cases']} lines={r['lines']} impl={r['impl_s']:.1f}s model={r['model_s']:.1f}s diffs={len(r['diffs'])}")
    print(dict(r['stats']))
    for d in r['diffs'][:3]:
        print('---', d['case'], d['meta'].get('variant'), 'at', d['at_op'])
        for f in d['fields'][:5]:
            print('    ', f[0], '| impl:', f[1][:200], '| model:', f[2][:200])
        print('    ops:', [l for l in d['script'] if l.startswith('op ')][-12:])
