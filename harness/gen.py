"""Case generator: configurations (12 predefined variants + custom street lists) and
operation choice (mostly valid, with a malformed stream).  Every choice comes from
the single `random.Random` passed in, so a case replays exactly."""
from __future__ import annotations

import random
from fractions import Fraction

import impl
from impl import (Automation, BettingStructure, Card, Mode, Opening, State, Street, pokerkit,
                  putil, phands)
from pokerkit import games as pgames
from pokerkit import Deck

VARIANTS = {
    'FT': pgames.FixedLimitTexasHoldem,
    'NT': pgames.NoLimitTexasHoldem,
    'NS': pgames.NoLimitShortDeckHoldem,
    'NR': pgames.NoLimitRoyalHoldem,
    'PO': pgames.PotLimitOmahaHoldem,
    'FO/8': pgames.FixedLimitOmahaHoldemHighLowSplitEightOrBetter,
    'F7S': pgames.FixedLimitSevenCardStud,
    'F7S/8': pgames.FixedLimitSevenCardStudHighLowSplitEightOrBetter,
    'FR': pgames.FixedLimitRazz,
    'N2L1D': pgames.NoLimitDeuceToSevenLowballSingleDraw,
    'F2L3D': pgames.FixedLimitDeuceToSevenLowballTripleDraw,
    'FB': pgames.FixedLimitBadugi,
}
STUD = {'F7S', 'F7S/8', 'FR'}
TWO_BETS = {'FT', 'FO/8', 'F7S', 'F7S/8', 'FR', 'F2L3D', 'FB'}
MAX_PLAYERS = {'FT': 9, 'NT': 9, 'NS': 6, 'NR': 4, 'PO': 8, 'FO/8': 8, 'F7S': 8, 'F7S/8': 8,
               'FR': 8, 'N2L1D': 7, 'F2L3D': 7, 'FB': 8}
AUTOS = list(Automation)


def gen_autos(rng: random.Random):
    mode = rng.choice(['all', 'none', 'half', 'most', 'few', 'nocards', 'nodecide'])
    if mode == 'all':
        return tuple(AUTOS), mode
    if mode == 'none':
        return (), mode
    if mode == 'nocards':
        # everything but card handling: cards are dealt manually
        skip = {Automation.CARD_BURNING, Automation.HOLE_DEALING, Automation.BOARD_DEALING}
        return tuple(a for a in AUTOS if a not in skip), mode
    if mode == 'nodecide':
        skip = {Automation.HOLE_CARDS_SHOWING_OR_MUCKING, Automation.RUNOUT_COUNT_SELECTION,
                Automation.HAND_KILLING}
        return tuple(a for a in AUTOS if a not in skip), mode
    p = {'half': 0.5, 'most': 0.85, 'few': 0.2}[mode]
    autos = [a for a in AUTOS if rng.random() < p]
    rng.shuffle(autos)
    return tuple(autos), mode


def gen_stacks(rng, n, unit):
    kind = rng.choice(['deep', 'short', 'mixed', 'mixed', 'equal', 'tiny'])
    out = []
    for _ in range(n):
        if kind == 'deep':
            out.append(rng.randint(40, 200) * unit)
        elif kind == 'short':
            out.append(rng.randint(1, 12) * unit + rng.randint(0, unit - 1))
        elif kind == 'tiny':
            out.append(rng.randint(1, 3 * unit))
        elif kind == 'equal':
            out.append(50 * unit)
        else:
            out.append(rng.choice([rng.randint(1, 8), rng.randint(5, 40), rng.randint(40, 150)]) * unit
                       + rng.choice([0, 0, 1]))
    if kind == 'equal' and rng.random() < 0.5:
        return out[0], kind   # a single number
    return out, kind


def gen_antes(rng, n, unit):
    k = rng.choice(['none', 'none', 'uniform', 'bb', 'button', 'list'])
    if k == 'none':
        return 0, k
    if k == 'uniform':
        return rng.randint(1, unit), k
    if k == 'bb':
        return {1: rng.randint(1, 2 * unit)}, k
    if k == 'button':
        return {-1: rng.randint(1, 2 * unit)}, k
    return [rng.choice([0, 0, 1, unit]) for _ in range(n)], k


def gen_blinds(rng, n, unit):
    k = rng.choice(['std', 'std', 'std', 'straddle', 'zero_sb', 'bb_only', 'equal', 'post', 'button'])
    sb, bb = max(1, unit // 2), unit
    if k == 'std':
        return (sb, bb), k
    if k == 'straddle' and n >= 3:
        return (sb, bb, 2 * bb), k
    if k == 'zero_sb':
        return (0, bb), k
    if k == 'bb_only':
        return {1: bb}, k
    if k == 'equal':
        return (bb, bb), k
    if k == 'post' and n >= 4:
        return {0: sb, 1: bb, -1: -bb}, k
    if k == 'button':
        return {-1: bb}, k
    return (sb, bb), 'std'


def gen_rake(rng):
    k = rng.choice(['none', 'none', 'none', 'pct', 'pctcap', 'nfnd'])
    if k == 'none':
        return (0, 1, None, False), k
    if k == 'pct':
        return (rng.choice([1, 5, 10]), 100, None, False), k
    if k == 'pctcap':
        return (5, 100, rng.choice([1, 3, 10]), False), k
    return (5, 100, 3, True), k


def gen_custom_streets(rng, unit, kind=None):
    """A random but admissible street list (first street deals hole cards)."""
    k0 = rng.choice(['flop', 'stud', 'draw', 'mixed', 'sameobj'])
    kind = kind or k0
    cap = rng.choice([None, None, 4, 2, 1, 0])     # 0: a street on which nobody may bet or raise
    streets = []
    if kind in ('flop', 'sameobj'):
        hts = rng.choice([(phands.StandardHighHand,), (phands.StandardHighHand, phands.StandardLowHand),
                          (phands.OmahaHoldemHand, phands.OmahaEightOrBetterLowHand),
                          (phands.GreekHoldemHand,), (phands.StandardHighHand, phands.EightOrBetterLowHand)])
        deck = rng.choice([Deck.STANDARD, Deck.SHORT_DECK_HOLDEM, Deck.REGULAR])
        if deck is Deck.SHORT_DECK_HOLDEM:
            hts = (phands.ShortDeckHoldemHand,)
        omaha = hts[0] in (phands.OmahaHoldemHand, phands.GreekHoldemHand)
        h = 2 if hts[0] is phands.GreekHoldemHand else rng.randint(2 if omaha else 1, 4)
        streets.append(Street(rng.random() < 0.3, (False,) * h, 0, False, Opening.POSITION, unit, cap))
        one = Street(True, (), 1, False, Opening.POSITION, unit * rng.choice([1, 2]), cap)
        first = rng.randint(1, 3)
        streets.append(Street(rng.random() < 0.8, (), first, False, Opening.POSITION, unit, cap))
        # enough cards for a five-card hand (three board cards for the Omaha / Greek composition)
        more = max(rng.randint(0, 2), (3 if omaha else 5 - h) - first)
        for _ in range(more):
            if kind == 'sameobj':
                streets.append(one)          # the very same object twice
            else:
                streets.append(Street(True, (), 1, False, Opening.POSITION,
                                      unit * rng.choice([1, 2]), cap))
    elif kind == 'stud':
        op1 = rng.choice([Opening.LOW_CARD, Opening.HIGH_CARD])
        opn = rng.choice([Opening.HIGH_HAND, Opening.LOW_HAND])
        streets.append(Street(False, (False, True), 0, False, op1, unit, cap))
        for _ in range(rng.randint(3, 5)):
            streets.append(Street(rng.random() < 0.5, (rng.random() < 0.8,), 0, False, opn,
                                  unit * rng.choice([1, 2]), cap))
        deck = Deck.STANDARD
        hts = rng.choice([(phands.StandardHighHand,), (phands.RegularLowHand,),
                          (phands.StandardHighHand, phands.EightOrBetterLowHand)])
    elif kind == 'draw':
        h = rng.choice([4, 5])
        streets.append(Street(False, (False,) * h, 0, False, Opening.POSITION, unit, cap))
        for _ in range(rng.randint(1, 3)):
            streets.append(Street(rng.random() < 0.7, (), 0, True, Opening.POSITION,
                                  unit * rng.choice([1, 2]), cap))
        deck = rng.choice([Deck.STANDARD, Deck.REGULAR])
        hts = (phands.BadugiHand,) if h == 4 else rng.choice(
            [(phands.StandardLowHand,), (phands.StandardHighHand,), (phands.RegularLowHand,)])
    else:
        streets.append(Street(False, (False, True), 0, False, Opening.POSITION, unit, cap))
        streets.append(Street(True, (), 2, False, Opening.POSITION, unit, cap))
        streets.append(Street(False, (True,), 1, False, Opening.POSITION, unit, cap))
        streets.append(Street(True, (), 1, False, Opening.POSITION, unit, cap))
        if rng.random() < 0.5:
            streets.append(Street(True, (), 0, True, Opening.POSITION, unit, cap))
        deck = Deck.STANDARD
        hts = (phands.StandardHighHand,)
    bs = rng.choice(list(BettingStructure))
    return tuple(streets), deck, hts, bs, kind


def rule96_table(rng, unit):
    """Directed table for the short-all-in rule (WSOP 96 / TDA 43): blinds unit/2 and unit, so the
    minimum raise is to 2*unit by `unit`; the two blinds are short and their all-ins raise by a1 and
    a2 with a1 + a2 equal to (mostly), one below or one above a full raise; everybody else is deep."""
    n = rng.randint(4, 6)
    x = 2 * unit * rng.choice([1, 1, 1, 2])          # the raise the shorts are built around
    full = x - unit if x == 2 * unit else x - unit   # increment of that raise over the big blind
    a1 = rng.randint(1, max(1, full - 1))
    a2 = max(1, full - a1 + rng.choice([0, 0, 0, -1, 1]))
    stacks = [x + a1, x + a1 + a2] + [rng.randint(40, 120) * unit for _ in range(n - 2)]
    if rng.random() < 0.3 and n >= 5:                # a third short all-in
        stacks[2] = stacks[1] + rng.randint(1, unit)
        stacks = stacks[:2] + stacks[3:] + [stacks[2]]
    return n, 0, 'none', stacks, 'rule96'


def exact_deck_streets(rng, unit):
    """Directed stud-like game on a small deck, sized so that some street needs exactly (or one more
    or one fewer than) the cards that are left."""
    royal, short = Deck.ROYAL_POKER, Deck.SHORT_DECK_HOLDEM
    deck, n, h0 = rng.choice([(royal, 4, 2), (royal, 4, 3), (royal, 5, 2), (royal, 5, 3),
                              (short, 6, 2), (short, 6, 3)])
    n = min(6, max(2, n + rng.choice([0, 0, 0, 0, -1, 1])))
    cap = rng.choice([None, None, 4])
    op1 = rng.choice([Opening.LOW_CARD, Opening.HIGH_CARD])
    opn = rng.choice([Opening.HIGH_HAND, Opening.LOW_HAND])
    streets = [Street(False, (False,) * (h0 - 1) + (True,), 0, False, op1, unit, cap)]
    for _ in range(rng.randint(max(3, 5 - h0), 5)):
        streets.append(Street(rng.random() < 0.8, (rng.random() < 0.8,) * rng.choice([1, 1, 1, 2]),
                              rng.choice([0, 0, 0, 1]), False, opn, unit * rng.choice([1, 2]), cap))
    hts = (phands.StandardHighHand,) if deck is royal else (phands.ShortDeckHoldemHand,)
    return tuple(streets), deck, hts, n, 'stud'


def gen_config(rng: random.Random, seed_tag: int, force_variant: str | None = None,
               profile: dict | None = None):
    """Returns (kw, extra, meta).  `kw` are State constructor arguments."""
    profile = profile or {}
    director = profile.get('_director')
    unit = rng.choice([2, 2, 4, 10])
    if director == 'rule96':
        force_variant = rng.choice(['NT', 'NT', 'PO'])
    elif director == 'exact_deck':
        force_variant = 'custom'
    elif director == 'ante_allin':
        force_variant = rng.choice(['FR', 'FR', 'F7S', 'F7S/8', 'NT', 'FT', 'PO'])
    elif director == 'stud8':
        force_variant = rng.choice(['F7S', 'F7S/8', 'FR'])
    elif director == 'bigpost':
        force_variant = rng.choice(['NT', 'NT', 'PO', 'FT'])
    elif director == 'deck_boundary':
        force_variant = rng.choice(['F2L3D', 'F2L3D', 'FB', 'N2L1D', 'NR'])
    elif director == 'chop':
        force_variant = 'NT'
    elif director == 'mixdeal':
        force_variant = 'custom'
    elif director == 'multirun':
        force_variant = rng.choice(['NT', 'NT', 'PO', 'FT', 'FO/8'])
    variant = force_variant or rng.choice(profile['variants'] if profile.get('variants') else
                                          list(VARIANTS) + ([] if profile.get('predefined') else ['custom'] * 2))
    autos, auto_mode = gen_autos(rng)
    if 'autos' in profile:
        autos, auto_mode = profile['autos'], 'forced'
    mode = rng.choice([Mode.TOURNAMENT, Mode.CASH_GAME])
    if 'mode' in profile:
        mode = profile['mode']
    boards = rng.choice([1, 1, 1, 1, 2, 3])
    rake_t, rake_kind = gen_rake(rng)
    divchunk = rng.choice([1, 1, 1, 1, 1, 5])
    warnerr = rng.random() < 0.5
    trim = rng.random() < 0.5
    if director == 'bigpost':
        mode, warnerr = Mode.CASH_GAME, False
    if director == 'deck_boundary' and variant == 'NR':
        mode, boards = Mode.CASH_GAME, 1
    if director == 'multirun':
        # several starting boards AND three or more agreed run-outs after an all-in on a later street: the
        # only place where the mapping of run-outs onto the shared early streets differs from b <= 2, r <= 2
        mode, boards = Mode.CASH_GAME, rng.choice([2, 2, 3])
    if director == 'chop':
        rake_t, rake_kind = (rng.choice([5, 10]), 100, rng.choice([None, 3]), True), 'nfnd'
        boards = 1
        autos = tuple(a for a in Automation if a not in (Automation.HOLE_DEALING,))
        auto_mode = 'chop'
    if director == 'mixdeal':
        # a street that deals hole cards and board cards, with only part of the dealing automated: the order in
        # which automated and manual dealing steps interleave is the engine's, the un-automated twin follows it
        keep = rng.choice([{Automation.BOARD_DEALING}, {Automation.BOARD_DEALING, Automation.CARD_BURNING},
                           {Automation.HOLE_DEALING}, {Automation.HOLE_DEALING, Automation.CARD_BURNING},
                           {Automation.CARD_BURNING}])
        cardy = {Automation.CARD_BURNING, Automation.HOLE_DEALING, Automation.BOARD_DEALING}
        autos = tuple(a for a in AUTOS if a not in cardy or a in keep)
        auto_mode = 'mixdeal'
    meta = {'variant': variant, 'autos': auto_mode, 'mode': mode.name, 'boards': boards,
            'rake': rake_kind, 'divchunk': divchunk, 'warnerr': warnerr, 'trim': trim}
    rake_f = impl.make_rake(*rake_t)
    dm = impl.make_divmod(divchunk)
    if variant == 'custom':
        streets, deck, hts, bs, ckind = gen_custom_streets(rng, unit, 'mixed' if director == 'mixdeal' else None)
        n = rng.randint(2, 6)
        if director == 'exact_deck':
            streets, deck, hts, n, ckind = exact_deck_streets(rng, unit)
        meta['custom'] = ckind
        antes, ak = gen_antes(rng, n, unit)
        if ckind == 'stud':
            blinds, bk = 0, 'none'
            bring_in = rng.choice([0, 1, max(1, unit // 2)])
            if antes == 0 and bring_in == 0:
                antes, ak = 1, 'uniform'
        else:
            blinds, bk = gen_blinds(rng, n, unit)
            bring_in = 0
        stacks, sk = gen_stacks(rng, n, unit)
        kw = dict(automations=autos, deck=deck, hand_types=hts, streets=streets,
                  betting_structure=bs, ante_trimming_status=trim, raw_antes=antes,
                  raw_blinds_or_straddles=blinds, bring_in=bring_in, raw_starting_stacks=stacks,
                  player_count=n, mode=mode, starting_board_count=boards, divmod=dm, rake=rake_f)
    else:
        cls = VARIANTS[variant]
        n = rng.randint(2, MAX_PLAYERS[variant])
        if rng.random() < 0.5:
            n = min(n, rng.randint(2, 4))
        if profile.get('max_players'):
            n = min(n, profile['max_players'])
        antes, ak = gen_antes(rng, n, unit)
        stacks, sk = gen_stacks(rng, n, unit)
        if profile.get('equal_stacks'):
            stacks, sk = rng.choice([20, 50, 200]) * unit, 'equal'
        if profile.get('no_antes') and rng.random() < profile['no_antes']:
            antes, ak = 0, 'none'
        if director == 'rule96':
            n, antes, ak, stacks, sk = rule96_table(rng, unit)
        if director == 'stud8':
            # a full stud table: with nobody folding the deck runs out and the last street is a shared card
            n = MAX_PLAYERS[variant]
            if rng.random() < 0.3:
                n = 9           # one more than the deck was made for: two streets are dealt as shared cards
            stacks, sk = [rng.randint(60, 200) * unit for _ in range(n)], 'deep'
        if director == 'deck_boundary':
            n = MAX_PLAYERS[variant] if variant != 'NR' else rng.randint(4, 5)
            stacks, sk = [rng.randint(30, 100) * unit for _ in range(n)], 'deep'
        if director == 'bigpost':
            n = rng.randint(4, 6)
            stacks, sk = [rng.randint(40, 120) * unit for _ in range(n)], 'deep'
            antes, ak = 0, 'none'
        if director == 'chop':
            n = rng.randint(2, 3)
            stacks, sk = [rng.choice([20, 50]) * unit] * n, 'equal'
            antes, ak = 0, 'none'
        if director == 'ante_allin':
            # some players cannot cover (or exactly cover) the ante: they are all-in before a card is dealt
            n = rng.randint(3, min(6, MAX_PLAYERS[variant]))
            a = rng.randint(1, unit)
            antes, ak = a, 'uniform'
            stacks = [rng.randint(1, a) if rng.random() < 0.35 else rng.randint(10, 60) * unit for _ in range(n)]
            deep = [i for i in range(n) if stacks[i] > a]
            while len(deep) < 2:
                i = rng.choice([j for j in range(n) if j not in deep])
                stacks[i] = rng.randint(10, 60) * unit
                deep.append(i)
            sk = 'ante_allin'
        common = dict(mode=mode, starting_board_count=boards, divmod=dm, rake=rake_f)
        if variant in STUD:
            bring_in = rng.choice([1, max(1, unit // 2)])
            if antes == 0 and rng.random() < 0.7:
                antes, ak = 1, 'uniform'
            bk = 'none'
            game = cls(autos, trim, antes, bring_in, unit, 2 * unit, **common)
        elif variant in TWO_BETS:
            blinds, bk = gen_blinds(rng, n, unit)
            if director == 'bigpost':
                sb_, bb_ = max(1, unit // 2), unit
                blinds, bk = tuple([sb_, bb_, -(bb_ + rng.randint(1, bb_))] + [0] * (n - 3)), 'bigpost'
            game = cls(autos, trim, antes, blinds, unit, 2 * unit, **common)
        else:
            blinds, bk = gen_blinds(rng, n, unit)
            if director == 'rule96':
                blinds, bk = (max(1, unit // 2), unit), 'std'
            if director == 'chop':
                blinds, bk = (max(1, unit // 2), unit), 'std'
            if director == 'bigpost':
                # a late-seated player (negative entry) posts more than the big blind
                sb_, bb_ = max(1, unit // 2), unit
                blinds, bk = tuple([sb_, bb_, -(bb_ + rng.randint(1, bb_))] + [0] * (n - 3)), 'bigpost'
            game = cls(autos, trim, antes, blinds, unit, **common)
        kw = dict(automations=game.automations, deck=game.deck, hand_types=game.hand_types,
                  streets=game.streets, betting_structure=game.betting_structure,
                  ante_trimming_status=game.ante_trimming_status, raw_antes=game.raw_antes,
                  raw_blinds_or_straddles=game.raw_blinds_or_straddles, bring_in=game.bring_in,
                  raw_starting_stacks=stacks, player_count=n, mode=game.mode,
                  starting_board_count=game.starting_board_count, divmod=game.divmod, rake=game.rake)
    meta.update({'n': n, 'antes': ak, 'blinds': bk, 'stacks': sk})
    if director:
        meta['director'] = director
    meta['deck_ok'] = deck_suffices(kw)
    vinfo = None
    if variant != 'custom':
        vinfo = (VARIANTS[variant].__name__, unit, 2 * unit if variant in TWO_BETS else unit)
    extra = {'seed': seed_tag, 'warnerr': warnerr, 'divchunk': divchunk, 'variant': vinfo,
             'rake_line': (rake_t[0], rake_t[1], 'inf' if rake_t[2] is None else rake_t[2],
                           int(rake_t[3]))}
    return kw, extra, meta


def deck_suffices(kw) -> bool:
    """Conservative test of the C07 side condition 'a deck large enough for the requested
    deal': every street's cards for every player, all burns and all boards (times three
    run-outs in cash-game mode) fit into the deck without replenishing.  Draw games and
    stud games (which fall back to community cards) are designed to replenish."""
    streets = kw['streets']
    n = kw['player_count']
    if any(st.draw_status for st in streets):
        hole = sum(len(st.hole_dealing_statuses) for st in streets)
        return n * hole + len(streets) <= len(kw['deck']) - 1
    hole = sum(len(st.hole_dealing_statuses) for st in streets)
    board = sum(st.board_dealing_count for st in streets)
    burns = sum(1 for st in streets if st.card_burning_status)
    mult = kw['starting_board_count'] * (3 if kw['mode'] == Mode.CASH_GAME and board else 1)
    if board == 0:
        # stud: the engine deals the last street as community cards when short
        return n * (hole - 1) + burns + 1 <= len(kw['deck'])
    return n * hole + burns * mult + board * mult <= len(kw['deck'])


# ---------------------------------------------------------------- operations

def _cards_text(cs):
    return ''.join(repr(c) for c in cs) or '='


def valid_ops(rng: random.Random, s: State, tune: dict) -> list[tuple[str, float]]:
    """Candidate operations the implementation itself admits, with weights."""
    out: list[tuple[str, float]] = []
    n = s.player_count
    if s.can_post_ante():
        out.append(('post_ante -', 3))
        out.append((f'post_ante {rng.choice(list(s.ante_poster_indices))}', 2))
    if s.can_collect_bets():
        out.append(('collect_bets', 5))
    if s.can_post_blind_or_straddle():
        out.append(('post_blind -', 3))
        out.append((f'post_blind {rng.choice(list(s.blind_or_straddle_poster_indices))}', 2))
    if s.can_burn_card():
        out.append(('burn -', 4))
        if s.deck_cards:
            out.append((f'burn {repr(rng.choice(list(s.deck_cards)))}', 1.5))
        if tune.get('unknown'):
            out.append(('burn ??', 0.5))
    if s.can_deal_hole():
        i = s.hole_dealee_index
        pend = len(s.hole_dealing_statuses[i])
        out.append(('deal_hole - -', 3))
        out.append((f'deal_hole #{rng.randint(1, pend)} -', 1.5))
        others = [j for j in range(n) if s.hole_dealing_statuses[j]]
        j = rng.choice(others)
        pj = len(s.hole_dealing_statuses[j])
        k = rng.randint(1, pj)
        if len(s.deck_cards) >= k:
            cs = rng.sample(list(s.deck_cards), k)
            out.append((f'deal_hole {_cards_text(cs)} {j}', 1.5))
            out.append((f'deal_hole {_cards_text(cs[:min(k, pend)])} -', 0.7))
        else:
            # the deck is short: the dealable cards include the reserve (burns, muck, discards)
            pool = [c for c in s.get_dealable_cards(k) if c]
            if len(pool) >= k:
                cs = rng.sample(pool, k)
                out.append((f'deal_hole {_cards_text(cs)} {j}', 2.5))
        out.append((f'deal_hole #{pj} {j}', 1))
        if pj >= 2 and s.deck_cards and tune.get('warnerr') and rng.random() < 0.3:
            c = repr(rng.choice(list(s.deck_cards)))
            out.append((f'deal_hole {c}{c} {j}', 0.6))      # the same card named twice
        if tune.get('unknown'):
            out.append((f'deal_hole {"??" * k} {j}', 0.7))
    if s.can_deal_board():
        c = s.board_dealing_count
        out.append(('deal_board -', 4))
        k = rng.randint(1, c)
        out.append((f'deal_board #{k}', 1))
        if len(s.deck_cards) >= k:
            out.append((f'deal_board {_cards_text(rng.sample(list(s.deck_cards), k))}', 1.5))
        if c >= 2 and s.deck_cards and tune.get('warnerr') and rng.random() < 0.3:
            d = repr(rng.choice(list(s.deck_cards)))
            out.append((f'deal_board {d}{d}', 0.6))          # the same card named twice
    if s.can_stand_pat_or_discard():
        i = s.stander_pat_or_discarder_index
        own = list(s.hole_cards[i])
        out.append(('draw =', 2))
        k = rng.randint(1, len(own)) if own else 0
        if k:
            out.append((f'draw {_cards_text(rng.sample(own, k))}', 3))
            if rng.random() < tune.get('maxdraw', 0.3):
                out.append((f'draw {_cards_text(own)}', 3))
    if s.actor_indices:
        if s.can_fold():
            out.append(('fold', tune.get('fold', 1.0)))
        if s.can_check_or_call():
            out.append(('call', tune.get('call', 3.0)))
        if s.can_post_bring_in():
            out.append(('bring_in', 3))
        if s.can_complete_bet_or_raise_to():
            mn = s.min_completion_betting_or_raising_to_amount
            mx = s.max_completion_betting_or_raising_to_amount
            w = tune.get('raise', 2.0)
            out.append(('cbr -', w * 0.3))
            out.append((f'cbr {mn}', w * 0.3))
            out.append((f'cbr {mx}', w * tune.get('shove', 0.25)))
            if mx > mn:
                out.append((f'cbr {rng.randint(mn, mx)}', w * 0.3))
                out.append((f'cbr {min(mx, mn + rng.randint(0, max(1, mn)))}', w * 0.3))
    d = tune.get('director')
    if d == 'bigpost' and s.actor_indices and s.street_index == 0:
        a = s.actor_index
        # the late-seated poster holds the largest bet, un-faced: let him fold it (cash game, warning ignored)
        if s.bets[a] == max(s.bets) and list(s.bets).count(max(s.bets)) == 1 and s.can_fold():
            out.append(('fold', 60.0))
    if d == 'multirun':
        if s.actor_indices:
            a = s.actor_index
            if s.street_index < tune.get('shove_street', 1):
                if s.can_check_or_call():
                    out.append(('call', 60.0))
            elif s.can_complete_bet_or_raise_to() and s.stacks[a] + s.bets[a] <= s.max_completion_betting_or_raising_to_amount:
                out.append((f'cbr {s.stacks[a] + s.bets[a]}', 60.0))
            elif s.can_check_or_call():
                out.append(('call', 60.0))
        if s.can_select_runout_count():
            out.append((f"runout {tune.get('runs', 3)} -", 60.0))
            out.append(('runout - -', 6.0))
    if d == 'deck_boundary':
        if s.can_deal_hole():
            j = s.hole_dealee_index
            pj = len(s.hole_dealing_statuses[j])
            if pj >= 2:
                out.append((f'deal_hole #{pj} -', 40.0))       # all the cards owed in one request, by count
        if s.can_stand_pat_or_discard():
            own = list(s.hole_cards[s.stander_pat_or_discarder_index])
            if own:
                out.append((f'draw {_cards_text(own)}', 25.0))
                out.append((f'draw {_cards_text(own[:-1]) if len(own) > 1 else _cards_text(own)}', 10.0))
        if s.can_select_runout_count():
            out.append(('runout 3 -', 20.0))
            out.append(('runout 2 -', 20.0))
    if d == 'chop' and s.can_deal_hole():
        j = s.hole_dealee_index
        want = tune.get('chop_cards', {}).get(j)
        if want and len(s.hole_dealing_statuses[j]) >= 2 and all(c in s.deck_cards for c in want):
            out.append((f'deal_hole {_cards_text(want)} {j}', 200.0))
    if tune.get('director') == 'rule96' and s.actor_indices and s.street_index == 0:
        a = s.actor_index
        short = s.stacks[a] + s.bets[a] <= tune.get('short_cap', 0)
        want = None
        if short:
            want = 'cbr ' + str(s.stacks[a] + s.bets[a]) if s.can_complete_bet_or_raise_to() else 'call'
        elif s.completion_betting_or_raising_count == 0:
            want = 'cbr -'
        elif not any(s.consecutive_all_in_completion_betting_or_raising_amounts):
            want = 'call'
        if want is not None:
            out.append((want, 40.0))
    if s.can_select_runout_count():
        for c in ('-', '1', '2', '2', '3'):
            out.append((f'runout {c} -', 1))
    if s.can_show_or_muck_hole_cards():
        i = s.showdown_index
        out.append(('show - -', 4))
        out.append(('show T -', 1.5))
        out.append(('show F -', tune.get('muck', 0.6)))
        if i is not None and s.hole_cards[i] and all(s.hole_cards[i]):
            out.append((f'show {_cards_text(s.hole_cards[i])} -', 1))
            out.append((f'show {_cards_text(s.hole_cards[i])} {i}', 0.5))
            if len(s.hole_cards[i]) > 1 and s.mode != impl.Mode.TOURNAMENT:
                # a partial show (admitted in cash games): the last card(s) only, so that what is tabled is not
                # a prefix of what was dealt
                out.append((f'show {_cards_text(list(s.hole_cards[i])[1:])} -', 0.8))
        others = [j for j in s.showdown_indices if j != i]
        if others:
            out.append((f'show - {rng.choice(others)}', 1))
        if i is not None and s.hole_cards[i]:
            # tabling other cards than the ones held (the way unknown hole cards are revealed); with
            # warnings as errors also one card named for every slot, which must be refused (F23)
            deck = [c for c in s.deck_cards if c]
            k = len(s.hole_cards[i])
            if len(deck) >= k:
                cs = rng.sample(deck, k)
                out.append((f'show {_cards_text(cs)} -', 0.3))
                if tune.get('warnerr') and k > 1:
                    out.append((f'show {_cards_text([cs[0]] * k)} -', 0.3))
    if s.can_kill_hand():
        out.append(('kill -', 3))
        out.append((f'kill {rng.choice(list(s.hand_killing_indices))}', 2))
    if s.can_push_chips():
        out.append(('push', 5))
    if s.can_pull_chips():
        out.append(('pull -', 3))
        out.append((f'pull {rng.choice(list(s.chips_pulling_indices))}', 2))
    if not s.status:
        # after the hand: a player still in it may table his cards voluntarily (the winner of a fold-out
        # showing what he held) - the only thing, besides no_operate, that a finished hand accepts
        live = [i for i in range(n) if s.statuses[i] and s.hole_cards[i] and all(s.hole_cards[i])]
        if live:
            i = rng.choice(live)
            out.append((f'show T {i}', 3))
            out.append((f'show {_cards_text(s.hole_cards[i])} {i}', 2))
    for line in boundary_probes(rng, s):
        out.append((line, 0.4))
    # keep only what the implementation's own query admits *for these arguments*
    keep = []
    for line, w in out:
        try:
            if impl.call_can(s, line):
                keep.append((line, w))
        except Exception:  # noqa: BLE001
            keep.append((line, w))
    return keep


def boundary_probes(rng: random.Random, s: State) -> list[str]:
    """Arguments just outside what the rules admit at this state (wrong player, one card
    too many, one chip below/above the bounds, non-positive counts).  They are used as `can`
    probes (compared with the model) and offered to the valid stream, which keeps them only
    if the implementation's own query admits them."""
    out: list[str] = []
    n = s.player_count
    if any(s.ante_posting_statuses):
        out += [f'post_ante {i}' for i in range(n) if not s.ante_posting_statuses[i]][:2]
    if any(s.blind_or_straddle_posting_statuses):
        out += [f'post_blind {i}' for i in range(n) if not s.blind_or_straddle_posting_statuses[i]][:2]
    if any(s.hole_dealing_statuses):
        for j in rng.sample(range(n), min(n, 3)):
            pj = len(s.hole_dealing_statuses[j])
            out.append(f'deal_hole #{pj + 1} {j}')
            if pj:
                out.append(f'deal_hole #{pj} {j}')
            k = pj + 1
            if len(s.deck_cards) >= k:
                out.append(f'deal_hole {_cards_text(list(s.deck_cards)[:k])} {j}')
        out.append('deal_hole #0 -')
        if s.deck_cards:
            d = repr(s.deck_cards[0])
            jj = next((j for j in range(n) if len(s.hole_dealing_statuses[j]) >= 2), None)
            if jj is not None:
                out.append(f'deal_hole {d}{d} {jj}')            # the same card named twice
    if any(s.board_dealing_counts):
        c = max(s.board_dealing_counts)
        out += [f'deal_board #{c + 1}', 'deal_board #0']
        if len(s.deck_cards) > c:
            out.append(f'deal_board {_cards_text(list(s.deck_cards)[:c + 1])}')
        if c >= 2 and s.deck_cards:
            out.append(f'deal_board {repr(s.deck_cards[0])}{repr(s.deck_cards[0])}')
    if s.card_burning_status and len(s.deck_cards) >= 2:
        out.append(f'burn {_cards_text(list(s.deck_cards)[:2])}')
    if any(s.standing_pat_or_discarding_statuses) and s.deck_cards:
        out.append(f'draw {repr(s.deck_cards[0])}')
        own = s.hole_cards[s.stander_pat_or_discarder_index]
        if own:
            out.append(f'draw {repr(own[0])}{repr(own[0])}')      # the same card named twice
    if s.actor_indices:
        try:
            mn = s.min_completion_betting_or_raising_to_amount
            mx = s.max_completion_betting_or_raising_to_amount
        except Exception:  # noqa: BLE001
            mn = mx = None
        if mn is not None:
            out += [f'cbr {mn - 1}', f'cbr {mx + 1}', f'cbr {mn}', f'cbr {mx}']
        else:
            a = s.actor_indices[0]
            out += [f'cbr {s.stacks[a] + s.bets[a]}', f'cbr {max(s.bets) + 1}']
        out += ['fold', 'bring_in']
    if any(s.runout_count_selector_statuses):
        out += ['runout 0 -', 'runout -1 -']
        out += [f'runout 2 {i}' for i in range(n) if not s.runout_count_selector_statuses[i]][:1]
        out += [f'runout 2 {i}' for i in range(n) if s.runout_count_selector_statuses[i]][-1:]
    if s.showdown_indices:
        out += [f'show - {i}' for i in range(n) if i not in s.showdown_indices][:1]
        i = s.showdown_indices[-1]
        if s.hole_cards[i] and all(s.hole_cards[i]):
            hc = list(s.hole_cards[i])
            out.append(f'show {_cards_text(hc[:-1]) if len(hc) > 1 else "="} {i}')
            out.append(f'show {_cards_text(hc + hc[:1])} {i}')
    if any(s.hand_killing_statuses):
        out += [f'kill {i}' for i in range(n) if not s.hand_killing_statuses[i]][:1]
    if any(s.chips_pulling_statuses):
        out += [f'pull {i}' for i in range(n) if not s.chips_pulling_statuses[i]][:1]
    return out


def malformed_op(rng: random.Random, s: State) -> str:
    """An operation chosen without looking at what is admissible: wrong phase, wrong
    player, amounts around the bounds, non-positive counts, foreign / duplicate cards."""
    n = s.player_count
    p = rng.choice(['-'] + [str(i) for i in range(n)])
    deckc = list(s.deck) if hasattr(s, 'deck') else []
    anyc = lambda k: _cards_text([rng.choice(deckc) for _ in range(k)]) if deckc else '='  # noqa: E731
    foreign = rng.choice(['2c', 'As', 'Kd', '7h', '??', 'Ts9s'])
    kind = rng.choice(['post_ante', 'collect_bets', 'post_blind', 'burn', 'deal_hole', 'deal_board',
                       'draw', 'fold', 'call', 'bring_in', 'cbr', 'cbr', 'cbr', 'runout', 'show',
                       'kill', 'push', 'pull', 'noop'])
    if kind in ('post_ante', 'post_blind', 'kill', 'pull'):
        return f'{kind} {p}'
    if kind in ('collect_bets', 'fold', 'call', 'bring_in', 'push', 'noop'):
        return kind
    if kind == 'burn':
        return 'burn ' + rng.choice(['-', anyc(1), anyc(2), foreign, '#0', '#2'])
    if kind == 'deal_hole':
        return 'deal_hole ' + rng.choice(['-', '#0', '#-1', '#1', '#3', '#9', anyc(1), anyc(2), anyc(6),
                                          foreign]) + ' ' + p
    if kind == 'deal_board':
        return 'deal_board ' + rng.choice(['-', '#0', '#-1', '#1', '#4', '#60', anyc(1), anyc(3), anyc(6),
                                           foreign])
    if kind == 'draw':
        return 'draw ' + rng.choice(['=', anyc(1), anyc(3), foreign])
    if kind == 'cbr':
        amts = ['-', '0', '-1', '1']
        try:
            mn = s.min_completion_betting_or_raising_to_amount
            mx = s.max_completion_betting_or_raising_to_amount
            pt = s.pot_completion_betting_or_raising_to_amount
        except Exception:  # noqa: BLE001
            mn = mx = pt = None
        for v in (mn, mx, pt):
            if v is not None:
                amts += [str(v - 1), str(v), str(v + 1)]
        if s.actor_indices:
            a = s.actor_indices[0]
            amts += [str(s.stacks[a] + s.bets[a]), str(s.stacks[a] + s.bets[a] + 1), str(max(s.bets))]
        return 'cbr ' + rng.choice(amts)
    if kind == 'runout':
        return 'runout ' + rng.choice(['-', '0', '-3', '1', '2', '3']) + ' ' + p
    if kind == 'show':
        own = '='
        if p != '-' and s.hole_cards[int(p)]:
            hc = [c for c in s.hole_cards[int(p)]]
            own = _cards_text(hc[:rng.randint(1, len(hc))])
        return 'show ' + rng.choice(['-', 'T', 'F', own, anyc(2), foreign, anyc(8)]) + ' ' + p
    return 'noop'


def pick(rng: random.Random, weighted: list[tuple[str, float]]) -> str:
    tot = sum(w for _, w in weighted)
    x = rng.random() * tot
    for v, w in weighted:
        x -= w
        if x <= 0:
            return v
    return weighted[-1][0]
