"""Property monitors evaluated on the *implementation's* own traces.

They serve two purposes: (1) the failing-input search when the correspondence between
model and code breaks, (2) recognition of known findings on the unchanged tree.  Each
monitor is an executable transcription of the statements in lean/PK/Spec/*.lean and
lean/PK/Properties/Cxx.lean (clause names are the same)."""
from __future__ import annotations

import traceback
from collections import Counter

import impl
from impl import Card, State

REFUSALS = ('ValueError', 'UserWarning')


class Violation(dict):
    pass


def viol(prop, clause, sig, detail):
    return Violation(property=prop, clause=clause, signature=sig, detail=detail)


class Monitor:
    """Base class.  Hooks: after_init, after_log, before_op, after_op, at_end."""
    prop = '?'

    def __init__(self):
        self.violations: list[Violation] = []

    def report(self, clause, sig, detail):
        self.violations.append(viol(self.prop, clause, sig, detail))

    def after_init(self, sess, err):
        pass

    def after_log(self, state, operation):
        pass

    def before_op(self, sess, line):
        pass

    def after_op(self, sess, line, err, valid):
        pass

    def at_end(self, sess):
        pass


def _pots(s: State):
    try:
        return list(s.pots)
    except Exception:  # noqa: BLE001
        return None


class C01Ledger(Monitor):
    """Spec.Ledger: non-negativity, payoff = stack - start, conservation; terminal clause."""
    prop = 'C01'

    def _check(self, s: State, where: str):
        start = s.starting_stacks
        n = s.player_count
        for i in range(n):
            if s.stacks[i] < 0:
                self.report('nonneg_stack', f'stack<0@{where}', f'player {i} stack {s.stacks[i]}')
            if s.bets[i] < 0:
                self.report('nonneg_bet', f'bet<0@{where}', f'player {i} bet {s.bets[i]}')
            if s.payoffs[i] != s.stacks[i] - start[i]:
                self.report('payoff_def', f'payoff@{where}',
                            f'player {i} payoff {s.payoffs[i]} stack {s.stacks[i]} start {start[i]}')
        pots = _pots(s)
        if pots is None:
            return
        for p in pots:
            if p.raked_amount < 0 or p.unraked_amount < 0:
                self.report('nonneg_pot', f'pot<0@{where}', repr(p))
        total = sum(s.stacks) + sum(s.bets) + sum(p.amount for p in pots)
        if total != sum(start):
            self.report('conservation', f'conservation@{where}',
                        f'stacks {s.stacks} bets {s.bets} pots {[(p.raked_amount, p.unraked_amount) for p in pots]}'
                        f' total {total} != start {sum(start)}')

    def after_init(self, sess, err):
        if sess.state is not None:
            self._check(sess.state, 'init')

    def after_log(self, state, operation):
        self._check(state, type(operation).__name__)

    def after_op(self, sess, line, err, valid):
        s = sess.state
        if err is not None and type(err).__name__ not in REFUSALS:
            return
        self._check(s, 'op:' + line.split(' ')[0])
        if not s.status:
            pots = _pots(s) or []
            if any(s.bets):
                self.report('terminal_bets', 'terminal_bets', f'bets {s.bets}')
            tag = ':nobody_left' if not any(s.statuses) else ''
            if any(p.unraked_amount for p in pots):
                self.report('terminal_pots', 'terminal_pots' + tag, repr(pots))
            if sum(s.payoffs) != -sum(p.raked_amount for p in pots):
                self.report('terminal_zero_sum', 'terminal_zero_sum' + tag,
                            f'payoffs {s.payoffs} raked {[p.raked_amount for p in pots]}')


def _containers(s: State) -> Counter:
    c = Counter()
    for part in (s.deck_cards, s.burn_cards, s.mucked_cards):
        c.update(part)
    for l in s.board_cards:
        c.update(l)
    for l in s.hole_cards:
        c.update(l)
    for l in s.discarded_cards:
        c.update(l)
    return c


class C06Cards(Monitor):
    """Spec.CardsOk: multiset of the six containers = deck while every card came from the
    engine or was an explicit card taken from the deck; known cards never duplicated while
    no dealability warning was issued; engine-dealt cards come from cards not in play;
    fold/muck/kill -> muck, burn -> burn pile, discard -> discards[street]."""
    prop = 'C06'

    def __init__(self):
        super().__init__()
        self.exact = True          # no unknown / foreign card has been introduced
        self.clean = True          # no dealability warning so far
        self.prev = None

    def _snap(self, s):
        return dict(hole=[list(h) for h in s.hole_cards], board=[list(b) for b in s.board_cards],
                    muck=list(s.mucked_cards), burn=list(s.burn_cards),
                    disc=[list(d) for d in s.discarded_cards], deck=list(s.deck_cards))

    def after_init(self, sess, err):
        if sess.state is not None:
            self.prev = self._snap(sess.state)
            self._check(sess.state, 'init')

    def before_op(self, sess, line):
        t = line.split(' ')
        s = sess.state
        if t[0] in ('burn', 'deal_hole', 'deal_board', 'show') and len(t) > 1:
            arg = t[1]
            if arg not in ('-', '=', 'T', 'F') and not arg.startswith('#'):
                try:
                    cs = list(Card.parse(arg))
                except ValueError:
                    cs = []
                if t[0] == 'show':
                    # showing exactly one's own cards moves nothing; anything else replaces
                    # hole cards by explicit ones
                    self.engine_choice = False
                    try:
                        pl = int(t[2]) if t[2] != '-' else s.showdown_index
                        own = list(s.hole_cards[pl]) if pl is not None else None
                    except Exception:  # noqa: BLE001
                        own = None
                    if own is None or cs != own or not all(cs):
                        self.exact = False
                        if any(c and c not in (own or []) and c not in s.deck_cards for c in cs):
                            self.clean = False
                    return
                deck = list(s.deck_cards)
                for c in cs:
                    if not c or c not in deck:
                        self.exact = False
                        if c:
                            self.clean = False
                    else:
                        deck.remove(c)
        self.engine_choice = t[0] in ('burn', 'deal_hole', 'deal_board') and (
            len(t) > 1 and (t[1] == '-' or t[1].startswith('#')))

    def _check(self, s, where):
        cont = _containers(s)
        if self.exact:
            if cont != Counter(s.deck):
                missing = Counter(s.deck) - cont
                extra = cont - Counter(s.deck)
                self.report('conservation', f'cards@{where}',
                            f'missing {dict(missing)} extra {dict(extra)}')
        elif self.clean:
            dups = [c for c, k in cont.items() if c and k > 1]
            if dups:
                self.report('known_no_dup', f'dup@{where}', repr(dups))

    def after_log(self, state, operation):
        n = type(operation).__name__
        prev = self.prev
        if prev is not None:
            in_play = [c for l in prev['board'] for c in l] + [c for l in prev['hole'] for c in l]
            if n in ('CardBurning', 'HoleDealing', 'BoardDealing') and getattr(self, 'engine_choice', True) \
                    and self.exact:
                cs = [operation.card] if n == 'CardBurning' else list(operation.cards)
                for c in cs:
                    if c in in_play:
                        self.report('dealt_from_not_in_play', f'inplay@{n}', repr(c))
                k = len(cs)
                if k <= len(prev['deck']) and cs != prev['deck'][:k]:
                    self.report('dealt_from_top', f'top@{n}', f'{cs} vs deck {prev["deck"][:k]}')
            if n in ('Folding', 'HandKilling') or (n == 'HoleCardsShowingOrMucking' and not operation.hole_cards):
                p = operation.player_index
                gone = prev['hole'][p]
                if state.mucked_cards[len(state.mucked_cards) - len(gone):] != gone or state.hole_cards[p]:
                    self.report('piles_muck', f'muck@{n}', f'{gone} not appended to muck')
            if n == 'CardBurning' and (not state.burn_cards or state.burn_cards[-1] != operation.card):
                self.report('piles_burn', 'burn', repr(operation.card))
            if n == 'StandingPatOrDiscarding':
                si = state.street_index
                d = state.discarded_cards[si]
                k = len(operation.cards)
                if k and list(d[len(d) - k:]) != list(operation.cards):
                    self.report('piles_discard', 'discard', repr(operation.cards))
        self._check(state, n)
        self.prev = self._snap(state)

    def after_op(self, sess, line, err, valid):
        if err is None or type(err).__name__ in REFUSALS:
            self._check(sess.state, 'op:' + line.split(' ')[0])
            self.prev = self._snap(sess.state)


PHASE_QUERIES = {
    'ante': ['can_post_ante'],
    'collect': ['can_collect_bets'],
    'blind': ['can_post_blind_or_straddle'],
    'deal': ['can_burn_card', 'can_deal_hole', 'can_deal_board', 'can_stand_pat_or_discard'],
    'bet': ['can_fold', 'can_check_or_call', 'can_post_bring_in', 'can_complete_bet_or_raise_to'],
    'show': ['can_select_runout_count', 'can_show_or_muck_hole_cards'],
    'kill': ['can_kill_hand'],
    'push': ['can_push_chips'],
    'pull': ['can_pull_chips'],
}
PHASE_OF_OP = {
    'AntePosting': 'ante', 'BetCollection': 'collect', 'BlindOrStraddlePosting': 'blind',
    'CardBurning': 'deal', 'HoleDealing': 'deal', 'BoardDealing': 'deal',
    'StandingPatOrDiscarding': 'deal', 'Folding': 'bet', 'CheckingOrCalling': 'bet',
    'BringInPosting': 'bet', 'CompletionBettingOrRaisingTo': 'bet',
    'RunoutCountSelection': 'show', 'HoleCardsShowingOrMucking': 'show', 'HandKilling': 'kill',
    'ChipsPushing': 'push', 'ChipsPulling': 'pull',
}
# documented order: which phase may follow which (Spec.Phases.next)
PHASE_NEXT = {
    'start': {'ante', 'collect', 'blind', 'deal', 'push'},
    'ante': {'ante', 'collect'},
    'collect': {'blind', 'deal', 'show', 'push', 'bet', 'kill', 'pull'},
    'blind': {'blind', 'deal'},
    'deal': {'deal', 'bet', 'collect', 'show', 'kill', 'push'},
    'bet': {'bet', 'collect', 'deal', 'show', 'push', 'kill'},
    'show': {'show', 'deal', 'kill', 'push'},
    'kill': {'kill', 'push'},
    'push': {'push', 'pull'},
    'pull': {'pull', 'show'},
}


def orphan_tag(s: State) -> str:
    """':orphan_pot' when some pot has no eligible player left (everybody who contributed
    at its level has folded, mucked or been killed)."""
    try:
        pots = s._pots if s._pots is not None else list(s.pots)
        if any(not p.player_indices for p in pots):
            return ':orphan_pot'
    except Exception:  # noqa: BLE001
        pass
    return ''


def active_phases(s: State):
    out = []
    for ph, qs in PHASE_QUERIES.items():
        for q in qs:
            try:
                if getattr(s, q)():
                    out.append(ph)
                    break
            except Exception as e:  # noqa: BLE001
                out.append(f'{ph}!{type(e).__name__}')
                break
    return out


class C07Phases(Monitor):
    """one_phase / over / order / no_partial_failure / progress (bounded number of operations)."""
    prop = 'C07'

    def __init__(self):
        super().__init__()
        self.last_phase = 'start'
        self.known = True
        self.deck_ok = True

    def before_op(self, sess, line):
        if '?' in line:
            self.known = False

    def _quiescent(self, s, where):
        if not self.deck_ok or not self.known:
            return
        ph = active_phases(s)
        if s.status:
            if len(ph) != 1:
                self.report('one_phase', f'phases={ph}@{where}', f'active phases {ph}')
        else:
            if ph:
                self.report('over', f'over:{ph}@{where}', f'operations available after the end: {ph}')

    def after_init(self, sess, err):
        self.deck_ok = bool(sess.extra.get('deck_ok', True))
        if err is not None:
            tb = traceback.extract_tb(err.__traceback__)
            inner = tb[-1].name if tb else '?'
            if not self.deck_ok and inner == '_verify_cards_consumption':
                return
            if not (type(err).__name__ == 'ValueError' and inner in ('__post_init__', 'clean_values')):
                self.report('no_partial_failure', f'init:{type(err).__name__}:{inner}',
                            f'constructor raised {type(err).__name__} in {inner}: {err}')
            return
        self._quiescent(sess.state, 'init')

    def after_log(self, state, operation):
        n = type(operation).__name__
        if n == 'NoOperation':
            return
        if n == 'HoleCardsShowingOrMucking' and state.street_index is None:
            return      # voluntary ("non-standard") show outside the showdown: not a phase step
        ph = PHASE_OF_OP[n]
        if ph not in PHASE_NEXT[self.last_phase]:
            self.report('order', f'order:{self.last_phase}->{ph}', f'{n} after phase {self.last_phase}')
        self.last_phase = ph

    def after_op(self, sess, line, err, valid):
        s = sess.state
        name = line.split(' ')[0]
        if err is not None and (not self.deck_ok or not self.known):
            return
        if err is not None and type(err).__name__ not in REFUSALS:
            tb = traceback.extract_tb(err.__traceback__)
            inner = tb[-1].name if tb else '?'
            self.report('no_partial_failure', f'op:{type(err).__name__}:{inner}' + orphan_tag(s),
                        f'{line!r} raised {type(err).__name__} in {inner}: {err}')
            return
        if err is not None and valid:
            tb = traceback.extract_tb(err.__traceback__)
            inner = tb[-1].name if tb else '?'
            self.report('no_partial_failure', f'legal:{name}:{type(err).__name__}:{inner}',
                        f'available operation {line!r} raised {type(err).__name__} in {inner}: {err}')
        self._quiescent(s, 'op:' + name)

    def at_end(self, sess):
        s = sess.state
        if s is None:
            return
        # bounded: a generous bound on the number of logged operations for one hand
        n = s.player_count
        streets = len(s.streets)
        bound = 40 * n * (streets + 1) * max(1, s.board_count if s.street_return_index is not None else 1) + 2000
        if len(s.operations) > bound:
            self.report('terminates', 'too_many_operations', f'{len(s.operations)} > {bound}')


class C08Contract(Monitor):
    """can_iff / can_total / refused_unchanged / explicit_index."""
    prop = 'C08'

    def before_op(self, sess, line):
        s = sess.state
        self.before = impl.digest(s)
        impl._SEED[0] = sess.extra['seed']
        with impl.warnings.catch_warnings():
            impl.warnings.simplefilter('error' if sess.warnerr else 'ignore')
            try:
                self.can = bool(impl.call_can(s, line))
                self.can_exc = None
            except Exception as e:  # noqa: BLE001
                self.can = None
                self.can_exc = e
        if impl.digest(s) != self.before:
            self.report('queries_pure', 'can_changed_state:' + line.split(' ')[0], line)

    def after_op(self, sess, line, err, valid):
        s = sess.state
        name = line.split(' ')[0]
        if not sess.extra.get('deck_ok', True) and err is not None:
            return          # deck too small for the configured deal: outside the quantifier
        crash = err is not None and type(err).__name__ not in REFUSALS
        if crash and len(s.operations) > sess.nlog_before:
            # the requested operation itself was performed; a later automated step failed:
            # that is C07's no_partial_failure, not a disagreement between query and operation
            return
        if self.can_exc is not None:
            tb = traceback.extract_tb(self.can_exc.__traceback__)
            inner = tb[-1].name if tb else '?'
            self.report('can_total', f'can_raises:{name}:{type(self.can_exc).__name__}:{inner}',
                        f'can_{line!r} raised {type(self.can_exc).__name__}')
        elif self.can != (err is None) and not (err is not None and len(s.operations) > sess.nlog_before):
            en = type(err).__name__ if err is not None else 'ok'
            self.report('can_iff', f'can={int(self.can)}:{name}:{en}' + orphan_tag(s),
                        f'{line!r}: can={self.can} but operation -> {en}')
        if err is not None:
            en = type(err).__name__
            if en in REFUSALS:
                after = impl.digest(s)
                if after != self.before and len(s.operations) > sess.nlog_before:
                    pass    # performed, then an automated follow-up was refused: C07's clause
                elif after != self.before:
                    self.report('refused_unchanged', f'changed:{name}', f'{line!r} refused with {en} but state changed')
            elif self.can is False:
                self.report('refused_kind', f'kind:{name}:{en}', f'{line!r} refused with {en}')
        else:
            t = line.split(' ')
            idx = None
            if name in ('post_ante', 'post_blind', 'kill', 'pull') and t[1] != '-':
                idx = int(t[1])
            elif name in ('deal_hole', 'runout', 'show') and t[2] != '-':
                idx = int(t[2])
            if idx is not None:
                # the first operation logged by this call is the requested one
                op = s.operations[sess.nlog_before] if len(s.operations) > sess.nlog_before else None
                if op is None or getattr(op, 'player_index', None) != idx:
                    self.report('explicit_index', f'index:{name}',
                                f'{line!r} applied to player {getattr(op, "player_index", None)}')
            if name == 'runout' and t[1] != '-':
                op = s.operations[sess.nlog_before] if len(s.operations) > sess.nlog_before else None
                if op is not None and int(t[1]) < 1:
                    self.report('can_iff', 'runout_nonpositive_accepted', f'{line!r} accepted')


ALL = {'C01': C01Ledger, 'C06': C06Cards, 'C07': C07Phases, 'C08': C08Contract}
