"""Property monitors evaluated on the *implementation's* own traces.

They serve two purposes: (1) the failing-input search when the correspondence between
model and code breaks, (2) recognition of known findings on the unchanged tree.  Each
monitor is an executable transcription of the statements in lean/PK/Spec/*.lean and
lean/PK/Properties/Cxx.lean (clause names are the same)."""
from __future__ import annotations

import traceback
from collections import Counter

import impl
from impl import Card, State

REFUSALS = ('ValueError', 'UserWarning')


class Violation(dict):
    pass


def viol(prop, clause, sig, detail):
    return Violation(property=prop, clause=clause, signature=sig, detail=detail)


class Monitor:
    """Base class.  Hooks: after_init, after_log, before_op, after_op, at_end."""
    prop = '?'

    def __init__(self):
        self.violations: list[Violation] = []

    def report(self, clause, sig, detail):
        self.violations.append(viol(self.prop, clause, sig, detail))

    def after_init(self, sess, err):
        pass

    def after_log(self, state, operation):
        pass

    def before_op(self, sess, line):
        pass

    def after_op(self, sess, line, err, valid):
        pass

    def at_end(self, sess):
        pass


def _pots(s: State):
    try:
        return list(s.pots)
    except Exception:  # noqa: BLE001
        return None


class C01Ledger(Monitor):
    """Spec.Ledger: non-negativity, payoff = stack - start, conservation; terminal clause."""
    prop = 'C01'

    def _check(self, s: State, where: str):
        start = s.starting_stacks
        n = s.player_count
        for i in range(n):
            if s.stacks[i] < 0:
                self.report('nonneg_stack', f'stack<0@{where}', f'player {i} stack {s.stacks[i]}')
            if s.bets[i] < 0:
                self.report('nonneg_bet', f'bet<0@{where}', f'player {i} bet {s.bets[i]}')
            if s.payoffs[i] != s.stacks[i] - start[i]:
                self.report('payoff_def', f'payoff@{where}',
                            f'player {i} payoff {s.payoffs[i]} stack {s.stacks[i]} start {start[i]}')
        pots = _pots(s)
        if pots is None:
            return
        for p in pots:
            if p.raked_amount < 0 or p.unraked_amount < 0:
                self.report('nonneg_pot', f'pot<0@{where}', repr(p))
        total = sum(s.stacks) + sum(s.bets) + sum(p.amount for p in pots)
        if total != sum(start):
            self.report('conservation', f'conservation@{where}',
                        f'stacks {s.stacks} bets {s.bets} pots {[(p.raked_amount, p.unraked_amount) for p in pots]}'
                        f' total {total} != start {sum(start)}')

    def after_init(self, sess, err):
        if sess.state is not None:
            self._check(sess.state, 'init')

    def after_log(self, state, operation):
        self._check(state, type(operation).__name__)

    def after_op(self, sess, line, err, valid):
        s = sess.state
        if err is not None and type(err).__name__ not in REFUSALS:
            return
        self._check(s, 'op:' + line.split(' ')[0])
        if not s.status:
            pots = _pots(s) or []
            if any(s.bets):
                self.report('terminal_bets', 'terminal_bets', f'bets {s.bets}')
            tag = ''
            if not any(s.statuses):
                # who took the last player out of the hand: a voluntary muck (finding F12c) or something else
                last = next((o for o in reversed(s.operations)
                             if type(o).__name__ in ('HoleCardsShowingOrMucking', 'HandKilling', 'Folding')
                             and not getattr(o, 'hole_cards', None)), None)
                tag = ':nobody_left' if type(last).__name__ == 'HoleCardsShowingOrMucking' else \
                    f':nobody_left_after_{type(last).__name__}'
                if type(last).__name__ == 'HandKilling' and (
                        any(not c for row in s.board_cards for c in row)
                        or any(not c for o in s.operations if type(o).__name__ == 'HoleDealing' for c in o.cards)):
                    # cards of unknown rank were dealt (to the board, or to a player): no hand can be read, everybody
                    # is flagged and killed - finding F12e
                    tag = ':nobody_left_unknown_cards'
                elif type(last).__name__ == 'HandKilling':
                    # everybody who was killed had tabled only part of his hand (cash game): he kept the rest to
                    # himself, which leaves him without a hand like a muck does - finding F12d, not F24's lone survivor
                    killed = [o.player_index for o in s.operations if type(o).__name__ == 'HandKilling']
                    partial = {o.player_index for o in s.operations if type(o).__name__ == 'HoleCardsShowingOrMucking'
                               and o.hole_cards and not all(o.hole_cards)}
                    whole = {o.player_index for o in s.operations if type(o).__name__ == 'HoleCardsShowingOrMucking'
                             and o.hole_cards and all(o.hole_cards)}
                    if killed and all(i in partial and i not in whole for i in killed):
                        tag = ':nobody_left_after_partial_shows'
            if any(p.unraked_amount for p in pots):
                self.report('terminal_pots', 'terminal_pots' + tag, repr(pots))
            if sum(s.payoffs) != -sum(p.raked_amount for p in pots):
                self.report('terminal_zero_sum', 'terminal_zero_sum' + tag,
                            f'payoffs {s.payoffs} raked {[p.raked_amount for p in pots]}')


def _containers(s: State) -> Counter:
    c = Counter()
    for part in (s.deck_cards, s.burn_cards, s.mucked_cards):
        c.update(part)
    for l in s.board_cards:
        c.update(l)
    for l in s.hole_cards:
        c.update(l)
    for l in s.discarded_cards:
        c.update(l)
    return c


class C06Cards(Monitor):
    """Spec.CardsOk: multiset of the six containers = deck while every card came from the
    engine or was an explicit card taken from the deck; known cards never duplicated while
    no dealability warning was issued; engine-dealt cards come from cards not in play;
    fold/muck/kill -> muck, burn -> burn pile, discard -> discards[street]."""
    prop = 'C06'

    def __init__(self):
        super().__init__()
        self.exact = True          # no unknown / foreign card has been introduced
        self.clean = True          # no dealability warning so far
        self.prev = None

    def _snap(self, s):
        return dict(hole=[list(h) for h in s.hole_cards], board=[list(b) for b in s.board_cards],
                    muck=list(s.mucked_cards), burn=list(s.burn_cards),
                    disc=[list(d) for d in s.discarded_cards], deck=list(s.deck_cards))

    def after_init(self, sess, err):
        if sess.state is not None:
            self.prev = self._snap(sess.state)
            self._check(sess.state, 'init')

    def before_op(self, sess, line):
        t = line.split(' ')
        s = sess.state
        if t[0] == 'show' and len(t) > 1 and t[1] == '=':
            # a show of no cards at all: the hand is replaced by face-down unknown cards
            self.exact = False
        if t[0] in ('burn', 'deal_hole', 'deal_board', 'show') and len(t) > 1:
            arg = t[1]
            if arg not in ('-', '=', 'T', 'F') and not arg.startswith('#'):
                try:
                    cs = list(Card.parse(arg))
                except ValueError:
                    cs = []
                if t[0] == 'show':
                    # showing exactly one's own cards moves nothing; anything else replaces
                    # hole cards by explicit ones
                    self.engine_choice = False
                    try:
                        pl = int(t[2]) if t[2] != '-' else s.showdown_index
                        own = list(s.hole_cards[pl]) if pl is not None else None
                    except Exception:  # noqa: BLE001
                        own = None
                    if own is None or cs != own or not all(cs):
                        self.exact = False
                        # the cards that are new to the hand: every card already held accounts for one
                        # mention; a new card the dealable cards do not cover (foreign, in play, or named
                        # once more than they hold it) draws the warning - the caller's choice from then
                        # on; that it does warn for a repeated card is checked after the operation (F23)
                        fresh = [c for c in cs if c]
                        for c in own or []:
                            if c in fresh:
                                fresh.remove(c)
                        try:
                            pool = list(s.get_dealable_cards(len(fresh)))
                        except Exception:  # noqa: BLE001
                            pool = list(s.deck_cards)
                        dealable = set(pool)
                        for c in fresh:
                            if c in pool:
                                pool.remove(c)
                            else:
                                self.clean = False
                                if c in dealable:
                                    self.repeat = True
                    return
                deck = list(s.deck_cards)
                try:
                    pool = list(s.get_dealable_cards(len(cs)))
                except Exception:  # noqa: BLE001
                    pool = list(deck)
                dealable = set(pool)
                for c in cs:
                    if not c:
                        self.exact = False
                    elif c in pool:
                        pool.remove(c)
                        if c in deck:
                            deck.remove(c)
                        else:
                            self.exact = False      # taken from the reserve: moved, not duplicated
                    else:
                        # not among the dealable cards, or named more often than they hold it: pokerkit
                        # warns (the caller's choice from then on); that it does warn for a repeated
                        # card is checked after the operation
                        self.exact = False
                        self.clean = False
                        if c in dealable:
                            self.repeat = True
        self.engine_choice = t[0] in ('burn', 'deal_hole', 'deal_board') and (
            len(t) > 1 and (t[1] == '-' or t[1].startswith('#')))

    def _check(self, s, where):
        cont = _containers(s)
        if self.exact:
            if cont != Counter(s.deck):
                missing = Counter(s.deck) - cont
                extra = cont - Counter(s.deck)
                self.report('conservation', f'cards@{where}',
                            f'missing {dict(missing)} extra {dict(extra)}')
        elif self.clean:
            dups = [c for c, k in cont.items() if c and k > 1]
            if dups:
                self.report('known_no_dup', f'dup@{where}', repr(dups))

    def after_log(self, state, operation):
        n = type(operation).__name__
        prev = self.prev
        if prev is not None:
            in_play = [c for l in prev['board'] for c in l] + [c for l in prev['hole'] for c in l]
            if n in ('CardBurning', 'HoleDealing', 'BoardDealing') and getattr(self, 'engine_choice', True) \
                    and self.exact:
                cs = [operation.card] if n == 'CardBurning' else list(operation.cards)
                for c in cs:
                    if c in in_play:
                        self.report('dealt_from_not_in_play', f'inplay@{n}', repr(c))
                k = len(cs)
                if k <= len(prev['deck']) and cs != prev['deck'][:k]:
                    self.report('dealt_from_top', f'top@{n}', f'{cs} vs deck {prev["deck"][:k]}')
            if n in ('Folding', 'HandKilling') or (n == 'HoleCardsShowingOrMucking' and not operation.hole_cards):
                p = operation.player_index
                gone = prev['hole'][p]
                if state.mucked_cards[len(state.mucked_cards) - len(gone):] != gone or state.hole_cards[p]:
                    self.report('piles_muck', f'muck@{n}', f'{gone} not appended to muck')
            if n == 'CardBurning' and (not state.burn_cards or state.burn_cards[-1] != operation.card):
                self.report('piles_burn', 'burn', repr(operation.card))
            if n == 'StandingPatOrDiscarding':
                si = state.street_index
                d = state.discarded_cards[si]
                k = len(operation.cards)
                if k and list(d[len(d) - k:]) != list(operation.cards):
                    self.report('piles_discard', 'discard', repr(operation.cards))
        self._check(state, n)
        self.prev = self._snap(state)

    def after_op(self, sess, line, err, valid):
        if getattr(self, 'repeat', False):
            self.repeat = False
            if err is None and not getattr(sess, 'last_warned', False):
                self.report('known_no_dup', 'silent_repeat@' + line.split(' ')[0],
                            f'{line}: a known card named twice was dealt twice without any warning')
        if err is None or type(err).__name__ in REFUSALS:
            self._check(sess.state, 'op:' + line.split(' ')[0])
            self.prev = self._snap(sess.state)


PHASE_QUERIES = {
    'ante': ['can_post_ante'],
    'collect': ['can_collect_bets'],
    'blind': ['can_post_blind_or_straddle'],
    'deal': ['can_burn_card', 'can_deal_hole', 'can_deal_board', 'can_stand_pat_or_discard'],
    'bet': ['can_fold', 'can_check_or_call', 'can_post_bring_in', 'can_complete_bet_or_raise_to'],
    'show': ['can_select_runout_count', 'can_show_or_muck_hole_cards'],
    'kill': ['can_kill_hand'],
    'push': ['can_push_chips'],
    'pull': ['can_pull_chips'],
}
PHASE_OF_OP = {
    'AntePosting': 'ante', 'BetCollection': 'collect', 'BlindOrStraddlePosting': 'blind',
    'CardBurning': 'deal', 'HoleDealing': 'deal', 'BoardDealing': 'deal',
    'StandingPatOrDiscarding': 'deal', 'Folding': 'bet', 'CheckingOrCalling': 'bet',
    'BringInPosting': 'bet', 'CompletionBettingOrRaisingTo': 'bet',
    'RunoutCountSelection': 'show', 'HoleCardsShowingOrMucking': 'show', 'HandKilling': 'kill',
    'ChipsPushing': 'push', 'ChipsPulling': 'pull',
}
# documented order: which phase may follow which (Spec.Phases.next)
PHASE_NEXT = {
    'start': {'ante', 'collect', 'blind', 'deal', 'push'},
    'ante': {'ante', 'collect'},
    'collect': {'blind', 'deal', 'show', 'push', 'bet', 'kill', 'pull'},
    'blind': {'blind', 'deal'},
    'deal': {'deal', 'bet', 'collect', 'show', 'kill', 'push'},
    'bet': {'bet', 'collect', 'deal', 'show', 'push', 'kill'},
    'show': {'show', 'deal', 'kill', 'push'},
    'kill': {'kill', 'push'},
    'push': {'push', 'pull'},
    'pull': {'pull', 'show'},
}


def orphan_tag(s: State) -> str:
    """':orphan_pot' when some pot has no eligible player left (everybody who contributed
    at its level has folded, mucked or been killed)."""
    try:
        pots = s._pots if s._pots is not None else list(s.pots)
        if any(not p.player_indices for p in pots):
            return ':orphan_pot'
    except Exception:  # noqa: BLE001
        pass
    return ''


def active_phases(s: State):
    out = []
    for ph, qs in PHASE_QUERIES.items():
        for q in qs:
            try:
                if getattr(s, q)():
                    out.append(ph)
                    break
            except Exception as e:  # noqa: BLE001
                out.append(f'{ph}!{type(e).__name__}')
                break
    return out


class C07Phases(Monitor):
    """one_phase / over / order / no_partial_failure / progress (bounded number of operations)."""
    prop = 'C07'

    def __init__(self):
        super().__init__()
        self.last_phase = 'start'
        self.known = True
        self.deck_ok = True

    def before_op(self, sess, line):
        if '?' in line:
            self.known = False

    def _quiescent(self, s, where):
        if self.known and any(not c for i in s.player_indices if s.statuses[i] for c in s.hole_cards[i]):
            # a player still in the hand holds an unknown card (it need not have been dealt as `??`: a
            # partial show can leave one): outside "hands reaching a showdown are known"
            self.known = False
        if not self.deck_ok or not self.known:
            return
        ph = active_phases(s)
        if s.status:
            if len(ph) != 1:
                self.report('one_phase', f'phases={ph}@{where}', f'active phases {ph}')
        else:
            if ph:
                self.report('over', f'over:{ph}@{where}', f'operations available after the end: {ph}')

    def after_init(self, sess, err):
        self.deck_ok = bool(sess.extra.get('deck_ok', True))
        if err is not None:
            tb = traceback.extract_tb(err.__traceback__)
            inner = tb[-1].name if tb else '?'
            if not self.deck_ok and inner == '_verify_cards_consumption':
                return
            if not (type(err).__name__ == 'ValueError' and inner in ('__post_init__', 'clean_values')):
                self.report('no_partial_failure', f'init:{type(err).__name__}:{inner}',
                            f'constructor raised {type(err).__name__} in {inner}: {err}')
            return
        self._quiescent(sess.state, 'init')

    def after_log(self, state, operation):
        n = type(operation).__name__
        if n == 'NoOperation':
            return
        if n == 'HoleCardsShowingOrMucking' and state.street_index is None:
            return      # voluntary ("non-standard") show outside the showdown: not a phase step
        ph = PHASE_OF_OP[n]
        if ph not in PHASE_NEXT[self.last_phase]:
            self.report('order', f'order:{self.last_phase}->{ph}', f'{n} after phase {self.last_phase}')
        self.last_phase = ph

    def after_op(self, sess, line, err, valid):
        s = sess.state
        name = line.split(' ')[0]
        if err is not None and (not self.deck_ok or not self.known):
            return
        if err is not None and type(err).__name__ not in REFUSALS:
            tb = traceback.extract_tb(err.__traceback__)
            inner = tb[-1].name if tb else '?'
            self.report('no_partial_failure', f'op:{type(err).__name__}:{inner}' + orphan_tag(s),
                        f'{line!r} raised {type(err).__name__} in {inner}: {err}')
            return
        if err is not None and valid:
            tb = traceback.extract_tb(err.__traceback__)
            inner = tb[-1].name if tb else '?'
            self.report('no_partial_failure', f'legal:{name}:{type(err).__name__}:{inner}',
                        f'available operation {line!r} raised {type(err).__name__} in {inner}: {err}')
        self._quiescent(s, 'op:' + name)

    def at_end(self, sess):
        s = sess.state
        if s is None:
            return
        # bounded: a generous bound on the number of logged operations for one hand
        n = s.player_count
        streets = len(s.streets)
        bound = 40 * n * (streets + 1) * max(1, s.board_count if s.street_return_index is not None else 1) + 2000
        if len(s.operations) > bound:
            self.report('terminates', 'too_many_operations', f'{len(s.operations)} > {bound}')


class C08Contract(Monitor):
    """can_iff / can_total / refused_unchanged / explicit_index."""
    prop = 'C08'

    def before_op(self, sess, line):
        s = sess.state
        self.before = impl.digest(s)
        impl._SEED[0] = sess.extra['seed']
        with impl.warnings.catch_warnings():
            impl.warnings.simplefilter('error' if sess.warnerr else 'ignore')
            try:
                self.can = bool(impl.call_can(s, line))
                self.can_exc = None
            except Exception as e:  # noqa: BLE001
                self.can = None
                self.can_exc = e
        if impl.digest(s) != self.before:
            self.report('queries_pure', 'can_changed_state:' + line.split(' ')[0], line)

    def after_op(self, sess, line, err, valid):
        s = sess.state
        name = line.split(' ')[0]
        if not sess.extra.get('deck_ok', True) and err is not None:
            return          # deck too small for the configured deal: outside the quantifier
        crash = err is not None and type(err).__name__ not in REFUSALS
        if crash and len(s.operations) > sess.nlog_before:
            # the requested operation itself was performed; a later automated step failed:
            # that is C07's no_partial_failure, not a disagreement between query and operation
            return
        if self.can_exc is not None:
            tb = traceback.extract_tb(self.can_exc.__traceback__)
            inner = tb[-1].name if tb else '?'
            self.report('can_total', f'can_raises:{name}:{type(self.can_exc).__name__}:{inner}',
                        f'can_{line!r} raised {type(self.can_exc).__name__}')
        elif self.can != (err is None) and not (err is not None and len(s.operations) > sess.nlog_before):
            en = type(err).__name__ if err is not None else 'ok'
            self.report('can_iff', f'can={int(self.can)}:{name}:{en}' + orphan_tag(s),
                        f'{line!r}: can={self.can} but operation -> {en}')
        if err is not None:
            en = type(err).__name__
            if en in REFUSALS:
                after = impl.digest(s)
                if after != self.before and len(s.operations) > sess.nlog_before and en == 'UserWarning':
                    # a warning is a way of refusing: raised after the operation was carried out and recorded, it
                    # reports as refused what has happened (and its query had said yes)
                    self.report('refused_unchanged', f'warned_after_commit:{name}',
                                f'{line!r} raised UserWarning after it was recorded; can said {self.can}')
                elif after != self.before and len(s.operations) > sess.nlog_before:
                    pass    # performed, then an automated follow-up was refused: C07's clause
                elif after != self.before:
                    self.report('refused_unchanged', f'changed:{name}', f'{line!r} refused with {en} but state changed')
            elif self.can is False:
                self.report('refused_kind', f'kind:{name}:{en}', f'{line!r} refused with {en}')
        else:
            t = line.split(' ')
            idx = None
            if name in ('post_ante', 'post_blind', 'kill', 'pull') and t[1] != '-':
                idx = int(t[1])
            elif name in ('deal_hole', 'runout', 'show') and t[2] != '-':
                idx = int(t[2])
            if idx is not None:
                # the first operation logged by this call is the requested one
                op = s.operations[sess.nlog_before] if len(s.operations) > sess.nlog_before else None
                if op is None or getattr(op, 'player_index', None) != idx:
                    self.report('explicit_index', f'index:{name}',
                                f'{line!r} applied to player {getattr(op, "player_index", None)}')
            if name == 'runout' and t[1] != '-':
                op = s.operations[sess.nlog_before] if len(s.operations) > sess.nlog_before else None
                if op is not None and int(t[1]) < 1:
                    self.report('can_iff', 'runout_nonpositive_accepted', f'{line!r} accepted')


ALL = {'C01': C01Ledger, 'C06': C06Cards, 'C07': C07Phases, 'C08': C08Contract}


# ---------------------------------------------------------------------------------------------
import pyspec  # noqa: E402


class C02Award(Monitor):
    """Spec.award: when pushing starts take a snapshot (contributions, who is live, shown
    hands per board and hand type by the independent ranking); every ChipsPushing must be the
    award of its pot/board/hand type to the best eligible live hand(s); dead players win
    nothing; capped winnings; lone survivor takes all."""
    prop = 'C02'

    def __init__(self):
        super().__init__()
        self.snap = None
        self.won = None

    def _up_by_history(self, s: State, i):
        """the cards of player `i` that count at the showdown, from the operations alone: every card he holds that
        he tabled (named in, or covered by, one of his shows) counts; a card that was neither tabled nor dealt
        face up does not; a card dealt face up that he left out of a partial show may count or not (the engine
        turns it face down) - the engine's own facing flags are only consulted for that last kind"""
        from collections import Counter
        tabled, dealt_up = Counter(), Counter()
        for o in s.operations:
            n = type(o).__name__
            if getattr(o, 'player_index', None) != i:
                continue
            if n == 'HoleDealing':
                dealt_up.update(c for c, u in zip(o.cards, o.statuses) if u and c)
            elif n == 'HoleCardsShowingOrMucking' and o.hole_cards:
                for c, k in Counter(c for c in o.hole_cards if c).items():
                    tabled[c] = max(tabled[c], k)
        held = Counter(c for c in s.hole_cards[i] if c)
        must = tabled & held
        may = (tabled | dealt_up) & held
        eng = Counter(s.get_up_cards(i))
        ok = not (must - eng) and not (eng - may)
        if not ok and not getattr(self, '_up_reported', False):
            self._up_reported = True
            self.report('shown_cards', 'shown_cards', f'player {i} holds {list(s.hole_cards[i])}; tabled {sorted(map(repr, must.elements()))}, '
                        f'dealt face up {sorted(map(repr, (dealt_up & held).elements()))}; the engine counts '
                        f'{list(s.get_up_cards(i))} at the showdown')
        src = eng if ok else may
        up = []
        for c in s.hole_cards[i]:
            if c and src[c] > 0:
                src[c] -= 1
                up.append(c)
        return up

    def _keys(self, s: State, live):
        """the strength of every live player's hand per board and hand type, by the rules (pyspec)"""
        boards = [list(s.get_board_cards(b)) for b in range(s.board_count)]
        types = [t.__name__ for t in s.hand_types]
        keys = {}
        for b, bc in enumerate(boards):
            for k, tn in enumerate(types):
                for i in live:
                    up = self._up_by_history(s, i)
                    try:
                        both = [c for c in list(up) + list(bc) if c]
                        if tn == 'GreekHoldemHand' and len(up) != 2:
                            keys[i, b, k] = '?'
                        elif len(set(both)) != len(both):
                            # the same card twice among a player's cards (deck too small for the
                            # boards asked for, or an explicitly named duplicate): the rules of
                            # poker rank hands of distinct cards only
                            keys[i, b, k] = '?'
                        else:
                            keys[i, b, k] = pyspec.best_key(tn, up, bc)
                    except Exception:  # noqa: BLE001
                        keys[i, b, k] = '?'
        return keys

    def _snapshot(self, s: State):
        n = s.player_count
        live = [i for i in range(n) if s.statuses[i]]
        # bets were already increased by the first push when after_log runs: reconstruct
        contrib = [-s.payoffs[i] for i in range(n)]
        ante = [s.get_effective_ante(i) for i in range(n)]
        untrim = not s.ante_trimming_status
        level = [contrib[i] - (ante[i] if untrim else 0) for i in range(n)]
        boards = [list(s.get_board_cards(b)) for b in range(s.board_count)]
        types = [t.__name__ for t in s.hand_types]
        keys = self._keys(s, live)
        self.snap = dict(n=n, live=live, contrib=contrib, level=level, ante=ante, untrim=untrim,
                         boards=len(boards), types=types, keys=keys,
                         pots=[(p.raked_amount, p.unraked_amount + 0, tuple(p.player_indices)) for p in s._pots])
        self.won = [0] * n
        self.pushed = {}
        # the expected pots by contribution level (before rake)
        lv = sorted(set(level))
        exp = []
        prev = 0
        carry = sum(ante) if untrim else 0
        for v in lv:
            amount = carry + sum(v - prev for c in level if c >= v)
            carry = 0
            players = tuple(i for i in live if level[i] >= v)
            while exp and exp[-1][1] == players:
                amount += exp.pop()[0]
            if amount:
                exp.append((amount, players))
            prev = v
        self.snap['expected_pots'] = exp

    def after_log(self, state, operation):
        n = type(operation).__name__
        if n == 'HoleCardsShowingOrMucking' and self.snap is not None:
            # a voluntary show between two pushes may table other cards than the ones held: the pots
            # still to be pushed go to the best hands as they are now
            self.snap['keys'] = self._keys(state, self.snap['live'])
        if n != 'ChipsPushing':
            return
        first = self.snap is None
        if first:
            # state._pots amounts have already been reduced by this first push: add it back
            self._snapshot(state)
            ps = self.snap['pots']
            r, u, pl = ps[operation.pot_index]
            ps[operation.pot_index] = (r, u + sum(operation.amounts), pl)
            sn = self.snap
            got = [(r + u, pl) for r, u, pl in ps]
            if got != sn['expected_pots'] and len(sn['live']) > 1:
                self.report('pots_by_level', 'pots', f'pots {got} but contribution levels {sn["level"]} of live '
                            f'{sn["live"]} give {sn["expected_pots"]}')
        sn = self.snap
        amts = list(operation.amounts)
        for i, a in enumerate(amts):
            self.won[i] += a
            if a and i not in sn['live']:
                self.report('dead_win_nothing', 'dead_winner', f'player {i} is not in the hand but is pushed {a}')
            if a < 0:
                self.report('dead_win_nothing', 'negative_push', f'{amts}')
        pi = operation.pot_index
        if pi >= len(sn['pots']):
            return
        r, u, players = sn['pots'][pi]
        if len(sn['live']) == 1:
            w = sn['live'][0]
            if any(a and i != w for i, a in enumerate(amts)):
                self.report('lone', 'lone_survivor', f'{amts} while only player {w} is left')
            return
        b, k = operation.board_index, operation.hand_type_index
        if b is None or k is None:
            return
        ks = {i: sn['keys'].get((i, b, k)) for i in players}
        if any(v == '?' for v in ks.values()):
            self.pushed.setdefault((pi, b), []).append((k, sum(amts)))
            return
        have = {i: v for i, v in ks.items() if v is not None}
        if not have:
            self.report('best_hand', f'no_holder:{sn["types"][k]}', f'sub-pot for hand type {k} with no eligible holder: {amts}')
            return
        best = max(have.values())
        winners = [i for i in players if have.get(i) == best]
        total = sum(amts)
        q, rem = divmod(total, len(winners)) if isinstance(total, int) else (None, None)
        got_winners = [i for i, a in enumerate(amts) if a]
        if total and set(got_winners) - set(winners):
            self.report('best_hand', f'wrong_winner:{sn["types"][k]}',
                        f'pot {pi} board {b} type {sn["types"][k]}: pushed {amts}, best eligible hand(s) held by {winners} '
                        f'(eligible {list(players)})')
        elif total and q is not None and state.divmod is impl.putil.divmod:
            exp = [0] * sn['n']
            for j, w in enumerate(winners):
                exp[w] = q + (rem if j == 0 else 0)
            if exp != amts:
                self.report('split', f'split:{sn["types"][k]}', f'pushed {amts}, expected {exp}')
        self.pushed.setdefault((pi, b), []).append((k, total))

    def at_end(self, sess):
        s = sess.state
        sn = self.snap
        if s is None or sn is None or s.status:
            return
        # every pot fully awarded, in equal parts per board (first board takes the odd chips)
        if len(sn['live']) > 1:
            for pi, (r, u, pl) in enumerate(sn['pots']):
                per_board = [sum(t for (k, t) in self.pushed.get((pi, b), [])) for b in range(sn['boards'])]
                q, rem = s.divmod(u, sn['boards'])
                exp = [q + (rem if b == 0 else 0) for b in range(sn['boards'])]
                if per_board != exp:
                    self.report('boards_even', 'board_split', f'pot {pi} unraked {u}: per board {per_board}, expected {exp}')
        # nobody wins from an opponent more than he himself put in (no dead-money antes, no rake)
        if not sn['untrim'] or not any(sn['ante']):
            for i in sn['live']:
                cap = sum(min(sn['contrib'][j], sn['contrib'][i]) for j in range(sn['n']))
                if self.won[i] > cap:
                    self.report('capped', 'capped', f'player {i} put in {sn["contrib"][i]} and won {self.won[i]} > {cap}')


class C03Betting(Monitor):
    """Spec.BettingRules: actor, admissible actions and amounts as a function of the *history*
    of the betting round (no use of the engine's bookkeeping fields)."""
    prop = 'C03'

    def __init__(self):
        super().__init__()
        self.round = None

    # -- where the rules' parameters come from (C11 overrides these with the documented table) ---
    def structure_of(self, sess, s):
        return {impl.BettingStructure.FIXED_LIMIT: 'FL', impl.BettingStructure.POT_LIMIT: 'PL',
                impl.BettingStructure.NO_LIMIT: 'NL'}[s.betting_structure]

    def cap_of(self, sess, s, st):
        return st.max_completion_betting_or_raising_count

    def minbet_of(self, sess, s, st):
        return st.min_completion_betting_or_raising_amount

    # -- history bookkeeping ------------------------------------------------------------
    def _begin_round(self, s: State):
        n = s.player_count
        st = s.street
        self.round = dict(
            street=s.street_index, raises=[], acted=set(), count=0, level={},
            bring_in_pending=(s.street_index == 0 and s.bring_in > 0),
            completing=(s.street_index == 0 and s.bring_in > 0),
            queue=None, opener=s.opener_index)

    def _expected_queue_after_raise(self, s, p):
        n = s.player_count
        return [i for i in [(p + j) % n for j in range(1, n)] if s.statuses[i] and s.stacks[i] > 0]

    def after_log(self, state, operation):
        n = type(operation).__name__
        s = state
        if n in ('HoleDealing', 'BoardDealing', 'StandingPatOrDiscarding', 'CardBurning', 'BetCollection',
                 'BlindOrStraddlePosting', 'AntePosting'):
            self.round = None
            return
        if n not in ('Folding', 'CheckingOrCalling', 'BringInPosting', 'CompletionBettingOrRaisingTo'):
            return
        r = self.round
        if r is None or r['street'] != s.street_index and s.street_index is not None:
            return
        p = operation.player_index
        r['level'][p] = max(s.bets)     # the bet level this player has now responded to
        if r['queue'] is not None:
            if not r['queue'] or r['queue'][0] != p:
                self.report('actor', 'actor_order', f'{n} by player {p}, but the rules give the turn to '
                            f'{r["queue"][:1]} (pending {r["queue"]})')
        if n == 'CompletionBettingOrRaisingTo':
            inc = operation.amount - r['max_bet_before']
            prev_max = max((x[0] for x in r['raises']), default=0)
            if inc >= prev_max:
                r['acted'] = {p}
            else:
                r['acted'].add(p)
            r['raises'].append((inc, s.stacks[p] == 0))
            r['count'] += 1
            r['bring_in_pending'] = False
            r['completing'] = False
            r['queue'] = self._expected_queue_after_raise(s, p)
        else:
            r['acted'].add(p)
            if n == 'BringInPosting':
                r['bring_in_pending'] = False
            if r['queue'] is not None and r['queue'] and r['queue'][0] == p:
                r['queue'] = r['queue'][1:]
            elif r['queue'] is not None and p in r['queue']:
                r['queue'].remove(p)

    # -- checks at every quiescent betting decision ----------------------------------------
    def _check(self, sess, where):
        s = sess.state
        if s is None or not s.status:
            return
        if not s.actor_indices:
            return
        if self.round is None or self.round['street'] != s.street_index:
            self._begin_round(s)
            # first decision of the round: who may act at all, clockwise from the opener
            n = s.player_count
            op = s.opener_index
            live = [i for i in range(n) if s.statuses[i]]
            r = self.round

            def eff(i):
                es = sorted(s.bets[j] + s.stacks[j] for j in live)
                return min(s.stacks[i], max(0, es[-2] - s.bets[i]))
            r['queue'] = [i for i in [(op + j) % n for j in range(n)]
                          if s.statuses[i] and s.stacks[i] > 0 and eff(i) > 0]
        r = self.round
        n = s.player_count
        live = [i for i in range(n) if s.statuses[i]]
        q = r['queue']
        actor = s.actor_index
        if q is not None and (not q or q[0] != actor):
            self.report('actor', f'actor@{where}', f'actor {actor}, rules: pending {q}')
            return
        p = actor
        max_bet = max(s.bets)
        r['max_bet_before'] = max_bet
        st = s.street
        # fold / call / bring-in
        exp_call = not r['bring_in_pending']
        exp_fold = (not r['bring_in_pending']) and (s.bets[p] < max_bet or (
            s.mode != impl.Mode.TOURNAMENT and not sess.warnerr))
        exp_bring = r['bring_in_pending']
        with impl.warnings.catch_warnings():
            impl.warnings.simplefilter('error' if sess.warnerr else 'ignore')
            got = (s.can_fold(), s.can_check_or_call(), s.can_post_bring_in())
            camt = s.checking_or_calling_amount
        if got != (exp_fold, exp_call, exp_bring):
            self.report('actions', f'actions@{where}', f'can fold/call/bring-in {got}, rules {(exp_fold, exp_call, exp_bring)} '
                        f'(bets {s.bets}, player {p}, bring-in pending {r["bring_in_pending"]})')
        if exp_call and camt != min(s.stacks[p], max_bet - s.bets[p]):
            self.report('call_amount', 'call_amount', f'{camt} vs min({s.stacks[p]}, {max_bet - s.bets[p]})')
        # raise admissibility
        incs = [x[0] for x in r['raises']]
        max_inc = max(incs, default=0)
        trailing = []
        for inc, allin in reversed(r['raises']):
            if not allin:
                break
            trailing.append(inc)
        cap = self.cap_of(sess, s, st)
        short_rule = bool(trailing) and sum(trailing) < max_inc and p in r['acted']
        covered = s.stacks[p] <= max_bet - s.bets[p]
        nobody = not any(i != p and s.stacks[i] + s.bets[i] > max_bet for i in live)
        exp_raise = not (cap is not None and r['count'] >= cap) and not short_rule and not covered and not nobody
        es = sorted(s.bets[j] + s.stacks[j] for j in live)
        effp = min(s.stacks[p], max(0, es[-2] - s.bets[p]))
        street_min = self.minbet_of(sess, s, st)
        base = max(max_inc, street_min) + (0 if r['completing'] else max_bet)
        exp_min = min(effp + s.bets[p], base)
        total_pot = s.total_pot_amount
        structure = self.structure_of(sess, s)
        if structure == 'FL':
            exp_max = exp_min
        elif structure == 'PL':
            exp_max = min(s.stacks[p] + s.bets[p], max(exp_min, 2 * max_bet - s.bets[p] + total_pot))
        else:
            exp_max = s.stacks[p] + s.bets[p]
        got_raise = s.can_complete_bet_or_raise_to()
        # the same rule read per player (TDA: a short all-in does not re-open the betting for a player who has acted
        # and does not face at least a full raise when the action returns to him): what counts is what was raised
        # since HIS last action, not the run of all-in raises since the last raise by a player with chips
        facing = max_bet - r['level'][p] if p in r['level'] else None
        exact_short = facing is not None and max_inc > 0 and facing < max_inc
        exp_exact = not (cap is not None and r['count'] >= cap) and not exact_short and not covered and not nobody
        if got_raise == exp_raise and got_raise != exp_exact:
            self.report('raise_admissible', f'raise={int(got_raise)}:since_own_action',
                        f'can raise {got_raise}; player {p} last acted at bet level {r["level"].get(p)}, the largest bet is {max_bet} '
                        f'(he faces {facing}), a full raise is {max_inc}; raises of the round {r["raises"]}, bets {s.bets} stacks {s.stacks}')
        if got_raise != exp_raise:
            self.report('raise_admissible', f'raise={int(got_raise)}',
                        f'can raise {got_raise}, rules {exp_raise}: cap {cap} count {r["count"]} short-all-in rule {short_rule} '
                        f'(trailing all-in raises {trailing}, largest raise {max_inc}, acted {sorted(r["acted"])}, player {p}) '
                        f'covered {covered} nobody-can-call-more {nobody}; bets {s.bets} stacks {s.stacks}')
            return
        # side condition (g) of the Lean history theorems (C03Round.CompletionBounded), on the implementation:
        # while the bring-in may still be completed the first street is on and nobody has more than it in front
        if r['completing'] and (s.street_index != 0 or max_bet > s.bring_in):
            self.report('completion_bound', 'completion_bound',
                        f'the bring-in {s.bring_in} can still be completed on street {s.street_index} with bets {s.bets}')
        if exp_raise:
            mn = s.min_completion_betting_or_raising_to_amount
            mx = s.max_completion_betting_or_raising_to_amount
            if mn is not None and mn <= max_bet:
                self.report('amounts', 'raise_not_above',
                            f'the smallest accepted bet/raise is to {mn}, not above the largest bet {max_bet} '
                            f'(bets {s.bets} stacks {s.stacks}, completing {r["completing"]})')
            if (mn, mx) != (exp_min, exp_max):
                self.report('amounts', f'amounts:{structure}',
                            f'min/max raise-to {mn}/{mx}, rules {exp_min}/{exp_max} (bets {s.bets} stacks {s.stacks} '
                            f'largest raise {max_inc} street min {street_min}, structure {structure}, cap {cap})')
            else:
                for x in (exp_min - 1, exp_min, exp_max, exp_max + 1, (exp_min + exp_max) // 2):
                    want = exp_min <= x <= exp_max
                    if s.can_complete_bet_or_raise_to(x) != want:
                        self.report('amounts', 'range', f'raise to {x}: accepted {not want}, bounds {exp_min}..{exp_max}')

    def after_init(self, sess, err):
        if err is None:
            self._check(sess, 'init')

    def after_op(self, sess, line, err, valid):
        if err is None or type(err).__name__ in REFUSALS:
            self._check(sess, 'op')


ALL['C02'] = C02Award
ALL['C03'] = C03Betting
