"""debug helper: replay a stored violation file (.work/v-*.json) and show the end of the trace"""
import sys, json
sys.path.insert(0, __file__.rsplit('/', 1)[0])
import impl, monitors, paired, dealing, opener, runout
d = json.load(open(sys.argv[1]))
tail = int(sys.argv[2]) if len(sys.argv) > 2 else 12
print(d['viol'])
mons = [m() for m in monitors.ALL.values()]
sess = impl.replay_script(d['script'], mons, d.get('valid'))
cfg = [l for l in d['script'] if not l.startswith(('op ', 'can ', 'init'))]
print('\n'.join(cfg))
ops = [l for l in d['script'] if l.startswith(('op ', 'init'))]
print(' | '.join(ops[-tail:]))
s = sess.state
if s is not None:
    print('status', s.status, 'statuses', s.statuses, 'stacks', s.stacks, 'bets', s.bets, 'street', s.street_index)
    print('ops tail:', [impl.p_operation(o) for o in s.operations[-tail:]])
    print('hole', s.hole_cards, 'board', s.board_cards)
    print(impl.queries(s))
seen=set()
for m in mons:
    for v in m.violations:
        k=(v['property'],v['clause'],v['signature'])
        if k not in seen:
            seen.add(k); print(k, v['detail'][:200])
