"""History-based monitor for C13 — the right player opens each betting round.

Executable transcription of lean/PK/Properties/C13.lean (`C13_position_*`, `C13_low_card`,
`C13_high_card`, `C13_low_hand`, `C13_high_hand`, `C13_first_actor`), evaluated on the
implementation's own traces.  It never reads `opener_index` or `actor_indices`: the designated
opener is recomputed from the configuration, the blinds actually posted, the exposed cards and the
independent ranking of harness/pyspec.py, and compared with the seat that really acts first
(`actor_index` when the round starts, and the player of the first betting operation logged)."""
from __future__ import annotations

import impl
import pyspec
from monitors import Monitor, REFUSALS

BET_OPS = ('Folding', 'CheckingOrCalling', 'BringInPosting', 'CompletionBettingOrRaisingTo')
SUITS = 'cdhs'


def card_rs(c):
    return str(c.rank.value), str(c.suit.value)


def up_cards(snap, i):
    return [c for c, st in zip(snap['hole'][i], snap['st'][i]) if st]


def exposed_key(cards, ace_high):
    """Rank of 1-4 exposed cards: pairs / trips / quads, then the ranks; no straights or flushes.
    None when a card is unknown."""
    rs = [card_rs(c) for c in cards]
    if not rs or any(r == '?' or s == '?' for r, s in rs):
        return None
    return pyspec.exposed_key(rs, ace_high)


def able(snap, i):
    """still able to act: in the hand, has chips, and somebody else in the hand can still put in
    more than he has in front of him"""
    if not snap['statuses'][i] or snap['stacks'][i] <= 0:
        return False
    others = [snap['bets'][j] + snap['stacks'][j] for j in range(snap['n']) if j != i and snap['statuses'][j]]
    return bool(others) and max(others) > snap['bets'][i]


class C13Opener(Monitor):
    prop = 'C13'

    def __init__(self):
        super().__init__()
        self.snap = None
        self.round_open = True        # no betting operation seen yet in this round
        self.posted = {}
        self.ok = True
        self.checked_round = None

    def _snapshot(self, s):
        self.snap = dict(n=s.player_count, statuses=list(s.statuses), stacks=list(s.stacks), bets=list(s.bets),
                         hole=[list(h) for h in s.hole_cards], st=[[bool(x) for x in h] for h in s.hole_card_statuses],
                         street_index=s.street_index, street=s.street)

    # -- the rule ---------------------------------------------------------------------------
    def designated(self, s, snap):
        """(seat designated to open, description) or (None, reason) when the statement does not decide"""
        st = snap['street']
        n = snap['n']
        op = st.opening
        O = impl.Opening
        if op == O.POSITION:
            if snap['street_index'] == 0:
                # genuine blinds / straddles: positive entries of the layout (heads-up the two entries
                # are posted by the opposite seats); posts by late-seated players (negative) do not count
                entry = (lambda i: s.blinds_or_straddles[1 - i]) if n == 2 else (lambda i: s.blinds_or_straddles[i])
                cand = [(snap['bets'][i], i) for i in range(n)
                        if entry(i) > 0 and self.posted.get(i, 0) > 0 and snap['bets'][i] > 0]
                if cand:
                    top = max(a for a, _ in cand)
                    seats = [i for a, i in cand if a == top]
                    if n == 2 and len(seats) == 2:
                        return None, 'heads-up with equal blinds: no small blind to single out'
                    return (max(seats) + 1) % n, f'seat after the last blind/straddle (seat {max(seats)} posted {top})'
                if n == 2 and any(b != 0 for b in s.blinds_or_straddles):
                    return None, 'heads-up, nothing posted'
                return 0, 'no blind posted: first seat after the button'
            return 0, 'later round: first seat after the button'
        live = [i for i in range(n) if snap['statuses'][i]]
        if op in (O.LOW_CARD, O.HIGH_CARD):
            ace_high = op == O.LOW_CARD          # lowest card opens with the ace high; highest card (razz) with the ace low
            best = None
            for i in live:
                for c in up_cards(snap, i):
                    r, su = card_rs(c)
                    if r == '?' or su == '?':
                        return None, 'unknown up-card'
                    k = (pyspec.val(r, ace_high), SUITS.index(su))
                    if best is None or (k < best[0] if op == O.LOW_CARD else k > best[0]):
                        best = (k, i)
            if best is None:
                return None, 'no up-cards'
            return best[1], f'{"lowest" if op == O.LOW_CARD else "highest"} up-card {best[0]}'
        ace_high = op == O.HIGH_HAND
        keys = {}
        for i in live:
            ups = up_cards(snap, i)
            if not ups:
                continue
            if len(ups) > 4:
                return None, 'more than four exposed cards: outside the stud opening tables'
            k = exposed_key(ups, ace_high)
            if k is None:
                return None, 'unknown up-card'
            keys[i] = k
        if not keys:
            return None, 'no up-cards'
        if len({len(up_cards(snap, i)) for i in keys}) != 1:
            return None, 'players show different numbers of cards'
        target = max(keys.values()) if op == O.HIGH_HAND else min(keys.values())
        seat = min(i for i, k in keys.items() if k == target)
        return seat, f'{"best" if op == O.HIGH_HAND else "lowest"} exposed hand {target}, earliest seat'

    def expected_first(self, s, snap):
        d, why = self.designated(s, snap)
        if d is None:
            return None, why
        n = snap['n']
        for j in range(n):
            i = (d + j) % n
            if able(snap, i):
                return i, why + (f'; seat {d} cannot act, turn passes clockwise' if j else '')
        return None, 'nobody can act'

    # -- hooks ------------------------------------------------------------------------------
    def after_init(self, sess, err):
        if err is not None or sess.state is None:
            self.ok = False
            return
        self._snapshot(sess.state)
        self._at_quiescence(sess)

    def after_log(self, state, operation):
        if not self.ok:
            return
        n = type(operation).__name__
        s = state
        if n == 'BlindOrStraddlePosting':
            self.posted[operation.player_index] = operation.amount
        if n in BET_OPS:
            ups = [c for i in range(s.player_count) for c in s.get_up_cards(i) if c]
            repeated = len(ups) != len(set(ups))      # a card face up twice: outside the rules for exposed hands
            if self.round_open and self.snap is not None and self.snap['street'] is not None and not repeated:
                exp, why = self.expected_first(s, self.snap)
                if exp is not None and exp != operation.player_index:
                    self.report('first_actor', f'first:{self.snap["street"].opening.name}:street{self.snap["street_index"]}',
                                f'street {self.snap["street_index"]}: first betting action by seat {operation.player_index}, '
                                f'rules give seat {exp} ({why}); bets {self.snap["bets"]} stacks {self.snap["stacks"]} '
                                f'blinds {tuple(s.blinds_or_straddles)}')
                if self.snap['street_index'] == 0 and s.bring_in > 0 and n != 'BringInPosting' \
                        and n != 'CompletionBettingOrRaisingTo':
                    self.report('bring_in', 'bring_in_skipped', f'first action of a bring-in round is {n}')
            self.round_open = False
        else:
            if n != 'NoOperation':
                self.round_open = True
        self._snapshot(s)

    def _at_quiescence(self, sess):
        s = sess.state
        if s is None or not s.status or not self.ok or not self.round_open or self.snap is None:
            return
        try:
            actor = s.actor_index
        except Exception:  # noqa: BLE001
            return
        if actor is None or s.street is None:
            return
        ups = [c for i in range(s.player_count) if s.statuses[i] for c in s.get_up_cards(i) if c]
        if len(ups) != len(set(ups)):
            # the same card face up twice (dealt again against the dealability warning): the rules for exposed
            # hands rank distinct cards only
            return
        key = (s.street_index, len(s.operations))
        if self.checked_round == key:
            return
        self.checked_round = key
        self._snapshot(s)
        exp, why = self.expected_first(s, self.snap)
        if exp is not None and exp != actor:
            self.report('first_actor', f'actor:{s.street.opening.name}:street{s.street_index}',
                        f'street {s.street_index}: the turn is given to seat {actor}, rules give seat {exp} ({why}); '
                        f'bets {list(s.bets)} stacks {list(s.stacks)} blinds {tuple(s.blinds_or_straddles)}')

    def after_op(self, sess, line, err, valid):
        if err is not None and (type(err).__name__ not in REFUSALS or len(sess.state.operations) > sess.nlog_before):
            self.ok = False
            return
        self._at_quiescence(sess)


import monitors as _m  # noqa: E402

_m.ALL['C13'] = C13Opener


class C11Opener(C13Opener):
    """the same clauses reported for C11: the opening rule of a predefined variant is part of what its name
    and the documentation state (low card / high card by suit for the stud games, position for the others)"""
    prop = 'C11'


_m.ALL['C11open'] = C11Opener
