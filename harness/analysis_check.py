"""C18 — range notation, equities and ICM.

* ranges: `parse_range` compared with the Lean model (`pkdriver range`) on every basic / plus form of
  every rank pair, on interval forms (all 13^4 x 3 in the thorough tier), on composite texts with mixed
  separators and on malformed tokens; and the property itself evaluated on the implementation with
  set arithmetic (counts, XY = XYs + XYo disjoint, + and - forms = union of what they abbreviate,
  separators interchangeable, elements are two distinct real cards).
* equities: fully specified deals of several hand-type tuples; `calculate_equities` must be
  non-negative, sum to one, not depend on `sample_count`, agree with the Lean model (exact rationals)
  and with what the ENGINE pays when the same deal is played all-in (pot split by the real State).
* ICM: `calculate_icm` against the exact rational model; non-negative, sums to the prize pool, ordered
  like the chips for non-increasing payouts.
Floats are compared with a relative tolerance of 1e-9: binary rounding is not modelled.
"""
from __future__ import annotations

import itertools
import os
import random
import subprocess
import warnings
from fractions import Fraction

import impl
from impl import Card

DRIVER = os.path.join(os.path.dirname(os.path.dirname(os.path.abspath(__file__))), 'lean', '.lake', 'build', 'bin', 'pkdriver')
TOL = 1e-9


def run_driver(lines):
    p = subprocess.run([DRIVER], input='\n'.join(lines) + '\n', capture_output=True, text=True, timeout=900)
    return p.stdout.split('\n')[:-1]


def hexs(s: str) -> str:
    return '.'.join(format(ord(c), 'x') for c in s) or '.'


def v(clause, sig, detail, inp):
    return dict(property='C18', clause=clause, signature=sig, detail=detail, input=inp)


def code(c):
    from pokerkit import Rank, Suit
    return list(Rank).index(c.rank) * 5 + list(Suit).index(c.suit)


def canon(rng_):
    """python set of frozensets -> the model's canonical text"""
    sets = [sorted(fs, key=code) for fs in rng_]
    sets.sort(key=lambda l: [code(c) for c in l])
    return 'G ' + ' '.join(''.join(repr(c) for c in l) for l in sets)


ORDERS = {'std': 'STANDARD', 'short': 'SHORT_DECK_HOLDEM', 'regular': 'REGULAR', 'eight': 'EIGHT_OR_BETTER_LOW'}


def py_range(text, order):
    from pokerkit import RankOrder
    from pokerkit.analysis import parse_range
    try:
        return canon(parse_range(text, rank_order=getattr(RankOrder, ORDERS[order]))), None
    except ValueError:
        return 'G !ValueError', None
    except Exception as ex:  # noqa: BLE001
        return 'G !' + type(ex).__name__, ex


def rank_chars(order):
    from pokerkit import RankOrder
    return [r.value for r in getattr(RankOrder, ORDERS[order])]


def check_ranges(seed, count, thorough=False):
    from pokerkit import RankOrder
    from pokerkit.analysis import parse_range
    rng = random.Random(seed)
    viols, diffs, cases = [], [], []
    for order in ORDERS:
        rc = rank_chars(order)
        ro = getattr(RankOrder, ORDERS[order])

        def pr(t):
            return parse_range(t, rank_order=ro)
        for a, b in itertools.product(rc, repeat=2):
            for sfx in ('', 's', 'o'):
                cases.append((order, a + b + sfx))
                cases.append((order, a + b + sfx + '+'))
            # the property on the implementation
            xy, xys, xyo = pr(a + b), pr(a + b + 's'), pr(a + b + 'o')
            want = (6, 0, 6) if a == b else (16, 4, 12)
            if (len(xy), len(xys), len(xyo)) != want:
                viols.append(v('counts', f'counts:{order}', f'{a}{b}: |XY|,|XYs|,|XYo| = {(len(xy), len(xys), len(xyo))}, expected {want}', ['range', order, a + b]))
            if xy != xys | xyo or (xys & xyo):
                viols.append(v('disjoint_union', f'union:{order}', f'{a}{b} is not the disjoint union of {a}{b}s and {a}{b}o', ['range', order, a + b]))
            for e in xy | xys | xyo:
                cs = list(e)
                if len(cs) != 2 or not all(cs) or {c.rank.value for c in cs} != {a, b}:
                    viols.append(v('elements', f'elements:{order}', f'{a}{b}: element {set(e)}', ['range', order, a + b]))
            ia, ib = rc.index(a), rc.index(b)
            for sfx in ('', 's', 'o'):
                got = pr(a + b + sfx + '+')
                if a != b:
                    hi, lo = max(ia, ib), min(ia, ib)
                    want_set = set().union(*[pr(rc[hi] + rc[k] + sfx) for k in range(lo, hi)]) if hi > lo else set()
                else:
                    want_set = set().union(*[pr(rc[k] + rc[k] + sfx) for k in range(ia, len(rc))])
                if got != want_set:
                    viols.append(v('plus', f'plus:{order}', f"'{a}{b}{sfx}+' has {len(got)} combinations, the hands it abbreviates {len(want_set)}",
                                   ['range', order, a + b + sfx + '+']))
    # interval forms
    rc = rank_chars('std')
    ro = RankOrder.STANDARD
    quads = list(itertools.product(range(13), repeat=4)) if thorough else \
        [tuple(rng.randrange(13) for _ in range(4)) for _ in range(count)] + \
        [(a, b, a + d, b + d) for a in range(13) for b in range(13) for d in range(-12, 13)
         if 0 <= a + d < 13 and 0 <= b + d < 13 and rng.random() < 0.15]
    for i0, i1, i2, i3 in quads:
        sfx = rng.choice(['', 's', 'o'])
        t = rc[i0] + rc[i1] + sfx + '-' + rc[i2] + rc[i3] + sfx
        cases.append(('std', t))
        try:
            got = parse_range(t, rank_order=ro)
        except ValueError:
            got = None
        if i1 - i0 != i3 - i2:
            want_set = None
        else:
            a, b, steps = (i0, i1, i2 - i0) if i0 <= i2 else (i2, i3, i0 - i2)
            want_set = set().union(*[parse_range(rc[a + k] + rc[b + k] + sfx, rank_order=ro) for k in range(steps + 1)])
        if got != want_set:
            viols.append(v('interval', 'interval', f"'{t}': {None if got is None else len(got)} combinations, the hands between the ends "
                           f'{None if want_set is None else len(want_set)}', ['range', 'std', t]))
    # composite texts and separators
    toks = ['AKs', 'JJ+', 'T9s', 'QQ', '72o', 'ATs+', '76s-54s', 'KQ', 'AsKs', '22-55', 'T8o+', 'AK', '5h5d', 'QJo-87o']
    for _ in range(count):
        k = rng.randint(0, 5)
        ts = [rng.choice(toks) for _ in range(k)]
        seps = [rng.choice([' ', ',', ';', '  ', ', ', ' ; ', '\t']) for _ in range(k + 1)]
        t1 = ''.join(s_ + t for s_, t in zip(seps, ts + ['']))
        t2 = ' '.join(ts)
        cases.append(('std', t1))
        a, b = py_range(t1, 'std')[0], py_range(t2, 'std')[0]
        if a != b:
            viols.append(v('separators', 'separators', f'{t1!r} and {t2!r} denote different ranges', ['range', 'std', t1]))
    alphabet = 'AKQJT98765432sSo+-? ,;x'
    for _ in range(count):
        cases.append((rng.choice(list(ORDERS)), ''.join(rng.choice(alphabet) for _ in range(rng.randint(0, 8)))))
    lines = [f'range {o} {hexs(t)}' for o, t in cases]
    out = run_driver(lines)
    for (o, t), a in zip(cases, out):
        e, ex = py_range(t, o)
        if e != a:
            diffs.append(dict(input=f'{o}:{t}', expected=e[:200], actual=a[:200]))
    return dict(count=len(cases), diffs=diffs, viols=viols)


# ---------------------------------------------------------------- equities
GAMES = [
    # name, hand types, hole count, board count, deck
    ('holdem', ['StandardHighHand'], 2, 5, 'STANDARD'),
    ('omaha', ['OmahaHoldemHand'], 4, 5, 'STANDARD'),
    ('omaha8', ['OmahaHoldemHand', 'OmahaEightOrBetterLowHand'], 4, 5, 'STANDARD'),
    ('stud8', ['StandardHighHand', 'EightOrBetterLowHand'], 7, 0, 'STANDARD'),
    ('razz', ['RegularLowHand'], 7, 0, 'REGULAR'),
    ('deuce', ['StandardLowHand'], 5, 0, 'STANDARD'),
    ('badugi', ['BadugiHand'], 4, 0, 'REGULAR'),
    ('shortdeck', ['ShortDeckHoldemHand'], 2, 5, 'SHORT_DECK_HOLDEM'),
]
STACK = 5040


def gen_deal(rng, game):
    from pokerkit import Deck
    name, hts, h, b, deck = game
    cards = list(getattr(Deck, deck))
    n = rng.randint(2, 4 if h <= 4 else 3)
    mode = rng.choice(['random', 'random', 'twins', 'lowish'])
    rng.shuffle(cards)
    if mode == 'lowish':
        cards.sort(key=lambda c: (c.rank.value not in 'A2345678', rng.random()))
        head = cards[:n * h + b + 4]
        rng.shuffle(head)
        cards = head + cards[n * h + b + 4:]
    holes = [cards[i * h:(i + 1) * h] for i in range(n)]
    used = n * h
    if mode == 'twins' and n >= 2:
        # the second player holds the same ranks in other suits where possible: ties in one half
        rest = cards[used:]
        twin = []
        for c in holes[0]:
            alt = next((x for x in rest if x.rank == c.rank and x not in twin), None)
            if alt is None:
                twin = None
                break
            twin.append(alt)
        if twin:
            holes[1] = twin
            cards = [c for c in cards if c not in twin]
            flat = [c for hcs in holes for c in hcs]
            cards = flat + [c for c in cards if c not in flat]
            holes = [cards[i * h:(i + 1) * h] if i != 1 else twin for i in range(n)]
            flat = [c for hcs in holes for c in hcs]
            if len(set(flat)) != len(flat):
                return None
            cards = flat + [c for c in cards if c not in flat]
    flat = [c for hcs in holes for c in hcs]
    board = [c for c in cards if c not in flat][:b]
    return n, holes, board


def engine_shares(game, n, holes, board):
    """play the deal all-in on the real engine; share of the pot each player ends up with"""
    from pokerkit import (Automation, BettingStructure, Deck, Mode, Opening, State, Street)
    name, hts, h, b, deck = game
    types = tuple(impl.HAND_TYPES[t] for t in hts)
    streets = [Street(False, (False,) * h, 0, False, Opening.POSITION, 2, None)]
    if b:
        streets.append(Street(False, (), b, False, Opening.POSITION, 2, None))
    autos = (Automation.ANTE_POSTING, Automation.BET_COLLECTION, Automation.BLIND_OR_STRADDLE_POSTING,
             Automation.HOLE_CARDS_SHOWING_OR_MUCKING, Automation.HAND_KILLING, Automation.CHIPS_PUSHING,
             Automation.CHIPS_PULLING, Automation.RUNOUT_COUNT_SELECTION)
    with warnings.catch_warnings():
        warnings.simplefilter('ignore')
        s = State(autos, getattr(Deck, deck), types, tuple(streets), BettingStructure.NO_LIMIT, True, 0, (1, 2), 0,
                  STACK, n, mode=Mode.TOURNAMENT)
        for i in range(n):
            s.deal_hole(holes[i], i)
        while s.actor_index is not None:
            if s.can_complete_bet_or_raise_to(STACK):
                s.complete_bet_or_raise_to(STACK)
            else:
                s.check_or_call()
        if b:
            s.deal_board(board)
    assert not s.status, 'hand did not finish'
    pot = n * STACK
    return [Fraction(s.stacks[i], pot) for i in range(n)]


def strengths(game, n, holes, board):
    name, hts, h, b, deck = game
    rows = []
    for t in hts:
        cls = impl.HAND_TYPES[t]
        hands = [cls.from_game_or_none(holes[i], board) for i in range(n)]
        row = []
        for x in hands:
            row.append(None if x is None else sum(1 for y in hands if y is not None and y < x))
        rows.append(row)
    return rows


_EXECUTOR = []


def _executor():
    if not _EXECUTOR:
        from concurrent.futures import ThreadPoolExecutor
        _EXECUTOR.append(ThreadPoolExecutor(max_workers=2))
    return _EXECUTOR[0]


def check_equities(seed, count):
    from pokerkit import Deck
    from pokerkit.analysis import calculate_equities
    rng = random.Random(seed)
    viols, diffs, lines, exp, metas = [], [], [], [], []
    dist = {}
    for _ in range(count):
        game = rng.choice(GAMES + [GAMES[2], GAMES[3]] * 2)
        name, hts, h, b, deck = game
        d = gen_deal(rng, game)
        if d is None:
            continue
        n, holes, board = d
        types = tuple(impl.HAND_TYPES[t] for t in hts)
        inp = ['equity', name, [''.join(map(repr, x)) for x in holes], ''.join(map(repr, board))]
        res = []
        for k in (1, 3, 7):
            try:
                res.append(calculate_equities([[hc] for hc in holes], board, h, b, getattr(Deck, deck), types, sample_count=k))
            except Exception as ex:  # noqa: BLE001
                res.append(type(ex).__name__)
        # the same deal through an executor (the documented way to parallelise), sample counts that are not round
        kx = rng.choice([1, 7, 99, 101, 150])
        try:
            res.append(calculate_equities([[hc] for hc in holes], board, h, b, getattr(Deck, deck), types,
                                          sample_count=kx, executor=_executor()))
        except Exception as ex:  # noqa: BLE001
            res.append(type(ex).__name__)
        e = res[0]
        if isinstance(e, str):
            viols.append(v('equity', f'equity_raises:{name}', f'{name} {inp[2]} board {inp[3]}: {e}', inp))
            continue
        rows = strengths(game, n, holes, board)
        tie = any(len([x for x in r if x is not None and x == max(y for y in r if y is not None)]) > 1 for r in rows if any(y is not None for y in r))
        nolow = any(all(y is None for y in r) for r in rows)
        dist[f'{name}:ties={int(tie)}:nolow={int(nolow)}'] = dist.get(f'{name}:ties={int(tie)}:nolow={int(nolow)}', 0) + 1
        if min(e) < -TOL:
            viols.append(v('equity', 'negative', f'{name}: equities {e}', inp))
        if abs(sum(e) - 1) > TOL:
            viols.append(v('equity', f'sum:{name}', f'{name} {inp[2]} board {inp[3]}: equities {e} sum to {sum(e)}', inp))
        for other in res[1:]:
            if isinstance(other, str) or any(abs(x - y) > TOL for x, y in zip(e, other)):
                viols.append(v('equity', f'sampling:{name}', f'{name}: equities depend on sample_count (1, 3, 7 and {kx} through an executor): {res}', inp))
        try:
            eng = engine_shares(game, n, holes, board)
        except Exception as ex:  # noqa: BLE001
            eng = None
            viols.append(v('equity', f'engine_failed:{name}', f'{name} {inp[2]} board {inp[3]}: engine run failed: {type(ex).__name__} {ex}', inp))
        if eng is not None and any(abs(float(x) - y) > TOL for x, y in zip(eng, e)):
            viols.append(v('equity_engine', f'engine:{name}', f'{name} {inp[2]} board {inp[3]}: calculate_equities {e}, the engine pays '
                           f'{[str(x) for x in eng]} of the pot', inp))
        lines.append(f'equities {n} ' + ' '.join(','.join('-' if x is None else str(x) for x in r) for r in rows))
        exp.append(e)
        metas.append(inp)
    out = run_driver(lines)
    for ln, e, a, inp in zip(lines, exp, out, metas):
        try:
            m = [float(Fraction(x)) for x in a[2:].split(' ')] if a.startswith('Y ') and len(a) > 2 else []
        except Exception:  # noqa: BLE001
            m = []
        if len(m) != len(e) or any(abs(x - y) > TOL for x, y in zip(m, e)):
            diffs.append(dict(input=ln, expected=str(e), actual=a, deal=inp))
    return dict(count=len(lines), diffs=diffs, viols=viols, dist=dist)



# ---------------------------------------------------------------- partially specified deals with a decided outcome
def locked_spot(rng):
    """(hole_ranges, board, winner index): three of a rank on a board on which no flush (hence no straight
    flush) is possible; one player's range is "the fourth card of that rank plus a side card" written as a
    two-rank range, most of whose combinations collide with the board; everybody else is unknown.  Whatever is
    sampled, that player has four of a kind and nobody can beat or tie it."""
    from pokerkit import Card
    from pokerkit.analysis import parse_range
    ranks = '23456789TJQKA'
    suits = 'cdhs'
    x = rng.choice(ranks)
    others = [r for r in ranks if r != x]
    y, z, k = rng.sample(others, 3)
    ss = rng.sample(suits, 4)
    board = [x + ss[0], x + ss[1], x + ss[2], y + ss[0], z + ss[1]]      # at most two cards of a suit
    rng.shuffle(board)
    text = (x + k) if ranks.index(x) > ranks.index(k) else (k + x)
    hero = sorted(parse_range(text), key=lambda h: ''.join(sorted(map(repr, h))))
    if rng.random() < 0.5:
        hero = list(reversed(hero))
    n = rng.choice([2, 2, 3])
    pos = rng.randrange(n)
    hole_ranges = [[()] for _ in range(n)]
    hole_ranges[pos] = hero
    return hole_ranges, list(Card.parse(''.join(board))), pos, text


def check_locked(seed, count):
    """a range most of whose combinations are impossible, in a partially specified deal whose outcome does
    not depend on the cards still to come: the equities must be exactly 0 and 1"""
    from pokerkit import Deck, StandardHighHand
    from pokerkit.analysis import calculate_equities
    rng = random.Random(seed)
    viols = []
    done = 0
    for _ in range(count):
        hole_ranges, board, pos, text = locked_spot(rng)
        inp = ['locked', text, ''.join(map(repr, board)), len(hole_ranges), pos]
        try:
            e = calculate_equities(hole_ranges, board, 2, 5, Deck.STANDARD, (StandardHighHand,), sample_count=rng.choice([50, 200]))
        except Exception as ex:  # noqa: BLE001
            viols.append(v('equity', f'locked_raises:{type(ex).__name__}', f'range {text} on {inp[2]}: {type(ex).__name__}: {ex}', inp))
            continue
        done += 1
        want = [1.0 if i == pos else 0.0 for i in range(len(hole_ranges))]
        if list(e) != want:
            viols.append(v('equity', 'locked_spot', f'range {text} (seat {pos} of {len(hole_ranges)}) on board {inp[2]}: every '
                           f'possible deal gives that seat four of a kind and the whole pot, calculate_equities says {e}', inp))
    return dict(count=done, diffs=[], viols=viols, dist={})

# ---------------------------------------------------------------- ICM
def check_icm(seed, count):
    from pokerkit.analysis import calculate_icm
    rng = random.Random(seed)
    viols, diffs, lines, exp, metas = [], [], [], [], []
    for _ in range(count):
        n = rng.randint(1, 6)
        k = rng.randint(0, n)
        if rng.random() < 0.15:
            k = n + rng.randint(1, 2)          # more paid places than players left
        kind = rng.choice(['int', 'int', 'frac', 'equal', 'skewed'])
        if kind == 'frac':
            chips = [Fraction(rng.randint(1, 400), rng.randint(1, 7)) for _ in range(n)]
        elif kind == 'equal':
            chips = [Fraction(rng.randint(1, 50))] * n
        elif kind == 'skewed':
            chips = [Fraction(rng.choice([1, 2, 1000, 5000])) for _ in range(n)]
        else:
            chips = [Fraction(rng.randint(1, 300)) for _ in range(n)]
        pays = sorted((Fraction(rng.randint(0, 100)) for _ in range(k)), reverse=True)
        if rng.random() < 0.2:
            rng.shuffle(pays)
        e = list(calculate_icm([float(x) for x in pays], [float(x) for x in chips]))
        inp = ['icm', [str(x) for x in pays], [str(x) for x in chips]]
        # the prize pool: the places that can be reached (with the payouts in descending order the first n)
        pool = float(sum(pays[:n]))
        scale = max(1.0, float(sum(pays)))
        if any(x < -TOL * scale for x in e):
            viols.append(v('icm', 'icm_negative', f'calculate_icm({pays}, {chips}) = {e}', inp))
        if abs(sum(e) - pool) > TOL * scale * 10:
            viols.append(v('icm', 'icm_sum', f'calculate_icm({[str(x) for x in pays]}, {[str(x) for x in chips]}) sums to {sum(e)}, prize pool {pool}', inp))
        if pays == sorted(pays, reverse=True):
            for i in range(n):
                for j in range(n):
                    if chips[i] >= chips[j] and e[i] < e[j] - TOL * scale * 10:
                        viols.append(v('icm', 'icm_order', f'chips {[str(x) for x in chips]} payouts {[str(x) for x in pays]}: '
                                       f'player {i} has at least the chips of {j} but value {e[i]} < {e[j]}', inp))
        lines.append('icm ' + ' '.join(str(x) for x in pays) + ' | ' + ' '.join(str(x) for x in chips))
        exp.append(e)
        metas.append((pays, chips))
    out = run_driver(lines)
    for ln, e, a, (pays, chips) in zip(lines, exp, out, metas):
        try:
            m = [Fraction(x) for x in a[2:].split(' ')] if len(a) > 2 else []
        except Exception:  # noqa: BLE001
            m = None
        scale = max(1.0, float(sum(pays)))
        if m is None or len(m) != len(e) or any(abs(float(x) - y) > TOL * scale * 10 for x, y in zip(m, e)):
            diffs.append(dict(input=ln, expected=str(e), actual=a))
            continue
        # the ordering clause on the exact values of the model (no theorem covers it in general)
        if pays == sorted(pays, reverse=True):
            n = len(chips)
            for i in range(n):
                for j in range(n):
                    if chips[i] >= chips[j] and m[i] < m[j]:
                        viols.append(v('icm', 'icm_order_exact', f'exact ICM: chips {chips} payouts {pays}: {m}', ['icm', [str(x) for x in pays], [str(x) for x in chips]]))
    return dict(count=len(lines), diffs=diffs, viols=viols)


def replay(inp):
    kind = inp[0]
    if kind == 'range':
        r = check_one_range(inp[1], inp[2])
        return r
    if kind == 'locked':
        from pokerkit import Card, Deck, StandardHighHand
        from pokerkit.analysis import calculate_equities, parse_range
        _, text, board, n, pos = inp
        hero = sorted(parse_range(text), key=lambda h: ''.join(sorted(map(repr, h))))
        for rng_hero in (hero, list(reversed(hero))):
            hr = [[()] for _ in range(n)]
            hr[pos] = rng_hero
            e = calculate_equities(hr, list(Card.parse(board)), 2, 5, Deck.STANDARD, (StandardHighHand,), sample_count=200)
            if list(e) != [1.0 if i == pos else 0.0 for i in range(n)]:
                return f'range {text} (seat {pos} of {n}) on board {board}: calculate_equities says {e}, every possible deal gives that seat the whole pot'
        return None
    return None


def check_one_range(order, text):
    e, _ = py_range(text, order)
    a = run_driver([f'range {order} {hexs(text)}'])[0]
    return None if e == a else f"parse_range({text!r}) = {e[:120]}, model {a[:120]}"
