#!/bin/bash
# usage: harness/seedtest.sh <seeded-id> <property> [tier]  — apply a seeded change to /repo, run the check, undo
set -u
id=$1; prop=$2; tier=${3:-quick}
cd /verif
git -C /repo diff --quiet || { echo "repo dirty"; exit 3; }
git -C /repo apply /verif/seeded/$id/patch.diff || { echo "patch failed"; exit 3; }
VERIF_SEED=${VERIF_SEED:-0} ./check $prop --tier $tier > .work/seedtest-$id-$prop.log 2>&1
rc=$?
git -C /repo checkout -- .
echo "seeded=$id prop=$prop rc=$rc $(grep -m1 VIOLATION .work/seedtest-$id-$prop.log)"
tail -1 .work/seedtest-$id-$prop.log
