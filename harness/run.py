"""Lock-step correspondence runner: play generated hands on the real pokerkit, replay the
same scripts on the Lean model (pkdriver) and compare every line."""
from __future__ import annotations

import json
import os
import random
import subprocess
import sys
import time
from collections import Counter

HERE = os.path.dirname(os.path.abspath(__file__))
VERIF = os.path.dirname(HERE)
sys.path.insert(0, HERE)

import gen  # noqa: E402
import impl  # noqa: E402

DRIVER = os.path.join(VERIF, 'lean', '.lake', 'build', 'bin', 'pkdriver')
WORK = os.path.join(VERIF, '.work')


def tune_for(rng: random.Random) -> dict:
    """Per-case steering of the valid stream (so that showdowns, all-ins, long raise wars and
    fold-outs are all produced deliberately)."""
    style = rng.choice(['passive', 'passive', 'aggro', 'shovey', 'foldy', 'mixed', 'mixed'])
    t = {'style': style}
    if style == 'passive':
        t.update(fold=0.15, call=5.0, raise_=0.6, shove=0.1)
    elif style == 'aggro':
        t.update(fold=0.3, call=1.5, raise_=4.0, shove=0.2)
    elif style == 'shovey':
        t.update(fold=0.2, call=3.0, raise_=3.0, shove=3.0)
    elif style == 'foldy':
        t.update(fold=2.5, call=1.5, raise_=1.0, shove=0.2)
    else:
        t.update(fold=0.6, call=3.0, raise_=2.0, shove=0.5)
    t['raise'] = t.pop('raise_')
    t['muck'] = rng.choice([0.0, 0.3, 1.0])
    t['maxdraw'] = rng.choice([0.1, 0.5, 0.9])
    t['unknown'] = rng.random() < 0.04
    t['p_bad'] = rng.choice([0.0, 0.05, 0.15, 0.3])
    t['p_can'] = rng.choice([0.0, 0.2, 0.5])
    t['p_probe'] = rng.choice([0.0, 0.15, 0.4])
    return t


def play_case(case_id: str, seed: int, force_variant=None, profile=None, max_ops=400, monitors=()):
    """Generate and play one hand.  Returns (script_lines, expect_lines, meta)."""
    rng = random.Random(seed)
    kw, extra, meta = gen.gen_config(rng, seed % 1000003, force_variant, profile)
    tune = tune_for(rng)
    extra['deck_ok'] = meta['deck_ok']
    if profile and 'tune' in profile:
        tune.update(profile['tune'])
    if meta.get('director') == 'rule96':
        bb = max(kw['raw_blinds_or_straddles'])
        tune.update(director='rule96', short_cap=7 * bb, p_bad=0.0, p_probe=0.6, p_can=0.5, unknown=False)
    elif meta.get('director') == 'stud8':
        tune.update(fold=0.004, call=8.0, shove=0.05, p_bad=rng.choice([0.0, 0.03]), unknown=False)
        tune['raise'] = 0.4
    elif meta.get('director') == 'bigpost':
        tune.update(director='bigpost', p_bad=0.0, p_probe=0.5, p_can=0.5, unknown=False)
    elif meta.get('director') == 'deck_boundary':
        tune.update(director='deck_boundary', fold=0.02, call=6.0, maxdraw=1.0, shove=(3.0 if meta.get('variant') == 'NR' else 0.1),
                    p_bad=rng.choice([0.0, 0.03]), unknown=False)
    elif meta.get('director') == 'chop':
        from pokerkit import Card
        ranks = rng.sample('AKQJT98', 2)
        suits = rng.sample('cdhs', 4)
        hands = [[r + suits[(2 * i + k) % 4] for k, r in enumerate(ranks)] for i in range(2)]
        tune.update(director='chop', p_bad=0.0, unknown=False, fold=0.0,
                    chop_cards={i: list(Card.parse(''.join(h))) for i, h in enumerate(hands)})
        if rng.random() < 0.5:
            tune.update(call=6.0, shove=0.0)
            tune['raise'] = 0.0
        else:
            tune.update(call=2.0, shove=6.0)
            tune['raise'] = 2.0
    elif meta.get('director') == 'multirun':
        tune.update(director='multirun', runs=rng.choice([3, 3, 4]), shove_street=rng.choice([1, 1, 2]),
                    fold=0.02, p_bad=rng.choice([0.0, 0.03]), unknown=False)
    elif meta.get('director') == 'exact_deck':
        tune.update(fold=0.03, call=5.0, p_bad=rng.choice([0.0, 0.05]), unknown=False)
    meta['style'] = tune['style']
    mons = [m() for m in monitors]
    sess = impl.Session(kw, extra, mons)
    # requests naming a card twice are offered only where warnings are errors: there the repaired code
    # refuses them (and an unrepaired one deals the card twice, which C06 reports); where warnings are
    # ignored the card is dealt twice at the caller's wish and the hand leaves every property's scope
    tune['warnerr'] = bool(extra.get('warnerr'))
    err = sess.init()
    stats = Counter()
    if err is not None:
        meta['init_err'] = type(err).__name__
        stats['init_err:' + type(err).__name__] += 1
        meta['violations'] = [v for m in mons for v in m.violations]
        return ['case ' + case_id] + sess.script, ['case ' + case_id] + sess.expect, meta, stats
    s = sess.state
    valid_flags: list[int] = []
    meta['valid_flags'] = valid_flags
    nop = 0
    dead = 0
    while nop < max_ops:
        if not s.status and rng.random() < 0.7:
            break
        bad = rng.random() < tune['p_bad']
        line = None
        if not bad:
            with impl.warnings.catch_warnings():
                impl.warnings.simplefilter('error' if sess.warnerr else 'ignore')
                impl._SEED[0] = extra['seed']
                try:
                    cands = gen.valid_ops(rng, s, tune)
                except Exception as e:  # noqa: BLE001
                    stats['gen_exc:' + type(e).__name__] += 1
                    cands = []
            if cands:
                line = gen.pick(rng, cands)
        if line is None:
            with impl.warnings.catch_warnings():
                impl.warnings.simplefilter('ignore')
                line = gen.malformed_op(rng, s)
            bad = True
        if rng.random() < tune['p_can']:
            sess.can(line)
        if rng.random() < tune['p_probe']:
            with impl.warnings.catch_warnings():
                impl.warnings.simplefilter('ignore')
                try:
                    probes = gen.boundary_probes(rng, s)
                except Exception:  # noqa: BLE001
                    probes = []
            for pl in probes[:6]:
                sess.can(pl)
                stats['probe'] += 1
        before = len(s.operations)
        e = sess.op(line, valid=not bad)
        valid_flags.append(0 if bad else 1)
        nop += 1
        name = line.split(' ')[0]
        if e is None:
            stats['ok:' + name] += 1
            dead = 0
        else:
            stats['err:' + type(e).__name__] += 1
            stats[('badop:' if bad else 'validerr:') + name + ':' + type(e).__name__] += 1
            if not bad:
                meta.setdefault('valid_failed', []).append((line, type(e).__name__))
            if len(s.operations) != before:
                stats['partial_failure'] += 1
            dead += 1
            if type(e).__name__ not in ('ValueError', 'UserWarning'):
                # an exception that is not a refusal escaped: the object is left half-mutated
                # and is not driven any further
                stats['crash:' + name + ':' + type(e).__name__] += 1
                meta['crash'] = (line, type(e).__name__)
                sess.crashed = True
                break
            if dead > 25:
                stats['stuck'] += 1
                break
    if not getattr(sess, 'crashed', False) and extra.get('variant'):
        try:
            import phh as _phh
            from pokerkit import HandHistory as _HH
            g = _phh.game_of(sess)
            if g is not None and type(g) in _HH.variants:
                sess.phh(g, True)
                sess.phh(g, False)
        except Exception as e:  # noqa: BLE001
            stats['phh_exc:' + type(e).__name__] += 1
    meta['ops'] = nop
    meta['terminal'] = not s.status
    meta['nlog'] = len(s.operations)
    for o in s.operations:
        stats['log:' + type(o).__name__] += 1
    if not s.status:
        stats['terminal'] += 1
    for m in mons:
        m.at_end(sess)
    meta['violations'] = [v for m in mons for v in m.violations]
    return ['case ' + case_id] + sess.script, ['case ' + case_id] + sess.expect, meta, stats


def run_driver(script_lines: list[str], tag: str) -> list[str]:
    os.makedirs(WORK, exist_ok=True)
    path = os.path.join(WORK, f'script-{tag}-{os.getpid()}.txt')
    with open(path, 'w') as f:
        f.write('\n'.join(script_lines) + '\n')
    try:
        with open(path) as f:
            p = subprocess.run([DRIVER], stdin=f, capture_output=True, text=True, timeout=3600)
    finally:
        os.remove(path)
    if p.returncode != 0:
        raise RuntimeError(f'pkdriver failed rc={p.returncode}: {p.stderr[:500]}')
    return p.stdout.split('\n')


def split_cases(lines: list[str]) -> dict[str, list[str]]:
    out: dict[str, list[str]] = {}
    cur = None
    for ln in lines:
        if ln.startswith('case '):
            cur = ln[5:]
            out[cur] = []
        elif cur is not None and ln != '':
            out[cur].append(ln)
    return out


def field_diff(exp: str, act: str) -> list[tuple[str, str, str]]:
    if exp[:2] != act[:2] or exp[0] not in 'DQ':
        return [('line', exp, act)]
    e = dict(x.split('=', 1) for x in exp[2:].split(';') if '=' in x)
    a = dict(x.split('=', 1) for x in act[2:].split(';') if '=' in x)
    return [(k, e.get(k, '<missing>'), a.get(k, '<missing>'))
            for k in list(e) + [k for k in a if k not in e] if e.get(k) != a.get(k)]


def compare_case(exp: list[str], act: list[str]):
    """First difference between expected (implementation) and actual (model) lines."""
    crashed = False
    for i in range(max(len(exp), len(act))):
        e = exp[i] if i < len(exp) else '<end>'
        a = act[i] if i < len(act) else '<end>'
        if e == a or e == 'D *' and a.startswith('D '):
            if e.startswith('R err ') and e[6:] not in ('ValueError', 'UserWarning'):
                crashed = True
            continue
        if crashed and e[:2] in ('D ', 'Q ') and a[:2] == e[:2]:
            # state left behind by an escaped non-refusal exception: not compared
            continue
        return {'line_no': i, 'expected': e, 'actual': a, 'fields': field_diff(e, a)}
    return None


def run_batch(seeds: list[int], tag: str, force_variant=None, profile=None, monitors=()):
    """Play the cases, run the model once over all of them, compare.  Returns a result dict."""
    t0 = time.time()
    scripts, expects, metas, stats = {}, {}, {}, Counter()
    all_script: list[str] = []
    for sd in seeds:
        cid = f'{tag}-{sd}'
        sc, ex, meta, st = play_case(cid, sd, force_variant, profile, monitors=monitors)
        scripts[cid], expects[cid], metas[cid] = sc, ex, meta
        stats.update(st)
        all_script += sc
    t1 = time.time()
    out = run_driver(all_script, tag)
    t2 = time.time()
    acts = split_cases(out)
    diffs = []
    for cid in scripts:
        d = compare_case(expects[cid][1:], acts.get(cid, ['<missing case>']))
        if d is not None:
            d['case'] = cid
            d['seed'] = int(cid.rsplit('-', 1)[1])
            d['meta'] = metas[cid]
            # the op being executed when the streams diverge
            nresp = sum(1 for ln in expects[cid][1:d['line_no'] + 1] if ln == '.')
            cmds = [ln for ln in scripts[cid][1:] if ln == 'init' or ln.startswith('op ')]
            d['at_op'] = cmds[nresp] if nresp < len(cmds) else '<end>'
            d['script'] = scripts[cid]
            diffs.append(d)
    return {'cases': len(seeds), 'diffs': diffs, 'stats': stats, 'metas': metas,
            'impl_s': t1 - t0, 'model_s': t2 - t1,
            'lines': sum(len(v) for v in expects.values()), 'scripts': scripts, 'expects': expects}


if __name__ == '__main__':
    import argparse
    ap = argparse.ArgumentParser()
    ap.add_argument('--seed', type=int, default=0)
    ap.add_argument('--count', type=int, default=50)
    ap.add_argument('--variant', default=None)
    ap.add_argument('--show', type=int, default=3)
    a = ap.parse_args()
    seeds = [a.seed * 1000003 + i for i in range(a.count)]
    r = run_batch(seeds, 'cli', a.variant)
    print(f"cases={r['cases']} lines={r['lines']} impl={r['impl_s']:.1f}s model={r['model_s']:.1f}s "
          f"diffs={len(r['diffs'])}")
    byfield = Counter()
    for d in r['diffs']:
        byfield[(d['at_op'].split(' ')[1] if ' ' in d['at_op'] else d['at_op'],
                 tuple(f[0] for f in d['fields'][:3]))] += 1
    for k, v in byfield.most_common(20):
        print('  ', v, k)
    for d in r['diffs'][:a.show]:
        print('---', d['case'], d['meta'])
        print('   at', d['at_op'], 'line', d['line_no'])
        for f in d['fields'][:6]:
            print('     ', f[0], '\n        impl :', f[1][:300], '\n        model:', f[2][:300])
    if a.show and not r['diffs']:
        top = sorted(r['stats'].items(), key=lambda kv: -kv[1])[:60]
        print(top)
