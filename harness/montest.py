"""debug: run the correspondence with the given monitors and summarise what they report"""
import sys, json, os
sys.path.insert(0, os.path.dirname(os.path.abspath(__file__)))
import framework as fw
from collections import Counter
mons = sys.argv[1].split(',')
count = int(sys.argv[2]) if len(sys.argv) > 2 else 960
seed = int(sys.argv[3]) if len(sys.argv) > 3 else 0
r = fw.correspondence(seed, count, mons, tag='mt')
c = Counter((v['property'], v['clause'], v['signature']) for v in r['viols'])
print('cases', r['cases'], 'diffs', len(r['diffs']), 'viols', len(r['viols']))
for k, n in c.most_common(25):
    ex = next(v for v in r['viols'] if (v['property'], v['clause'], v['signature']) == k)
    print(n, k, ex['detail'][:220], '| variant', ex['meta'].get('variant'), 'case', ex['case'])
os.makedirs(fw.WORK, exist_ok=True)
for i, v in enumerate(r['viols'][:40]):
    json.dump(dict(viol=[v['property'], v['clause'], v['signature'], v['detail']], script=v['script'], valid=v['valid']),
              open(os.path.join(fw.WORK, f'v-{i}.json'), 'w'))
