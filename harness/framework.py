"""Shared machinery of ./check: build + audit of the Lean library, parallel correspondence
runs, failing-input search, known findings, evidence files."""
from __future__ import annotations

import json
import os
import re
import subprocess
import sys
import time
from collections import Counter
from concurrent.futures import ProcessPoolExecutor

HERE = os.path.dirname(os.path.abspath(__file__))
VERIF = os.path.dirname(HERE)
LEAN = os.path.join(VERIF, 'lean')
WORK = os.path.join(VERIF, '.work')
REPLAYS = os.path.join(VERIF, 'replays')
EVIDENCE = os.path.join(VERIF, 'evidence')
sys.path.insert(0, HERE)

ALLOWED_AXIOMS = {'propext', 'Classical.choice', 'Quot.sound'}
FORBIDDEN = re.compile(r'\b(sorry|admit|native_decide|bv_decide|implemented_by|unsafe)\b|^\s*axiom\s|maxHeartbeats\s+0')


class Infra(Exception):
    """The machinery itself is broken (exit 2, never a VIOLATION)."""


def sh(cmd, cwd=None, timeout=3600):
    p = subprocess.run(cmd, cwd=cwd, capture_output=True, text=True, timeout=timeout)
    return p.returncode, p.stdout, p.stderr


def ensure_build():
    t0 = time.time()
    rc, out, err = sh(['lake', 'build', 'PK', 'pkdriver'], cwd=LEAN, timeout=7200)
    if rc != 0:
        raise Infra('lake build failed:\n' + (out + err)[-3000:])
    if not os.path.exists(os.path.join(LEAN, '.lake', 'build', 'bin', 'pkdriver')):
        raise Infra('pkdriver missing after build')
    return time.time() - t0


def strip_comments(src: str) -> str:
    # nested block comments and line comments
    out, i, depth = [], 0, 0
    while i < len(src):
        if src.startswith('/-', i):
            depth += 1
            i += 2
        elif src.startswith('-/', i) and depth:
            depth -= 1
            i += 2
        elif depth:
            i += 1
        elif src.startswith('--', i):
            while i < len(src) and src[i] != '\n':
                i += 1
        else:
            out.append(src[i])
            i += 1
    return ''.join(out)


def grep_sources():
    bad = []
    for root, _, files in os.walk(os.path.join(LEAN, 'PK')):
        for f in files:
            if f.endswith('.lean'):
                path = os.path.join(root, f)
                body = strip_comments(open(path).read())
                for n, line in enumerate(body.split('\n'), 1):
                    if FORBIDDEN.search(line):
                        bad.append(f'{os.path.relpath(path, LEAN)}: {line.strip()[:120]}')
    return bad


def theorem_list(prop: str) -> list[str]:
    """Theorems claimed for a property = the `#print axioms` lines of PK/Audit/<prop>.lean."""
    path = os.path.join(LEAN, 'PK', 'Audit', f'{prop}.lean')
    if not os.path.exists(path):
        return []
    return re.findall(r'^#print axioms\s+(\S+)', open(path).read(), re.M)


def audit(prop: str):
    """Every claimed theorem exists in the built library and depends only on the three
    standard axioms; no forbidden construct in the sources."""
    names = theorem_list(prop)
    if not names:
        raise Infra(f'no theorems listed in PK/Audit/{prop}.lean')
    rc, out, err = sh(['lake', 'env', 'lean', f'PK/Audit/{prop}.lean'], cwd=LEAN, timeout=1800)
    if rc != 0:
        raise Infra(f'audit of {prop} failed to elaborate:\n' + (out + err)[-3000:])
    found = {}
    for m in re.finditer(r"'([^']+)' depends on axioms: \[([^\]]*)\]", out.replace('\n ', ' ')):
        found[m.group(1)] = {a.strip() for a in m.group(2).split(',') if a.strip()}
    for m in re.finditer(r"'([^']+)' does not depend on any axioms", out):
        found[m.group(1)] = set()
    res = []
    for n in names:
        ax = found.get(n)
        if ax is None:
            # names may be printed fully qualified
            cand = [k for k in found if k.endswith('.' + n) or k == n or n.endswith('.' + k)]
            ax = found[cand[0]] if cand else None
        if ax is None:
            raise Infra(f'audit: theorem {n} not reported by #print axioms')
        extra = ax - ALLOWED_AXIOMS
        if extra:
            raise Infra(f'audit: theorem {n} depends on {sorted(extra)}')
        res.append((n, sorted(ax)))
    bad = grep_sources()
    if bad:
        raise Infra('forbidden constructs in Lean sources:\n' + '\n'.join(bad[:20]))
    return res


def recheck(prop: str):
    """Thorough tier: the toolchain's independent checker replays, from the compiled .olean files, every
    declaration of the modules that hold this property's theorems (the imports of its audit file inside
    this library: property files, kernel-evaluation modules, lifting lemmas)."""
    mods = []
    with open(os.path.join(LEAN, 'PK', 'Audit', f'{prop}.lean')) as f:
        for ln in f:
            m = re.match(r'import (PK\.[\w.]+)', ln)
            if m:
                mods.append(m.group(1))
    extra = {'C04': ['PK.Properties.C04Kernel', 'PK.Properties.C04KernelRegular', 'PK.Properties.C04KernelSmall',
                     'PK.Proofs.TableCheck', 'PK.Proofs.TableLift', 'PK.Spec.Ranking'],
             'C13': ['PK.Properties.C13KernelLow', 'PK.Properties.C13KernelHigh', 'PK.Proofs.TableCheck',
                     'PK.Proofs.TableLift', 'PK.Spec.Ranking']}
    mods += extra.get(prop, [])
    from concurrent.futures import ThreadPoolExecutor
    def one(mod):
        rc, out, err = sh(['lake', 'env', 'leanchecker', mod], cwd=LEAN, timeout=3600)
        return mod, rc, (out + err)[-1500:]
    with ThreadPoolExecutor(max_workers=4) as ex:
        for mod, rc, msg in ex.map(one, mods):
            if rc != 0:
                raise Infra(f'leanchecker rejected {mod}:\n{msg}')
    return mods


# ---------------------------------------------------------------- known findings
def load_known():
    path = os.path.join(VERIF, 'known_findings.json')
    if not os.path.exists(path):
        return []
    return json.load(open(path)).get('findings', [])


def match_known(v: dict, known: list[dict]):
    for k in known:
        if k['property'] != v['property']:
            continue
        if k.get('clause') and not re.fullmatch(k['clause'], v['clause']):
            continue
        if re.fullmatch(k['signature'], v['signature']):
            return k
    return None


# ---------------------------------------------------------------- parallel correspondence
def _worker(args):
    seeds, tag, variant, profile, monitor_names, keep = args
    import run
    import small
    import monitors
    import paired  # noqa: F401  (registers C09 / C12 / C15)
    import dealing  # noqa: F401  (registers C10)
    import opener  # noqa: F401  (registers C13)
    import runout  # noqa: F401  (registers C14)
    import variants  # noqa: F401  (registers C11)
    import phh  # noqa: F401  (registers C16)
    import acpc  # noqa: F401  (registers C17)
    mons = [monitors.ALL[m] for m in monitor_names]
    if seeds and seeds[0] == 'small':
        r = small.run_small(tag, mons, budget_per_config=seeds[2], only=[seeds[1]])
    else:
        r = run.run_batch(seeds, tag, variant, profile, monitors=mons)
    viols = []
    for cid, m in r['metas'].items():
        for v in m.get('violations', []):
            viols.append(dict(v, case=cid, script=r['scripts'][cid][1:], valid=m.get('valid_flags', []),
                              meta={k: x for k, x in m.items() if k not in ('violations', 'valid_flags')}))
    dist = Counter()
    for m in r['metas'].values():
        for k in ('variant', 'autos', 'mode', 'boards', 'rake', 'n', 'style', 'antes', 'blinds', 'stacks', 'director'):
            dist[f'{k}={m.get(k)}'] += 1
        dist['terminal' if m.get('terminal') else 'unfinished'] += 1
    nontrivial = sum(1 for m in r['metas'].values() if m.get('nlog', 0) >= 8)
    samples = []
    for cid in list(r['scripts'])[:keep]:
        samples.append({'case': cid, 'meta': {k: x for k, x in r['metas'][cid].items()
                                              if k not in ('violations', 'valid_flags')},
                        'script': r['scripts'][cid][1:][:60]})
    diffs = [{k: d[k] for k in ('case', 'seed', 'at_op', 'line_no', 'expected', 'actual', 'fields', 'script')}
             | {'meta': {k: x for k, x in d['meta'].items() if k not in ('violations', 'valid_flags')}}
             for d in r['diffs']]
    return dict(cases=r['cases'], lines=r['lines'], diffs=diffs, stats=r['stats'], dist=dist,
                viols=viols, nontrivial=nontrivial, samples=samples,
                impl_s=r['impl_s'], model_s=r['model_s'])


def correspondence(seed: int, count: int, monitor_names, variant=None, profile=None, jobs=None,
                   tag='c', chunk=40, directed=None, small_budget=0):
    jobs = jobs or min(16, os.cpu_count() or 4)
    base = seed * 1000003
    seeds = [base + i for i in range(count)]
    chunks = [seeds[i:i + chunk] for i in range(0, len(seeds), chunk)]
    args = [(c, f'{tag}{i}', variant, profile, list(monitor_names), 2 if i == 0 else 0)
            for i, c in enumerate(chunks)]
    # directed streams: extra cases (own seed range) steered towards one rare configuration each
    for k, (name, frac) in enumerate(sorted((directed or {}).items())):
        dn = max(8, int(count * frac))
        dseeds = [base + 500000 + 50000 * k + i for i in range(dn)]
        dprof = dict(profile or {}, _director=name)
        for j in range(0, dn, chunk):
            args.append((dseeds[j:j + chunk], f'{tag}{name}{j}', variant, dprof, list(monitor_names), 0))
    # small-scope exhaustive stream: every decision sequence of a few tiny games (one chunk per game)
    if small_budget:
        import small
        for ci in range(len(small.configs())):
            args.append((('small', ci, small_budget), f'{tag}s{ci}', variant, profile, list(monitor_names), 0))
    tot = dict(cases=0, lines=0, diffs=[], stats=Counter(), dist=Counter(), viols=[], nontrivial=0,
               samples=[], impl_s=0.0, model_s=0.0)
    if jobs == 1 or len(args) == 1:
        results = map(_worker, args)
    else:
        ex = ProcessPoolExecutor(max_workers=jobs)
        results = ex.map(_worker, args)
    for r in results:
        for k in ('cases', 'lines', 'nontrivial', 'impl_s', 'model_s'):
            tot[k] += r[k]
        tot['diffs'] += r['diffs']
        tot['stats'].update(r['stats'])
        tot['dist'].update(r['dist'])
        tot['viols'] += r['viols']
        tot['samples'] += r['samples']
    return tot


# ---------------------------------------------------------------- reporting
def write_replay(prop: str, seed: int, payload: dict) -> str:
    os.makedirs(REPLAYS, exist_ok=True)
    path = os.path.join(REPLAYS, f'{prop}-{seed}.json')
    with open(path, 'w') as f:
        json.dump(payload, f, indent=1, default=str)
    return os.path.relpath(path, VERIF)


def write_evidence(prop: str, tier: str, seed: int, coverage: dict, assumptions, wall_s: float,
                   violations: int):
    os.makedirs(EVIDENCE, exist_ok=True)
    ev = {'property_id': prop, 'tier': tier, 'seed': seed, 'level': 'proof', 'coverage': coverage,
          'assumptions': list(assumptions), 'wall_s': round(wall_s, 2), 'violations': violations}
    with open(os.path.join(EVIDENCE, f'{prop}.json'), 'w') as f:
        json.dump(ev, f, indent=1, default=str)


TRUSTED_BASE = [
    'Lean 4.33.0 kernel (thorough tier: leanchecker re-check of the compiled .olean files)',
    'axioms: propext, Classical.choice, Quot.sound only (audited with #print axioms on every run); '
    'no native_decide, no bv_decide, no sorry/admit, no axioms of our own',
    'the statements in lean/PK/Properties and lean/PK/Spec (our reading of the property)',
    'hand translation /repo/pokerkit -> lean/PK/Model, validated on every run by the correspondence '
    'check (harness/*.py + lean/Driver/Main.lean); testing, not proof',
    'CPython semantics of int, list, deque, dict, set, sorted, enum order (modelled, not verified)',
]
