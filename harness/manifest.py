"""Regenerates MANIFEST.json from the property registry (run after adding a property)."""
import json, os, sys
HERE = os.path.dirname(os.path.abspath(__file__))
sys.path.insert(0, HERE)
import props

VERIF = os.path.dirname(HERE)
ALL = [f'C{i:02d}' for i in range(1, 21)]
TEXT = json.load(open(os.path.join(HERE, 'claims.json')))

checks = []
for pid in ALL:
    if pid not in props.PROPS:
        continue
    c = TEXT[pid]
    checks.append({
        'property_id': pid,
        'quick_cmd': f'./check {pid} --tier quick',
        'thorough_cmd': f'./check {pid} --tier thorough',
        'evidence_file': f'evidence/{pid}.json',
        'replay_cmd_template': f'./check {pid} --replay {{path}}',
        'engine': 'lean-pk',
        'level_claimed': {'category': 'proof', 'text': c['text'], 'design_ref': c.get('design_ref', 'DESIGN.md §6 ' + pid)},
        'level_note': c['note'],
        'technique': c['technique'],
    })
na = [{'property_id': pid, 'reason': TEXT.get(pid, {}).get('na', 'no theorem about this property has been completed in this revision; it is not claimed until one is (DESIGN.md §11)')}
      for pid in ALL if pid not in props.PROPS]
m = {
    'version': 1,
    'setup_cmd': 'cd lean && lake build PK pkdriver',
    'hooks': {'guard': 'POKERKIT_VERIF', 'enable': 'no source hooks: the harness wraps State._update and replaces pokerkit.state.shuffle / pokerkit.utilities.shuffle at run time from outside /repo',
              'baseline_off_cmd': 'cd /repo && /venv/bin/python -m pytest -ra -q -p no:cacheprovider --timeout=900 --continue-on-collection-errors',
              'source_commits': [], 'add_only': True},
    'engines': [{'name': 'lean-pk', 'path': 'lean', 'serves_properties': [c['property_id'] for c in checks],
                 'kind_free_text': 'Lean 4 library PK (model, specs, theorems) + compiled line-protocol driver pkdriver + Python correspondence harness (harness/)'}],
    'checks': checks,
    'not_applicable': na,
    'notes': 'Technique: machine-checked proof in Lean 4 about a hand-written executable model, tied to /repo on every run by a lock-step correspondence check; see DESIGN.md. Genuine defects repaired by fix: commits and recorded findings are listed in known_findings.json.',
}
json.dump(m, open(os.path.join(VERIF, 'MANIFEST.json'), 'w'), indent=1)
print('checks', [c['property_id'] for c in checks], 'n/a', [x['property_id'] for x in na])
