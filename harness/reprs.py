"""C19 — equivalent ways of writing chips and cards mean the same thing.

Correspondence of the utility functions with their Lean models (`cleanValues`, `Card.parseChars`,
`pyDivmod`, `pyRake`, `Config.validate`) on generated and boundary inputs, and the property itself
evaluated on the implementation (no model involved):
  * every representation of a chip layout (number, list, tuple, generator, mapping with positive,
    negative and mixed keys) cleans to the explicit list and creates a state with the same digest;
  * every representation of cards (object, list / tuple / generator / iterator of objects, text with
    any separators, `10` for `T`) cleans to the same cards, all 70 card texts round-trip, and a state
    dealt with objects equals the state dealt with text;
  * invalid layouts are refused at construction;
  * the default divmod / rake return parts that add up (and are non-negative).
"""
from __future__ import annotations

import os
import random
import subprocess
import warnings
from fractions import Fraction

import impl
from impl import Card, putil

DRIVER = os.path.join(os.path.dirname(os.path.dirname(os.path.abspath(__file__))), 'lean', '.lake', 'build', 'bin', 'pkdriver')
SEPS = ['', ' ', ',', ', ', '  ', '\t', ' , ', '\n', '\xa0', ' ']


def run_driver(lines):
    p = subprocess.run([DRIVER], input='\n'.join(lines) + '\n', capture_output=True, text=True, timeout=300)
    return p.stdout.split('\n')[:-1]


def hexs(s: str) -> str:
    return '.'.join(format(ord(c), 'x') for c in s) or '.'


def all_cards():
    from pokerkit import Rank, Suit
    return [Card(r, s) for r in Rank for s in Suit]


def v(prop_clause, sig, detail, inp):
    return dict(property='C19', clause=prop_clause, signature=sig, detail=detail, input=inp)


# ---------------------------------------------------------------- chips
def gen_layout(rng, n):
    kind = rng.choice(['num', 'seq', 'seq_short', 'seq_long', 'map_pos', 'map_neg', 'map_mixed', 'map_dup', 'map_bad'])
    if kind == 'num':
        return kind, rng.randint(-2, 9)
    if kind.startswith('seq'):
        k = n if kind == 'seq' else (rng.randint(0, n) if kind == 'seq_short' else n + rng.randint(1, 3))
        return kind, [rng.randint(-1, 9) for _ in range(k)]
    keys = list(range(n))
    if kind == 'map_pos':
        ks = rng.sample(keys, rng.randint(0, n))
    elif kind == 'map_neg':
        ks = [k - n for k in rng.sample(keys, rng.randint(0, n))]
    elif kind == 'map_mixed':
        ks = [rng.choice([k, k - n]) for k in rng.sample(keys, rng.randint(0, n))]
    elif kind == 'map_dup':
        ks = [rng.choice([k, k - n]) for k in rng.sample(keys, rng.randint(1, n))]
        ks = ks + [ks[0] - n if ks[0] >= 0 else ks[0] + n]       # two keys naming one seat
    else:
        ks = [rng.choice([n, -n - 1, n + 3, -2 * n - 1])] + rng.sample(keys, rng.randint(0, n))
    return kind, [(k, rng.randint(1, 9)) for k in ks]


def layout_line(kind, val, n):
    if kind == 'num':
        return f'clean num {n} {val}'
    if kind.startswith('seq'):
        return f'clean seq {n} ' + ' '.join(str(x) for x in val)
    return f'clean map {n} ' + ' '.join(f'{k}:{x}' for k, x in val)


def py_clean(kind, val, n):
    if kind == 'num':
        arg = val
    elif kind.startswith('seq'):
        arg = list(val)
    else:
        arg = {}
        for k, x in val:
            arg[k] = arg.get(k, 0) + x if k in arg else x
        # python dict: duplicate keys in a literal keep the last; we build the mapping explicitly so
        # the model receives exactly the items of the mapping
    try:
        return 'V [' + ','.join(str(x) for x in putil.clean_values(arg, n)) + ']', arg
    except IndexError:
        return 'V !IndexError', arg


def check_chips(seed, count):
    rng = random.Random(seed)
    cases, lines, exp, viols, diffs = [], [], [], [], []
    for _ in range(count):
        n = rng.randint(2, 7)
        kind, val = gen_layout(rng, n)
        line, arg = py_clean(kind, val, n)
        if kind.startswith('map'):
            val = list(arg.items())
        cases.append((kind, val, n, arg))
        lines.append(layout_line(kind, val, n))
        exp.append(line)
    out = run_driver(lines)
    for (kind, val, n, arg), e, a, ln in zip(cases, exp, out, lines):
        if e != a:
            diffs.append(dict(input=ln, expected=e, actual=a))
        # the property on the implementation: explicit list == every other writing of it
        if e.startswith('V [') and n > 0:
            explicit = [int(x) for x in e[3:-1].split(',')] if e != 'V []' else []
            writings = {
                'tuple': tuple(explicit), 'list': list(explicit), 'generator': (x for x in explicit),
                'mapping': {i: x for i, x in enumerate(explicit)},
                'mapping_negative': {i - n: x for i, x in enumerate(explicit)},
                'mapping_sparse': {i: x for i, x in enumerate(explicit) if x != 0},
                'mapping_sparse_negative': {i - n: x for i, x in enumerate(explicit) if x != 0},
            }
            if len(set(explicit)) == 1:
                writings['number'] = explicit[0]
            # the chip types pokerkit documents besides int: the same layout in each of them
            from decimal import Decimal
            from fractions import Fraction
            for tname, T in (('float', float), ('fraction', Fraction), ('decimal', Decimal)):
                writings[f'list_{tname}'] = [T(x) for x in explicit]
                writings[f'mapping_{tname}'] = {i: T(x) for i, x in enumerate(explicit)}
                if len(set(explicit)) == 1:
                    writings[f'number_{tname}'] = T(explicit[0])
            for wname, w in writings.items():
                try:
                    got = list(putil.clean_values(w, n))
                except Exception as ex:  # noqa: BLE001
                    got = type(ex).__name__
                if got != explicit:
                    viols.append(v('values', f'values:{wname}', f'{wname} writing of {explicit} for {n} players cleans to {got}',
                                   ['values', wname, explicit, n]))
    return dict(count=len(cases), diffs=diffs, viols=viols)


# ---------------------------------------------------------------- cards
def check_cards(seed, count):
    rng = random.Random(seed)
    cards = all_cards()
    viols, diffs, lines, exp, texts = [], [], [], [], []

    def py_parse(t):
        try:
            return 'P ' + (''.join(repr(c) for c in Card.parse(t)) or '-')
        except ValueError:
            return 'P !ValueError'
        except Exception as ex:  # noqa: BLE001
            return 'P !' + type(ex).__name__

    # all 70 card texts, and `10` for `T`
    for c in cards:
        t = repr(c)
        texts.append(t)
        got = list(Card.parse(t))
        if got != [c]:
            viols.append(v('card_text', f'roundtrip:{t}', f'Card.parse({t!r}) = {got}', ['parse', t]))
        for form, val in (('object', c), ('list', [c]), ('tuple', (c,)), ('generator', (x for x in [c])),
                          ('iterator', iter([c])), ('text', t)):
            try:
                got = list(Card.clean(val))
            except Exception as ex:  # noqa: BLE001
                got = type(ex).__name__
            if got != [c]:
                viols.append(v('clean', f'clean:{form}', f'Card.clean({form} of {t}) = {got}, expected [{t}]', ['clean', form, t]))
    for su in 'cdhs?':
        a, b = py_parse('10' + su), py_parse('T' + su)
        texts.append('10' + su)
        if a != b or a == 'P !ValueError':
            viols.append(v('card_text', 'ten', f"'10{su}' parses to {a}, 'T{su}' to {b}", ['parse', '10' + su]))
    # several cards with separators
    for _ in range(count):
        k = rng.randint(0, 6)
        cs = [rng.choice(cards) for _ in range(k)]
        seps = [rng.choice(SEPS) for _ in range(k + 1)]
        t = seps[0] + ''.join(repr(c) + s for c, s in zip(cs, seps[1:]))
        if rng.random() < 0.3:
            t = t.replace('T', '10')
        texts.append(t)
        try:
            got = list(Card.parse(t))
        except Exception as ex:  # noqa: BLE001
            got = type(ex).__name__
        if got != cs:
            viols.append(v('card_text', 'separators', f'Card.parse({t!r}) = {got}, the cards written are {cs}', ['parse', t]))
        for form, val in (('list', list(cs)), ('tuple', tuple(cs)), ('generator', (x for x in cs))):
            got = list(Card.clean(val))
            if got != cs:
                viols.append(v('clean', f'clean:{form}', f'Card.clean({form} {cs}) = {got}', ['clean', form, ''.join(map(repr, cs))]))
    # malformed text: correspondence only
    alphabet = 'AKQJT98765432?cdhs10, \tx'
    for _ in range(count // 2):
        texts.append(''.join(rng.choice(alphabet) for _ in range(rng.randint(0, 9))))
    for t in texts:
        lines.append('parsex ' + hexs(t))
        exp.append(py_parse(t))
    out = run_driver(lines)
    for t, e, a in zip(texts, exp, out):
        if e != a:
            diffs.append(dict(input=t, expected=e, actual=a))
    return dict(count=len(texts) + 70 * 6, diffs=diffs, viols=viols)


# ---------------------------------------------------------------- divmod / rake
def check_helpers(seed, count):
    rng = random.Random(seed)
    lines, exp, viols, diffs = [], [], [], []
    for _ in range(count):
        a, n = rng.randint(-50, 2000), rng.choice([0, 1, 2, 3, 4, 5, 7, -3])
        lines.append(f'divmod {a} {n}')
        try:
            q, r = putil.divmod(a, n)
            exp.append(f'M {q} {r}')
            if q * n + r != a or (n > 0 and not 0 <= r < n) or (n > 0 and a >= 0 and q < 0):
                viols.append(v('divmod', 'divmod_parts', f'divmod({a}, {n}) = ({q}, {r})', ['divmod', a, n]))
        except ZeroDivisionError:
            exp.append('M !ZeroDivisionError')
    from functools import partial

    class Board:
        def __init__(self, b):
            self.board_cards = [[1]] if b else []
    for _ in range(count):
        num, den = rng.choice([(0, 1), (1, 100), (5, 100), (1, 10), (1, 2), (1, 1), (1, 3), (2, 3)])
        cap = rng.choice([None, None, 0, 1, 3, 10])
        nfnd = rng.random() < 0.3
        board = rng.random() < 0.6
        amount = rng.randint(0, 400)
        f = partial(putil.rake, percentage=Fraction(num, den), cap=float('inf') if cap is None else cap,
                    no_flop_no_drop=nfnd)
        x, y = f(amount, Board(board))
        lines.append(f'rakeq {num} {den} {"inf" if cap is None else cap} {int(nfnd)} {int(board)} {amount}')
        exp.append(f'K {x} {y}')
        if x + y != amount or x < 0 or y < 0:
            viols.append(v('rake', 'rake_parts', f'rake({amount}, pct {num}/{den}, cap {cap}, nfnd {nfnd}) = ({x}, {y})',
                           ['rake', num, den, cap, nfnd, board, amount]))
    out = run_driver(lines)
    for ln, e, a in zip(lines, exp, out):
        if e != a:
            diffs.append(dict(input=ln, expected=e, actual=a))
    return dict(count=len(lines), diffs=diffs, viols=viols)


# ---------------------------------------------------------------- states
def _state(antes, blinds, stacks, n, bring_in=0, cls=None):
    from pokerkit import NoLimitTexasHoldem, FixedLimitSevenCardStud, Automation
    autos = (Automation.ANTE_POSTING, Automation.BET_COLLECTION, Automation.BLIND_OR_STRADDLE_POSTING)
    if cls == 'stud':
        return FixedLimitSevenCardStud.create_state(autos, True, antes, bring_in, 4, 8, stacks, n)
    return NoLimitTexasHoldem.create_state(autos, True, antes, blinds, 2, stacks, n)


def check_states(seed, count):
    """state-level clauses: layouts written differently create the same state; cards given as
    objects / lists / text deal the same cards; invalid layouts are refused"""
    rng = random.Random(seed)
    viols, n_checked = [], 0
    cards = all_cards()
    for _ in range(count):
        n = rng.randint(2, 6)
        antes = [rng.choice([0, 0, 1, 2]) for _ in range(n)]
        blinds = [1, 2] + [rng.choice([0, 0, 4]) for _ in range(n - 2)]
        stacks = [rng.randint(20, 200) for _ in range(n)]
        with warnings.catch_warnings():
            warnings.simplefilter('ignore')
            base = impl.digest(_state(antes, blinds, stacks, n))

            def forms(l):
                fs = {'tuple': tuple(l), 'mapping': {i: x for i, x in enumerate(l)},
                      'mapping_negative': {i - n: x for i, x in enumerate(l)},
                      'mapping_sparse_mixed': {rng.choice([i, i - n]): x for i, x in enumerate(l) if x != 0}}
                if len(set(l)) == 1:
                    fs['number'] = l[0]
                return fs
            for which, l in (('antes', antes), ('blinds', blinds), ('stacks', stacks)):
                for fname, f in forms(l).items():
                    if which == 'stacks' and 'sparse' in fname:
                        continue
                    args = dict(antes=antes, blinds=blinds, stacks=stacks)
                    args[which] = f
                    n_checked += 1
                    try:
                        d = impl.digest(_state(args['antes'], args['blinds'], args['stacks'], n))
                    except Exception as ex:  # noqa: BLE001
                        d = type(ex).__name__
                    if d != base:
                        viols.append(v('values', f'state:{which}:{fname}', f'{which} written as {fname} {f!r} for {n} players: '
                                       f'{"refused " + d if len(d) < 40 else "a different state"} (explicit {l})',
                                       ['state', which, fname, l, n]))
            # one layout object used for two tables (a game object creates its states from the same arguments):
            # the caller's object is left as it was, and the second table gets the layout the explicit list gives
            for which, l in (('antes', antes), ('blinds', blinds), ('stacks', stacks)):
                m = rng.randint(2, n)
                obj = list(l)
                small = dict(antes=tuple(antes[:m]), blinds=tuple(blinds[:m]), stacks=tuple(stacks[:m]))
                small[which] = obj
                args = dict(antes=antes, blinds=blinds, stacks=stacks)
                args[which] = obj
                n_checked += 1
                orig, after = list(l), None
                try:
                    _state(small['antes'], small['blinds'], small['stacks'], m)
                    after = list(obj)
                    d = impl.digest(_state(args['antes'], args['blinds'], args['stacks'], n))
                except Exception as ex:  # noqa: BLE001
                    after, d = after if after is not None else list(obj), type(ex).__name__
                changed = after != orig
                if d != base:
                    viols.append(v('values', f'state:{which}:list_reused', f'{which} given as the list {orig} to a table of {m} and '
                                   f'then of {n} players: ' + (f'after the first table the list was {after}; ' if changed else '') +
                                   (f'refused {d}' if len(d) < 40 else ('a different state' if d != base else 'same state')),
                                   ['reuse', which, l, m, n, antes, blinds, stacks]))
            # cards: object vs list vs text
            s1, s2, s3 = (_state(antes, blinds, stacks, n) for _ in range(3))
            c = rng.choice(cards)
            res = []
            for s, arg in ((s1, repr(c)), (s2, c), (s3, [c])):
                try:
                    s.deal_hole(arg)
                    res.append(impl.digest(s))
                except Exception as ex:  # noqa: BLE001
                    res.append(type(ex).__name__)
            n_checked += 1
            if not (res[0] == res[1] == res[2]):
                viols.append(v('clean', 'state:deal_hole', f'deal_hole of {c!r} as text / object / list gives '
                               f'{[r if len(r) < 40 else "ok" for r in res]}', ['deal', repr(c)]))
    # invalid layouts
    bad = [
        ('negative_ante', dict(antes=[-1, 0], blinds=[1, 2], stacks=[50, 50], n=2)),
        ('negative_ante_mapping', dict(antes={-1: -3}, blinds=[1, 2], stacks=[50, 50, 50], n=3)),
        ('zero_stack', dict(antes=0, blinds=[1, 2], stacks=[50, 0], n=2)),
        ('negative_stack', dict(antes=0, blinds=[1, 2], stacks={0: 50, 1: 50, 2: -5}, n=3)),
        ('no_forced_bet', dict(antes=0, blinds=0, stacks=50, n=3)),
        ('no_forced_bet_mapping', dict(antes={}, blinds={}, stacks=50, n=2)),
        ('one_player', dict(antes=1, blinds=[1, 2], stacks=50, n=1)),
        ('blinds_and_bring_in', dict(antes=1, blinds=None, stacks=50, n=3, bring_in=2, cls='studblinds')),
        ('negative_bring_in', dict(antes=1, blinds=None, stacks=50, n=3, bring_in=-1, cls='stud')),
    ]
    # blinds together with a bring-in, in every writing and with every sign pattern: a negative entry is a
    # late-seated player's dead post, so a layout such as (1, 2, -3) - whose entries cancel - is still a blind
    for k in range(24):
        nn = rng.randint(3, 6)
        while True:
            bl = [rng.choice([0, 0, 1, 2, 4, -1, -2, -3, -4]) for _ in range(nn)]
            if any(bl):
                break
        if k % 3 == 0:
            # make the entries cancel
            i = rng.randrange(nn)
            bl[i] = bl[i] - sum(bl)
            if not any(bl):
                bl[0], bl[-1] = 2, -2
        form = rng.choice(['tuple', 'list', 'mapping', 'mapping_negative'])
        written = {'tuple': tuple(bl), 'list': list(bl), 'mapping': {i: x for i, x in enumerate(bl) if x},
                   'mapping_negative': {i - nn: x for i, x in enumerate(bl) if x}}[form]
        bad.append((f'blinds_and_bring_in:{"cancel" if sum(bl) == 0 else "plain"}:{form}',
                    dict(antes=1, blinds=written, stacks=50, n=nn, bring_in=rng.choice([1, 2]), cls='studblinds')))
    for name, a in bad:
        n_checked += 1
        try:
            with warnings.catch_warnings():
                warnings.simplefilter('ignore')
                if a.get('cls') == 'studblinds':
                    from pokerkit import State, FixedLimitSevenCardStud
                    g = FixedLimitSevenCardStud((), True, 1, 2, 4, 8)
                    State(g.automations, g.deck, g.hand_types, g.streets, g.betting_structure, True, a['antes'],
                          a['blinds'] if a['blinds'] is not None else (1, 2), a['bring_in'], a['stacks'], a['n'])
                else:
                    _state(a['antes'], a['blinds'], a['stacks'], a['n'], a.get('bring_in', 0), a.get('cls'))
            viols.append(v('rejects', f'accepted:{name.split(":")[0]}', f'invalid layout {name} {a} was accepted',
                           ['reject', name, {k_: (sorted(x.items()) if isinstance(x, dict) else x) for k_, x in a.items()}]))
        except ValueError:
            pass
        except Exception as ex:  # noqa: BLE001
            viols.append(v('rejects', f'crash:{name}', f'invalid layout {name}: {type(ex).__name__} instead of ValueError', ['reject', name]))
    return dict(count=n_checked, diffs=[], viols=viols)


def replay(inp):
    """re-evaluate one recorded input on the implementation; returns a message if it still fails"""
    kind = inp[0]
    if kind == 'values':
        _, wname, explicit, n = inp
        w = {'tuple': tuple(explicit), 'list': list(explicit), 'generator': (x for x in explicit),
             'mapping': {i: x for i, x in enumerate(explicit)}, 'mapping_negative': {i - n: x for i, x in enumerate(explicit)},
             'mapping_sparse': {i: x for i, x in enumerate(explicit) if x != 0},
             'mapping_sparse_negative': {i - n: x for i, x in enumerate(explicit) if x != 0},
             'number': explicit[0] if explicit else 0}[wname]
        try:
            got = list(putil.clean_values(w, n))
        except Exception as ex:  # noqa: BLE001
            got = type(ex).__name__
        return None if got == list(explicit) else f'{wname} writing of {explicit} cleans to {got}'
    if kind == 'reuse':
        _, which, l, m, n, antes, blinds, stacks = inp
        with warnings.catch_warnings():
            warnings.simplefilter('ignore')
            base = impl.digest(_state(antes, blinds, stacks, n))
            obj = list(l)
            small = dict(antes=tuple(antes[:m]), blinds=tuple(blinds[:m]), stacks=tuple(stacks[:m]))
            small[which] = obj
            args = dict(antes=antes, blinds=blinds, stacks=stacks)
            args[which] = obj
            after = None
            try:
                _state(small['antes'], small['blinds'], small['stacks'], m)
                after = list(obj)
                d = impl.digest(_state(args['antes'], args['blinds'], args['stacks'], n))
            except Exception as ex:  # noqa: BLE001
                after, d = after if after is not None else list(obj), type(ex).__name__
        if d != base:
            return (f'{which} given as the list {l} to a table of {m} and then of {n} players: after the first table the '
                    f'list was {after}, the second state is {"the same" if d == base else "different / refused"}')
        return None
    if kind == 'parse':
        t = inp[1]
        return None   # text cases are re-run by the full check; the replay file documents the input
    if kind == 'clean':
        form, t = inp[1], inp[2]
        cs = list(Card.parse(t))
        val = {'object': cs[0] if cs else None, 'list': list(cs), 'tuple': tuple(cs), 'generator': (x for x in cs),
               'iterator': iter(cs), 'text': t}[form]
        try:
            got = list(Card.clean(val))
        except Exception as ex:  # noqa: BLE001
            got = type(ex).__name__
        return None if got == cs else f'Card.clean({form} of {t}) = {got}'
    if kind == 'reject' and len(inp) > 2 and inp[2].get('cls') == 'studblinds':
        from pokerkit import State, FixedLimitSevenCardStud
        a = inp[2]
        bl = a['blinds']
        if isinstance(bl, list) and bl and isinstance(bl[0], list):
            bl = {k_: x for k_, x in bl}
        g = FixedLimitSevenCardStud((), True, 1, 2, 4, 8)
        try:
            with warnings.catch_warnings():
                warnings.simplefilter('ignore')
                State(g.automations, g.deck, g.hand_types, g.streets, g.betting_structure, True, a['antes'],
                      bl if bl is not None else (1, 2), a['bring_in'], a['stacks'], a['n'])
        except ValueError:
            return None
        except Exception as ex:  # noqa: BLE001
            return f'{type(ex).__name__} instead of ValueError for blinds {bl} with a bring-in'
        return f'blinds {bl} together with bring-in {a["bring_in"]} accepted at construction'
    return None
