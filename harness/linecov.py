"""How much of pokerkit the correspondence stream executes: line coverage of /repo/pokerkit/*.py under the
generator of the lock-step check (a sample of its cases, directed streams included), measured with
sys.settrace.  Not a verdict — it goes into the evidence as a measure of the tie between model and code:
a model branch that corresponds to an unexecuted line is validated by nobody.

usage: linecov.py [cases] [seed]   -> prints a JSON summary"""
from __future__ import annotations

import json
import os
import sys
import threading
import types

HERE = os.path.dirname(os.path.abspath(__file__))
sys.path.insert(0, HERE)


def executable_lines(path: str) -> dict[str, set[int]]:
    """function qualified name -> executable line numbers (from the compiled code objects)"""
    src = open(path).read()
    top = compile(src, path, 'exec')
    out: dict[str, set[int]] = {}

    def walk(code: types.CodeType, prefix: str):
        name = prefix + code.co_name if code.co_name != '<module>' else '<module>'
        lines = {ln for _, _, ln in code.co_lines() if ln is not None}
        # class bodies and the module body run at import time, before the measurement: functions only
        if code.co_flags & 0x02:
            out.setdefault(name, set()).update(lines - {code.co_firstlineno})
        for c in code.co_consts:
            if isinstance(c, types.CodeType):
                walk(c, (name + '.') if name != '<module>' else '')
    walk(top, '')
    return out


def measure(cases: int = 120, seed: int = 1, files=('state.py',)):
    import pokerkit
    root = os.path.dirname(pokerkit.__file__)
    targets = {os.path.join(root, f): f for f in files}
    hit: dict[str, set[int]] = {p: set() for p in targets}

    def tracer(frame, event, arg):
        fn = frame.f_code.co_filename
        if fn not in hit:
            return None
        s = hit[fn]

        def local(frame, event, arg):
            if event == 'line':
                s.add(frame.f_lineno)
            return local
        s.add(frame.f_lineno)
        return local

    import run
    import monitors  # noqa: F401
    import props
    streams = [(None, cases)]
    for pid, spec in props.PROPS.items():
        for name in (spec.get('directed') or {}):
            streams.append((name, max(8, cases // 8)))
    sys.settrace(tracer)
    threading.settrace(tracer)
    try:
        k = 0
        for director, n in streams:
            for i in range(n):
                prof = {'_director': director} if director else None
                run.play_case(f'cov{k}', seed * 1000003 + 900000 + k, profile=prof)
                k += 1
    finally:
        sys.settrace(None)
        threading.settrace(None)
    summary = {'cases': k, 'files': {}}
    for path, short in targets.items():
        ex = executable_lines(path)
        # import-time lines (class bodies, decorators, module level) were executed before tracing began
        body = {fn: ls for fn, ls in ex.items() if fn != '<module>' and ls}
        total = sum(len(ls) for ls in body.values())
        cov = sum(len(ls & hit[path]) for ls in body.values())
        never = sorted(((fn, len(ls)) for fn, ls in body.items() if not (ls & hit[path]) and len(ls) > 1),
                       key=lambda t: -t[1])
        partial = sorted(((fn, len(ls - hit[path]), len(ls)) for fn, ls in body.items()
                          if (ls & hit[path]) and (ls - hit[path])), key=lambda t: -t[1])
        summary['files'][short] = {
            'executable_lines_in_functions': total, 'executed': cov,
            'percent': round(100.0 * cov / max(total, 1), 1),
            'functions_never_entered': [f'{fn} ({n} lines)' for fn, n in never[:40]],
            'largest_gaps': [f'{fn}: {miss} of {tot} lines not executed' for fn, miss, tot in partial[:25]],
        }
    return summary


if __name__ == '__main__':
    n = int(sys.argv[1]) if len(sys.argv) > 1 else 120
    sd = int(sys.argv[2]) if len(sys.argv) > 2 else 1
    print(json.dumps(measure(n, sd), indent=1))
