"""Correspondence and monitors for hand evaluation (C04, C05): exhaustive comparison of the
nine lookup tables, sampled `Hand(cards)` / `from_game` calls through the real classes
against the Lean model (pkdriver) and against the independent spec (pyspec)."""
from __future__ import annotations

import random
import zlib
from itertools import combinations

import impl
import pyspec
from impl import phands, putil, pokerkit
from pokerkit import lookups as plookups
from pokerkit import state as pstate
from pokerkit import Deck, Card
import run as runner

LOOKUPS = {
    'StandardLookup': lambda: phands.StandardHighHand.lookup,
    'ShortDeckHoldemLookup': lambda: phands.ShortDeckHoldemHand.lookup,
    'EightOrBetterLookup': lambda: phands.EightOrBetterLowHand.lookup,
    'RegularLookup': lambda: phands.RegularLowHand.lookup,
    'BadugiLookup': lambda: phands.BadugiHand.lookup,
    'StandardBadugiLookup': lambda: phands.StandardBadugiHand.lookup,
    'KuhnPokerLookup': lambda: phands.KuhnPokerHand.lookup,
    '_LowHandOpeningLookup': lambda: pstate.State._State__low_hand_opening_lookup,
    '_HighHandOpeningLookup': lambda: pstate.State._State__high_hand_opening_lookup,
}
LABELS = list(plookups.Label)
TYPE_DECK = {
    'StandardHighHand': Deck.STANDARD, 'StandardLowHand': Deck.STANDARD,
    'ShortDeckHoldemHand': Deck.SHORT_DECK_HOLDEM, 'EightOrBetterLowHand': Deck.STANDARD,
    'RegularLowHand': Deck.REGULAR, 'GreekHoldemHand': Deck.STANDARD,
    'OmahaHoldemHand': Deck.STANDARD, 'OmahaEightOrBetterLowHand': Deck.STANDARD,
    'BadugiHand': Deck.REGULAR, 'StandardBadugiHand': Deck.STANDARD, 'KuhnPokerHand': Deck.KUHN_POKER,
}
# the lookup of every Hand class, its low flag and composition constants (declarative part)
TYPE_DECL = {
    'StandardHighHand': ('StandardLookup', False, 5, None, None),
    'StandardLowHand': ('StandardLookup', True, 5, None, None),
    'ShortDeckHoldemHand': ('ShortDeckHoldemLookup', False, 5, None, None),
    'EightOrBetterLowHand': ('EightOrBetterLookup', True, 5, None, None),
    'RegularLowHand': ('RegularLookup', True, 5, None, None),
    'GreekHoldemHand': ('StandardLookup', False, 5, 3, None),
    'OmahaHoldemHand': ('StandardLookup', False, 5, 3, 2),
    'OmahaEightOrBetterLowHand': ('EightOrBetterLookup', True, 5, 3, 2),
    'BadugiHand': ('BadugiLookup', True, None, None, None),
    'StandardBadugiHand': ('StandardBadugiLookup', True, None, None, None),
    'KuhnPokerHand': ('KuhnPokerLookup', False, None, None, None),
}


def python_table(name: str):
    lk = LOOKUPS[name]()
    entries = lk._Lookup__entries
    return [f'T {h} {impl.p_bool(su)} {e.index} {LABELS.index(e.label)}' for (h, su), e in entries.items()]


def compare_tables():
    """Exhaustive: every entry of every table, in dictionary order.  Returns (entries, diffs)."""
    script = [f'table {n}' for n in LOOKUPS]
    out = [ln for ln in runner.run_driver(script, 'tables') if ln != '']
    # split on '.'
    blocks, cur = [], []
    for ln in out:
        if ln == '.':
            blocks.append(cur)
            cur = []
        else:
            cur.append(ln)
    diffs = []
    total = 0
    for name, blk in zip(LOOKUPS, blocks):
        py = python_table(name)
        total += len(py)
        if sorted(py) != sorted(blk):
            ps, ms = set(py), set(blk)
            only_py = sorted(ps - ms)[:5]
            only_m = sorted(ms - ps)[:5]
            diffs.append({'table': name, 'python_entries': len(py), 'model_entries': len(blk),
                          'only_in_python': only_py, 'only_in_model': only_m})
        elif py != blk:
            diffs.append({'table': name, 'order': 'entries equal as a set but dictionary order differs'})
    return total, diffs


def compare_decl():
    """Class attributes that live outside the tables."""
    diffs = []
    for tn, (lk, low, cc, bcc, hcc) in TYPE_DECL.items():
        cls = impl.HAND_TYPES[tn]
        got = (type(cls.lookup).__name__, cls.low, getattr(cls, 'card_count', None),
               getattr(cls, 'board_card_count', None), getattr(cls, 'hole_card_count', None))
        if got != (lk, low, cc, bcc, hcc):
            diffs.append({'hand_type': tn, 'expected': (lk, low, cc, bcc, hcc), 'actual': got})
    return diffs


def cards_text(cs):
    return ''.join(repr(c) for c in cs) or '='


def gen_cards(rng: random.Random, tn: str):
    """(hole, board) for `from_game`: sizes 0-7 / 0-5, mostly from the type's deck, biased to
    patterns that matter (paired boards, low boards, suited runs)."""
    deck = list(TYPE_DECK[tn])
    mode = rng.choice(['uniform', 'uniform', 'low', 'suited', 'paired', 'tiny', 'wide'])
    if mode == 'low':
        deck = [c for c in deck if c.rank.value in 'A2345678'] or deck
    elif mode == 'suited':
        su = rng.choice('cdhs')
        deck = [c for c in deck if c.suit.value == su or rng.random() < 0.2] or deck
    elif mode == 'paired':
        ranks = rng.sample(sorted({c.rank for c in deck}, key=str), min(4, len({c.rank for c in deck})))
        deck = [c for c in deck if c.rank in ranks] or deck
    if tn in ('OmahaHoldemHand', 'OmahaEightOrBetterLowHand'):
        nh, nb = rng.choice([(4, 5), (4, 3), (4, 4), (2, 3), (5, 5), (6, 5), (1, 5), (4, 2), (0, 5)])
    elif tn == 'GreekHoldemHand':
        nh, nb = rng.choice([(2, 5), (2, 3), (2, 4), (2, 2), (1, 5), (3, 5), (0, 3)])
    elif tn in ('BadugiHand', 'StandardBadugiHand'):
        nh, nb = rng.choice([(4, 0), (4, 0), (3, 0), (5, 0), (2, 1), (1, 0), (0, 0), (6, 0)])
    elif tn == 'KuhnPokerHand':
        nh, nb = rng.choice([(1, 0), (1, 1), (2, 0), (0, 0)])
    else:
        nh, nb = rng.choice([(2, 5), (7, 0), (2, 3), (5, 0), (5, 2), (4, 0), (3, 1), (6, 0), (0, 5), (7, 5)])
    if mode == 'tiny':
        nh, nb = rng.randint(0, 2), rng.randint(0, 2)
    k = min(nh + nb, len(deck))
    cs = rng.sample(deck, k)
    hole, board = cs[:min(nh, k)], cs[min(nh, k):]
    if rng.random() < 0.03:
        hole = hole + [Card.UNKNOWN]
    return hole, board


def impl_eval(tn, hole, board):
    cls = impl.HAND_TYPES[tn]
    try:
        h = cls.from_game(hole, board)
    except ValueError:
        return 'E !ValueError', None
    except KeyError:
        return 'E !KeyError', None
    return f'E {h.entry.index} {LABELS.index(h.entry.label)} {impl.p_cards(h.cards)}', h


def impl_hand(tn, cards):
    cls = impl.HAND_TYPES[tn]
    # the documented CardsLike shapes: text, tuple, list, one-shot iterator, generator (chosen from the cards
    # alone, so that a replay makes the same choice)
    text = ''.join(repr(c) for c in cards)
    k = zlib.crc32((tn + text).encode()) % 5
    arg = [list(cards), tuple(cards), iter(list(cards)), (c for c in list(cards)), text if cards else ()][k]
    try:
        h = cls(arg)
    except ValueError:
        return 'H !ValueError', None
    except KeyError:
        return 'H !KeyError', None
    return f'H {h.entry.index} {LABELS.index(h.entry.label)}', h


def sample_eval(seed: int, count: int):
    """`from_game` on generated inputs: model correspondence + spec monitor (C05)."""
    rng = random.Random(seed)
    script, expect, cases = [], [], []
    viols = []
    prev = None
    for _ in range(count):
        tn = rng.choice(list(TYPE_DECK))
        hole, board = gen_cards(rng, tn)
        if prev is not None and rng.random() < 0.25:
            # a relative of the previous input: the same cards dealt the other way round (hole and board
            # cards exchanged, sizes kept), the same type - evaluations must not depend on one another
            tn, ph, pb = prev
            cs = [c for c in ph + pb]
            rng.shuffle(cs)
            hole, board = cs[:len(ph)], cs[len(ph):]
        prev = (tn, list(hole), list(board))
        line, h = impl_eval(tn, hole, board)
        script.append(f'eval {tn} {cards_text(hole)} {cards_text(board)}')
        expect.append(line)
        cases.append((tn, cards_text(hole), cards_text(board), line))
        # monitor: the reported hand is the best legal one (by the independent ranking)
        if any(not c for c in hole + board):
            continue
        if tn == 'GreekHoldemHand' and len(hole) != 2:
            continue
        want = pyspec.best_key(tn, hole, board)
        if (want is None) != (h is None):
            viols.append(dict(property='C05', clause='none_iff_no_legal_combination', signature=f'none:{tn}',
                              detail=f'{tn} hole {cards_text(hole)} board {cards_text(board)}: '
                                     f'implementation {line}, rules say {"no hand" if want is None else "a hand exists"}',
                              input=(tn, cards_text(hole), cards_text(board))))
        elif h is not None:
            got = pyspec.hand_key(tn, h.cards)
            if got != want:
                viols.append(dict(property='C05', clause='best_legal_combination', signature=f'best:{tn}',
                                  detail=f'{tn} hole {cards_text(hole)} board {cards_text(board)}: implementation chose '
                                         f'{impl.p_cards(h.cards)} (rank key {got}) but the best legal hand has key {want}',
                                  input=(tn, cards_text(hole), cards_text(board))))
    out = [ln for ln in runner.run_driver(script, 'eval') if ln != '']
    diffs = [dict(input=c[:3], impl=e, model=a) for c, e, a in zip(cases, expect, out) if e != a]
    if len(out) != len(expect):
        diffs.append(dict(input='<stream>', impl=len(expect), model=len(out)))
    return dict(count=count, diffs=diffs, viols=viols, samples=cases[:5])


def sample_hands(seed: int, count: int):
    """`Hand(cards)`, `<`, `==`, `hash` through the real classes vs model and spec (C04)."""
    rng = random.Random(seed)
    script, expect, cases, viols = [], [], [], []
    for _ in range(count):
        tn = rng.choice(list(TYPE_DECK))
        deck = list(TYPE_DECK[tn])
        decl = TYPE_DECL[tn]
        size = decl[2] if decl[2] else (rng.randint(1, 4) if 'Badugi' in tn else 1)
        pair = []
        for _j in range(2):
            mode = rng.choice(['valid', 'valid', 'valid', 'size', 'dup', 'foreign', 'unknown'])
            k = size
            if mode == 'size':
                k = max(0, size + rng.choice([-1, 1, 2]))
            pool = deck
            if mode == 'foreign':
                pool = list(Deck.STANDARD)
            cs = rng.sample(pool, min(k, len(pool)))
            if mode == 'dup' and cs:
                cs[-1] = cs[0]
            if mode == 'unknown' and cs:
                # cards that are not real cards: suit unknown (the rank kept), rank unknown, or both - one of
                # them, or all of them (five cards 'of one suit')
                how = rng.choice(['suit', 'suit', 'rank', 'both'])
                idx = range(len(cs)) if rng.random() < 0.4 else [rng.randrange(len(cs))]
                for j in idx:
                    c = cs[j]
                    cs[j] = Card(c.rank if how == 'suit' else impl.Rank.UNKNOWN,
                                 c.suit if how == 'rank' else impl.Suit.UNKNOWN)
            if _j == 1 and pair and pair[0] and rng.random() < 0.3:
                # a relative of the first hand: ties and near-ties (the same ranks in other suits - all of one
                # suit where possible -, the same cards in another order, one card changed)
                rel = rng.choice(['resuit', 'suited', 'permute', 'one_card'])
                base = list(pair[0])
                by = {}
                for c in deck:
                    by.setdefault(c.rank, []).append(c)
                if rel == 'permute':
                    cs = base[:]
                    rng.shuffle(cs)
                elif rel == 'one_card':
                    cs = base[:]
                    others = [c for c in deck if c not in cs]
                    if others:
                        cs[rng.randrange(len(cs))] = rng.choice(others)
                else:
                    suits = sorted({c.suit for c in deck}, key=str)
                    one = rng.choice(suits)
                    cs, used = [], set()
                    for c in base:
                        cands = [d for d in by.get(c.rank, []) if d not in used]
                        if rel == 'suited':
                            pref = [d for d in cands if d.suit == one]
                            cands = pref or cands
                        if not cands:
                            cs = base[:]
                            break
                        d = rng.choice(cands)
                        used.add(d)
                        cs.append(d)
            pair.append(cs)
        res = []
        for cs in pair:
            line, h = impl_hand(tn, cs)
            script.append(f'hand {tn} {cards_text(cs)}')
            expect.append(line)
            cases.append((tn, cards_text(cs), line))
            res.append(h)
            key = pyspec.hand_key(tn, cs) if len(set(cs)) == len(cs) and all(cs) else None
            if not all(cs) and h is not None:
                viols.append(dict(property='C04', clause='unknown_rejected', signature=f'unknown:{tn}',
                                  detail=f'{tn}({cards_text(cs)}): accepted as {line} although it contains a card '
                                         f'that is not a real card (unknown rank or suit)',
                                  input=(tn, cards_text(cs))))
            if len(set(cs)) == len(cs) and all(c in deck for c in cs):
                if (key is None) != (h is None):
                    viols.append(dict(property='C04', clause='valid_iff', signature=f'valid:{tn}',
                                      detail=f'{tn}({cards_text(cs)}): implementation {line}, rules say '
                                             f'{"not a hand" if key is None else "a valid hand"}',
                                      input=(tn, cards_text(cs))))
        a, b = res
        if a is not None and b is not None and all(len(set(cs)) == len(cs) for cs in pair):
            ka, kb = pyspec.hand_key(tn, pair[0]), pyspec.hand_key(tn, pair[1])
            if ka is not None and kb is not None:
                if (a < b) != (ka < kb) or (a == b) != (ka == kb) or (a > b) != (ka > kb):
                    viols.append(dict(property='C04', clause='order', signature=f'order:{tn}',
                                      detail=f'{tn}: {cards_text(pair[0])} vs {cards_text(pair[1])}: implementation '
                                             f'<:{a < b} ==:{a == b}; rules <:{ka < kb} ==:{ka == kb}',
                                      input=(tn, cards_text(pair[0]), cards_text(pair[1]))))
                if a == b and hash(a) != hash(b):
                    viols.append(dict(property='C04', clause='hash', signature=f'hash:{tn}',
                                      detail=f'equal hands with different hashes {cards_text(pair[0])} {cards_text(pair[1])}',
                                      input=(tn, cards_text(pair[0]), cards_text(pair[1]))))
    out = [ln for ln in runner.run_driver(script, 'hand') if ln != '']
    diffs = [dict(input=c[:2], impl=e, model=a) for c, e, a in zip(cases, expect, out) if e != a]
    if len(out) != len(expect):
        diffs.append(dict(input='<stream>', impl=len(expect), model=len(out)))
    return dict(count=count, diffs=diffs, viols=viols, samples=cases[:5])


def exhaustive_order(tn: str, limit=None):
    """All hands of a type's deck (or the first `limit`): validity and rank key against the
    implementation's table index, checked to be order-isomorphic.  Used by the failing-input
    search and by the thorough tier."""
    cls = impl.HAND_TYPES[tn]
    deck = list(TYPE_DECK[tn])
    decl = TYPE_DECL[tn]
    sizes = [decl[2]] if decl[2] else ([1, 2, 3, 4] if 'Badugi' in tn else [1])
    low = cls.low
    by_index: dict[int, tuple] = {}
    n = 0
    bad = []
    lk = cls.lookup
    for size in sizes:
        for cs in combinations(deck, size):
            n += 1
            if limit and n > limit:
                break
            key = pyspec.hand_key(tn, cs)
            try:
                e = lk.get_entry(cs)
            except ValueError:
                e = None
            if (key is None) != (e is None):
                bad.append(('valid', cards_text(cs), key, e))
                if len(bad) > 5:
                    return n, bad
                continue
            if e is None:
                continue
            strength = -e.index if low else e.index
            prev = by_index.get(strength)
            if prev is None:
                by_index[strength] = (key, cards_text(cs))
            elif prev[0] != key:
                bad.append(('same_index_different_rank', cards_text(cs), prev[1]))
                if len(bad) > 5:
                    return n, bad
    items = sorted(by_index.items())
    for (i0, (k0, c0)), (i1, (k1, c1)) in zip(items, items[1:]):
        if not k0 < k1:
            bad.append(('order', c0, c1, k0, k1))
            if len(bad) > 5:
                break
    return n, bad
