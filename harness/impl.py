"""Implementation side of the correspondence check: drives the real pokerkit
(imported from /repo's working tree) and renders its observable behaviour in the
canonical text the Lean driver prints.  Run with /venv/bin/python."""
from __future__ import annotations

import os
import zlib
import sys
import warnings
from collections import deque
from fractions import Fraction
from functools import partial

REPO = os.environ.get('POKERKIT_REPO', '/repo')
if REPO not in sys.path:
    sys.path.insert(0, REPO)

import pokerkit  # noqa: E402
import pokerkit.state as pstate  # noqa: E402
import pokerkit.utilities as putil  # noqa: E402
from pokerkit import (  # noqa: E402
    Automation, BettingStructure, Card, Mode, Opening, Rank, State, Street, Suit,
)
from pokerkit import hands as phands  # noqa: E402

assert os.path.realpath(pokerkit.__file__).startswith(os.path.realpath(REPO)), pokerkit.__file__

RANKS = list(Rank)
SUITS = list(Suit)
AUTOS = list(Automation)
OPENINGS = list(Opening)
BS = {BettingStructure.FIXED_LIMIT: 'FL', BettingStructure.POT_LIMIT: 'PL',
      BettingStructure.NO_LIMIT: 'NL'}

# ---------------------------------------------------------------- shuffle
_SEED = [0]


def card_code(c: Card) -> int:
    return RANKS.index(c.rank) * 5 + SUITS.index(c.suit)


def shuffle_key(c: Card):
    k = ((card_code(c) + 7) * (_SEED[0] * 2 + 1) * 48271) % 65521
    return (k, card_code(c))


def det_shuffle(x) -> None:
    items = sorted(x, key=shuffle_key)
    for i, v in enumerate(items):
        x[i] = v


def install_shuffle() -> None:
    pstate.shuffle = det_shuffle
    putil.shuffle = det_shuffle


install_shuffle()
warnings.simplefilter('ignore')

# ---------------------------------------------------------------- printing


def p_bool(b) -> str:
    return '1' if b else '0'


def p_opt(f, x) -> str:
    return 'N' if x is None else f(x)


def p_list(f, l) -> str:
    return '[' + ','.join(f(x) for x in l) + ']'


def p_cards(cs) -> str:
    cs = list(cs)
    return '-' if not cs else ''.join(repr(c) for c in cs)


def p_int(x) -> str:
    if isinstance(x, bool):
        return str(int(x))
    if isinstance(x, int):
        return str(x)
    if isinstance(x, Fraction) and x.denominator == 1:
        return str(x.numerator)
    return repr(x)


def p_pot(p) -> str:
    return f'{p_int(p.raked_amount)}:{p_int(p.unraked_amount)}:{p_list(str, p.player_indices)}'


def p_subpot(t) -> str:
    a, i, b, k = t
    return f'{p_int(a)}:{i}:{p_opt(str, b)}:{p_opt(str, k)}'


def p_operation(op) -> str:
    n = type(op).__name__
    if n in ('AntePosting', 'BlindOrStraddlePosting', 'CheckingOrCalling', 'BringInPosting',
             'CompletionBettingOrRaisingTo', 'ChipsPulling'):
        return f'{n} {op.player_index} {p_int(op.amount)}'
    if n == 'BetCollection':
        return f'{n} {p_list(p_int, op.bets)}'
    if n == 'CardBurning':
        return f'{n} {repr(op.card)}'
    if n == 'HoleDealing':
        return f'{n} {op.player_index} {p_cards(op.cards)} {p_list(p_bool, op.statuses)}'
    if n == 'BoardDealing':
        return f'{n} {p_cards(op.cards)}'
    if n == 'StandingPatOrDiscarding':
        return f'{n} {op.player_index} {p_cards(op.cards)}'
    if n in ('Folding', 'HandKilling'):
        return f'{n} {op.player_index}'
    if n == 'RunoutCountSelection':
        return f'{n} {op.player_index} {p_opt(p_int, op.runout_count)}'
    if n == 'HoleCardsShowingOrMucking':
        return f'{n} {op.player_index} {p_cards(op.hole_cards)}'
    if n == 'ChipsPushing':
        return (f'{n} {p_list(p_int, op.amounts)} {op.pot_index} '
                f'{p_opt(str, op.board_index)} {p_opt(str, op.hand_type_index)}')
    if n == 'NoOperation':
        return n
    return f'?{n}'


DIGEST_FIELDS = [
    ('deck', lambda s: p_cards(s.deck_cards)),
    ('board', lambda s: p_list(p_cards, s.board_cards)),
    ('mucked', lambda s: p_cards(s.mucked_cards)),
    ('burned', lambda s: p_cards(s.burn_cards)),
    ('statuses', lambda s: p_list(p_bool, s.statuses)),
    ('bets', lambda s: p_list(p_int, s.bets)),
    ('stacks', lambda s: p_list(p_int, s.stacks)),
    ('payoffs', lambda s: p_list(p_int, s.payoffs)),
    ('hole', lambda s: p_list(p_cards, s.hole_cards)),
    ('holeSt', lambda s: p_list(lambda l: p_list(p_bool, l), s.hole_card_statuses)),
    ('discarded', lambda s: p_list(p_cards, s.discarded_cards)),
    ('street', lambda s: p_opt(str, s.street_index)),
    ('sri', lambda s: p_opt(str, s.street_return_index)),
    ('src', lambda s: p_opt(str, s.street_return_count)),
    ('allin', lambda s: p_bool(s.all_in_status)),
    ('status', lambda s: p_bool(s.status)),
    ('ante', lambda s: p_list(p_bool, s.ante_posting_statuses)),
    ('collect', lambda s: p_bool(s.bet_collection_status)),
    ('blind', lambda s: p_list(p_bool, s.blind_or_straddle_posting_statuses)),
    ('burn', lambda s: p_bool(s.card_burning_status)),
    ('holeDeal', lambda s: p_list(lambda l: p_list(p_bool, l), s.hole_dealing_statuses)),
    ('boardDeal', lambda s: p_list(p_int, s.board_dealing_counts)),
    ('pat', lambda s: p_list(p_bool, s.standing_pat_or_discarding_statuses)),
    ('opener', lambda s: p_opt(str, s.opener_index)),
    ('bringin', lambda s: p_bool(s.bring_in_status)),
    ('completion', lambda s: p_bool(s.completion_status)),
    ('actors', lambda s: p_list(str, s.actor_indices)),
    ('cbrAmt', lambda s: p_int(s.completion_betting_or_raising_amount)),
    ('cbrCnt', lambda s: p_int(s.completion_betting_or_raising_count)),
    ('acted', lambda s: p_list(str, sorted(s.acted_player_indices))),
    ('consec', lambda s: p_list(p_int, s.consecutive_all_in_completion_betting_or_raising_amounts)),
    ('selectors', lambda s: p_list(p_bool, s.runout_count_selector_statuses)),
    ('runout', lambda s: p_opt(p_int, s.runout_count)),
    ('rflag', lambda s: p_bool(s.runout_count_selection_flag)),
    ('showdown', lambda s: p_list(str, s.showdown_indices)),
    ('kill', lambda s: p_list(p_bool, s.hand_killing_statuses)),
    ('pots_', lambda s: p_opt(lambda ps: p_list(p_pot, ps), s._pots)),
    ('subpots', lambda s: p_list(p_subpot, s._sub_pots)),
    ('pull', lambda s: p_list(p_bool, s.chips_pulling_statuses)),
    ('nops', lambda s: str(len(s.operations))),
]

# fields of the dataclass that the digest covers (a new field must not be ignored silently)
COVERED_STATE_FIELDS = {
    'automations', 'deck', 'hand_types', 'streets', 'betting_structure', 'ante_trimming_status',
    'bring_in', 'player_count', 'mode', 'starting_board_count', 'divmod', 'rake', 'antes',
    'blinds_or_straddles', 'starting_stacks', 'deck_cards', 'board_cards', 'mucked_cards',
    'burn_cards', 'statuses', 'bets', 'stacks', 'payoffs', 'hole_cards', 'hole_card_statuses',
    'discarded_cards', 'street_index', 'street_return_index', 'street_return_count',
    'all_in_status', 'status', 'operations', 'ante_posting_statuses', 'bet_collection_status',
    'blind_or_straddle_posting_statuses', 'card_burning_status', 'hole_dealing_statuses',
    'board_dealing_counts', 'standing_pat_or_discarding_statuses', 'opener_index',
    'bring_in_status', 'completion_status', 'actor_indices',
    'completion_betting_or_raising_amount', 'completion_betting_or_raising_count',
    'acted_player_indices', 'consecutive_all_in_completion_betting_or_raising_amounts',
    'runout_count_selector_statuses', 'runout_count', 'runout_count_selection_flag',
    'showdown_indices', 'hand_killing_statuses', '_pots', '_sub_pots', 'chips_pulling_statuses',
}


def unknown_state_fields() -> list[str]:
    import dataclasses
    return sorted(f.name for f in dataclasses.fields(State) if f.name not in COVERED_STATE_FIELDS)


def digest(s: State) -> str:
    return ';'.join(f'{k}={f(s)}' for k, f in DIGEST_FIELDS)


def exc_name(e: BaseException) -> str:
    return '!' + type(e).__name__


def guarded(f, fmt) -> str:
    try:
        return fmt(f())
    except Exception as e:  # noqa: BLE001
        return exc_name(e)


def queries(s: State) -> str:
    b = p_bool
    items = [
        ('can_post_ante', lambda: b(s.can_post_ante())),
        ('can_collect_bets', lambda: b(s.can_collect_bets())),
        ('can_post_blind', lambda: b(s.can_post_blind_or_straddle())),
        ('can_burn', lambda: b(s.can_burn_card())),
        ('can_deal_hole', lambda: b(s.can_deal_hole())),
        ('can_deal_board', lambda: b(s.can_deal_board())),
        ('can_draw', lambda: b(s.can_stand_pat_or_discard())),
        ('can_fold', lambda: b(s.can_fold())),
        ('can_call', lambda: b(s.can_check_or_call())),
        ('can_bring_in', lambda: b(s.can_post_bring_in())),
        ('can_cbr', lambda: b(s.can_complete_bet_or_raise_to())),
        ('can_runout', lambda: b(s.can_select_runout_count())),
        ('can_show', lambda: b(s.can_show_or_muck_hole_cards())),
        ('can_kill', lambda: b(s.can_kill_hand())),
        ('can_push', lambda: b(s.can_push_chips())),
        ('can_pull', lambda: b(s.can_pull_chips())),
        ('can_noop', lambda: b(s.can_no_operate())),
        ('actor', lambda: p_opt(str, s.actor_index)),
        ('turn', lambda: p_opt(str, s.turn_index)),
        ('dealee', lambda: p_opt(str, s.hole_dealee_index)),
        ('bdc', lambda: p_opt(p_int, s.board_dealing_count)),
        ('pat_idx', lambda: p_opt(str, s.stander_pat_or_discarder_index)),
        ('sd_idx', lambda: p_opt(str, s.showdown_index)),
        ('call_amt', lambda: p_opt(p_int, s.checking_or_calling_amount)),
        ('bringin_amt', lambda: p_opt(p_int, s.effective_bring_in_amount)),
        ('min_cbr', lambda: p_opt(p_int, s.min_completion_betting_or_raising_to_amount)),
        ('pot_cbr', lambda: p_opt(p_int, s.pot_completion_betting_or_raising_to_amount)),
        ('max_cbr', lambda: p_opt(p_int, s.max_completion_betting_or_raising_to_amount)),
        ('total_pot', lambda: p_int(s.total_pot_amount)),
        ('pots', lambda: p_list(p_pot, list(s.pots))),
        ('board_count', lambda: p_int(s.board_count)),
        ('ante_ix', lambda: p_list(str, list(s.ante_poster_indices))),
        ('blind_ix', lambda: p_list(str, list(s.blind_or_straddle_poster_indices))),
        ('runout_ix', lambda: p_list(str, list(s.runout_count_selector_indices))),
        ('kill_ix', lambda: p_list(str, list(s.hand_killing_indices))),
        ('pull_ix', lambda: p_list(str, list(s.chips_pulling_indices))),
        ('eff', lambda: p_list(lambda i: guarded(lambda: s.get_effective_stack(i), p_int), list(s.player_indices))),
        ('in_play', lambda: p_cards(s.cards_in_play)),
        ('out_play', lambda: p_cards(s.cards_not_in_play)),
        ('censored', lambda: p_list(lambda i: p_cards(s.get_censored_hole_cards(i)), list(s.player_indices))),
        ('down', lambda: p_list(lambda i: p_cards(s.get_down_cards(i)), list(s.player_indices))),
        ('up', lambda: p_list(lambda i: p_cards(s.get_up_cards(i)), list(s.player_indices))),
        ('pot_amounts', lambda: p_list(p_int, list(s.pot_amounts))),
    ]
    out = []
    for k, f in items:
        try:
            v = f()
        except Exception as e:  # noqa: BLE001
            v = exc_name(e)
        out.append(f'{k}={v}')
    return ';'.join(out)


# ---------------------------------------------------------------- logging hook
_SINK: list[list[str] | None] = [None]
_MONS: list[list] = [[]]
_orig_update = State._update


def _wrapped_update(self, operation=None):
    _orig_update(self, operation)
    if operation is not None and _SINK[0] is not None:
        _SINK[0].append('L ' + p_operation(operation))
        _SINK[0].append('D ' + digest(self))
        for m in _MONS[0]:
            m.after_log(self, operation)


State._update = _wrapped_update

# ---------------------------------------------------------------- configuration


def make_rake(num: int, den: int, cap, nfnd: bool):
    if num == 0 and cap is None and not nfnd:
        return putil.rake
    return partial(putil.rake, percentage=Fraction(num, den),
                   cap=(float('inf') if cap is None else cap), no_flop_no_drop=nfnd)


def make_divmod(chunk: int):
    if chunk <= 1:
        return putil.divmod

    def dm(a, n):
        q = (a // n) // chunk * chunk
        return q, a - q * n
    return dm


HAND_TYPES = {c.__name__: c for c in (
    phands.StandardHighHand, phands.StandardLowHand, phands.ShortDeckHoldemHand,
    phands.EightOrBetterLowHand, phands.RegularLowHand, phands.GreekHoldemHand,
    phands.OmahaHoldemHand, phands.OmahaEightOrBetterLowHand, phands.BadugiHand,
    phands.StandardBadugiHand, phands.KuhnPokerHand)}


def cfg_lines(state_kwargs: dict, extra: dict) -> list[str]:
    """Render the constructor arguments (already normalised by `build_kwargs`) as driver lines."""
    k = state_kwargs
    n = k['player_count']
    antes = putil.clean_values(k['raw_antes'], n)
    blinds = putil.clean_values(k['raw_blinds_or_straddles'], n)
    stacks = putil.clean_values(k['raw_starting_stacks'], n)
    streets = k['streets']
    lines = [
        f'n {n}',
        'mode ' + ('T' if k['mode'] == Mode.TOURNAMENT else 'C'),
        f'boards {k["starting_board_count"]}',
        'bs ' + BS[k['betting_structure']],
        'trim ' + p_bool(k['ante_trimming_status']),
        'warnerr ' + p_bool(extra.get('warnerr', False)),
        f'bringin {p_int(k["bring_in"])}',
        f'seed {extra["seed"]}',
        f'divchunk {extra.get("divchunk", 1)}',
        'rake {} {} {} {}'.format(*extra.get('rake_line', (0, 1, 'inf', 0))),
        'autos ' + ' '.join(str(AUTOS.index(a)) for a in k['automations']),
        'deck ' + ' '.join(repr(c) for c in k['deck']),
        'htypes ' + ' '.join(t.__name__ for t in k['hand_types']),
    ]
    for st in streets:
        ident = next(i for i, o in enumerate(streets) if o is st)
        hole = ''.join('U' if x else 'D' for x in st.hole_dealing_statuses) or '-'
        cap = 'none' if st.max_completion_betting_or_raising_count is None \
            else str(st.max_completion_betting_or_raising_count)
        lines.append(
            f'street {ident} {p_bool(st.card_burning_status)} {hole} {st.board_dealing_count} '
            f'{p_bool(st.draw_status)} {OPENINGS.index(st.opening)} '
            f'{p_int(st.min_completion_betting_or_raising_amount)} {cap}')
    lines.append('antes ' + ' '.join(p_int(x) for x in antes))
    lines.append('blinds ' + ' '.join(p_int(x) for x in blinds))
    lines.append('stacks ' + ' '.join(p_int(x) for x in stacks))
    if extra.get('variant'):
        lines.append('variant {} {} {}'.format(*extra['variant']))
    return lines


def kwargs_of_state(s: State) -> dict:
    """Constructor arguments recovered from a live State (for variants built by games.py)."""
    return dict(
        automations=s.automations, deck=s.deck, hand_types=s.hand_types, streets=s.streets,
        betting_structure=s.betting_structure, ante_trimming_status=s.ante_trimming_status,
        raw_antes=s.antes, raw_blinds_or_straddles=s.blinds_or_straddles, bring_in=s.bring_in,
        raw_starting_stacks=s.starting_stacks, player_count=s.player_count, mode=s.mode,
        starting_board_count=s.starting_board_count, divmod=s.divmod, rake=s.rake)


def construct(kw: dict) -> State:
    return State(
        kw['automations'], kw['deck'], kw['hand_types'], kw['streets'], kw['betting_structure'],
        kw['ante_trimming_status'], kw['raw_antes'], kw['raw_blinds_or_straddles'], kw['bring_in'],
        kw['raw_starting_stacks'], kw['player_count'], mode=kw['mode'],
        starting_board_count=kw['starting_board_count'], divmod=kw['divmod'], rake=kw['rake'])


class Session:
    """One hand on the real implementation, producing the expected driver output."""

    def __init__(self, kw: dict, extra: dict, monitors=()):
        self.monitors = list(monitors)
        self.nlog_before = 0
        self.kw = kw
        self.extra = extra
        self.warnerr = bool(extra.get('warnerr', False))
        self.script: list[str] = []
        self.expect: list[str] = []
        self.state: State | None = None
        self.nops = 0
        self.script += cfg_lines(kw, extra)

    # -- running something under the warning regime, recording log/digest lines
    def _run(self, f):
        _SEED[0] = self.extra['seed']
        sink: list[str] = []
        _SINK[0] = sink
        _MONS[0] = self.monitors
        err = None
        warned = False
        try:
            with warnings.catch_warnings(record=True) as rec:
                warnings.simplefilter('error' if self.warnerr else 'always')
                try:
                    res = f()
                except Exception as e:  # noqa: BLE001
                    err = e
                    res = None
                warned = len(rec) > 0
        finally:
            _SINK[0] = None
            _MONS[0] = []
        return res, err, warned, sink

    def init(self):
        self.script.append('init')
        res, err, warned, sink = self._run(lambda: construct(self.kw))
        self.expect += sink
        if err is not None:
            self.expect.append('R err ' + type(err).__name__)
            # the partially constructed object is not observable: the model prints its digest,
            # the harness only compares the `R` line for a refused construction
            self.expect.append('D *')
            self.expect.append('.')
            self.state = None
            for m in self.monitors:
                m.after_init(self, err)
            return err
        self.state = res
        self._finish(None, warned, True)
        for m in self.monitors:
            m.after_init(self, None)
        return None

    def _finish(self, err, warned, with_q):
        s = self.state
        if err is not None:
            self.expect.append('R err ' + type(err).__name__)
        else:
            self.expect.append('R warn' if warned else 'R ok')
        self.expect.append('D ' + digest(s))
        if with_q:
            _SEED[0] = self.extra['seed']
            with warnings.catch_warnings():
                warnings.simplefilter('error' if self.warnerr else 'ignore')
                self.expect.append('Q ' + queries(s))
        self.expect.append('.')

    def op(self, line: str, valid: bool = False):
        """`line` is the driver op text, e.g. 'cbr 120' or 'deal_hole AsKd 2'."""
        s = self.state
        self.script.append('op ' + line)
        self.nlog_before = len(s.operations)
        for m in self.monitors:
            m.before_op(self, line)
        res, err, warned, sink = self._run(lambda: call_op(s, line))
        self.expect += sink
        self.last_warned = warned
        self._finish(err, warned, True)
        for m in self.monitors:
            m.after_op(self, line, err, valid)
        return err

    def phh(self, game, compress: bool):
        """the action lines HandHistory.from_game_state writes for the log so far (model: `phh`)"""
        from pokerkit import HandHistory
        self.script.append(f'phh {int(compress)}')
        with warnings.catch_warnings():
            warnings.simplefilter('ignore')
            hh = HandHistory.from_game_state(game, self.state, compression_status=compress)
        self.expect.append('H ' + '|'.join(hh.actions))

    def can(self, line: str):
        s = self.state
        self.script.append('can ' + line)
        _SEED[0] = self.extra['seed']
        with warnings.catch_warnings():
            warnings.simplefilter('error' if self.warnerr else 'ignore')
            try:
                v = p_bool(call_can(s, line))
            except Exception as e:  # noqa: BLE001
                v = exc_name(e)
        self.expect.append('C ' + v)
        return v


def _opt_int(t):
    return None if t == '-' else int(t)


def _shaped(t, salt=''):
    """the cards `t` names, in one of the documented `CardsLike` shapes (a string, a tuple, a list, a
    one-shot iterator, a bare Card) — chosen from the text alone, so that a replay makes the same
    choice; a fresh object on every call, so that an iterator is never shared between the query, the
    verifier and the operation"""
    if os.environ.get('VERIF_PLAIN_CARDS'):
        return t
    k = zlib.crc32((salt + t).encode()) % 6
    try:
        cards = tuple(Card.parse(t))
    except Exception:  # noqa: BLE001  not parseable: the string itself is the argument
        return t
    if k == 1:
        return cards
    if k == 2:
        return list(cards)
    if k == 3:
        return iter(cards)
    if k == 4:
        return Card.parse(t)
    if k == 5 and len(cards) == 1:
        return cards[0]
    return t


def _cards_arg(t):
    if t == '-':
        return None
    if t.startswith('#'):
        return int(t[1:])
    if t == '=':
        return ()
    return _shaped(t)


def _show_arg(t):
    if t == '-':
        return None
    if t == 'T':
        return True
    if t == 'F':
        return False
    if t == '=':
        return ()
    return _shaped(t, 'show')


def call_op(s: State, line: str):
    t = line.split(' ')
    name = t[0]
    if name == 'post_ante':
        return s.post_ante(_opt_int(t[1]))
    if name == 'collect_bets':
        return s.collect_bets()
    if name == 'post_blind':
        return s.post_blind_or_straddle(_opt_int(t[1]))
    if name == 'burn':
        return s.burn_card(_cards_arg(t[1]))
    if name == 'deal_hole':
        return s.deal_hole(_cards_arg(t[1]), _opt_int(t[2]))
    if name == 'deal_board':
        return s.deal_board(_cards_arg(t[1]))
    if name == 'draw':
        return s.stand_pat_or_discard(() if t[1] in ('-', '=') else _shaped(t[1], 'draw'))
    if name == 'fold':
        return s.fold()
    if name == 'call':
        return s.check_or_call()
    if name == 'bring_in':
        return s.post_bring_in()
    if name == 'cbr':
        return s.complete_bet_or_raise_to(_opt_int(t[1]))
    if name == 'runout':
        return s.select_runout_count(_opt_int(t[1]), _opt_int(t[2]))
    if name == 'show':
        return s.show_or_muck_hole_cards(_show_arg(t[1]), _opt_int(t[2]))
    if name == 'kill':
        return s.kill_hand(_opt_int(t[1]))
    if name == 'push':
        return s.push_chips()
    if name == 'pull':
        return s.pull_chips(_opt_int(t[1]))
    if name == 'noop':
        return s.no_operate()
    raise KeyError(name)


def call_can(s: State, line: str):
    t = line.split(' ')
    name = t[0]
    if name == 'post_ante':
        return s.can_post_ante(_opt_int(t[1]))
    if name == 'collect_bets':
        return s.can_collect_bets()
    if name == 'post_blind':
        return s.can_post_blind_or_straddle(_opt_int(t[1]))
    if name == 'burn':
        return s.can_burn_card(_cards_arg(t[1]))
    if name == 'deal_hole':
        return s.can_deal_hole(_cards_arg(t[1]), _opt_int(t[2]))
    if name == 'deal_board':
        return s.can_deal_board(_cards_arg(t[1]))
    if name == 'draw':
        return s.can_stand_pat_or_discard(() if t[1] in ('-', '=') else _shaped(t[1], 'draw'))
    if name == 'fold':
        return s.can_fold()
    if name == 'call':
        return s.can_check_or_call()
    if name == 'bring_in':
        return s.can_post_bring_in()
    if name == 'cbr':
        return s.can_complete_bet_or_raise_to(_opt_int(t[1]))
    if name == 'runout':
        return s.can_select_runout_count(_opt_int(t[1]), _opt_int(t[2]))
    if name == 'show':
        return s.can_show_or_muck_hole_cards(_show_arg(t[1]), _opt_int(t[2]))
    if name == 'kill':
        return s.can_kill_hand(_opt_int(t[1]))
    if name == 'push':
        return s.can_push_chips()
    if name == 'pull':
        return s.can_pull_chips(_opt_int(t[1]))
    if name == 'noop':
        return s.can_no_operate()
    raise KeyError(name)


# ---------------------------------------------------------------- replay of a stored script
def kw_from_script(lines: list[str]):
    """Rebuild the State constructor arguments and the `extra` dict from driver cfg lines."""
    from pokerkit import Deck  # noqa: F401
    d: dict = {'streets': []}
    extra: dict = {}
    rake_t = (0, 1, None, False)
    objs: dict[int, Street] = {}
    for ln in lines:
        t = ln.split(' ')
        k = t[0]
        if k == 'n':
            d['player_count'] = int(t[1])
        elif k == 'mode':
            d['mode'] = Mode.TOURNAMENT if t[1] == 'T' else Mode.CASH_GAME
        elif k == 'boards':
            d['starting_board_count'] = int(t[1])
        elif k == 'bs':
            d['betting_structure'] = {v: kk for kk, v in BS.items()}[t[1]]
        elif k == 'trim':
            d['ante_trimming_status'] = t[1] == '1'
        elif k == 'warnerr':
            extra['warnerr'] = t[1] == '1'
        elif k == 'bringin':
            d['bring_in'] = int(t[1])
        elif k == 'seed':
            extra['seed'] = int(t[1])
        elif k == 'divchunk':
            extra['divchunk'] = int(t[1])
        elif k == 'rake':
            rake_t = (int(t[1]), int(t[2]), None if t[3] == 'inf' else int(t[3]), t[4] == '1')
            extra['rake_line'] = (t[1], t[2], t[3], t[4])
        elif k == 'autos':
            d['automations'] = tuple(AUTOS[int(x)] for x in t[1:] if x != '')
        elif k == 'deck':
            d['deck'] = tuple(c for x in t[1:] for c in Card.parse(x))
        elif k == 'htypes':
            d['hand_types'] = tuple(HAND_TYPES[x] for x in t[1:] if x != '')
        elif k == 'street':
            ident = int(t[1])
            if ident in objs and len(d['streets']) > ident:
                d['streets'].append(objs[ident])
            else:
                st = Street(t[2] == '1', tuple(c == 'U' for c in t[3]) if t[3] != '-' else (),
                            int(t[4]), t[5] == '1', OPENINGS[int(t[6])], int(t[7]),
                            None if t[8] == 'none' else int(t[8]))
                objs[len(d['streets'])] = st
                d['streets'].append(st)
        elif k == 'antes':
            d['raw_antes'] = tuple(int(x) for x in t[1:] if x != '')
        elif k == 'blinds':
            d['raw_blinds_or_straddles'] = tuple(int(x) for x in t[1:] if x != '')
        elif k == 'stacks':
            d['raw_starting_stacks'] = tuple(int(x) for x in t[1:] if x != '')
        elif k == 'variant':
            extra['variant'] = (t[1], int(t[2]), int(t[3]))
    d['streets'] = tuple(d['streets'])
    d['rake'] = make_rake(*rake_t)
    d['divmod'] = make_divmod(extra.get('divchunk', 1))
    return d, extra


def replay_script(lines: list[str], monitors=(), valid_flags=None):
    """Run a stored script (cfg lines, `init`, `op …`, `can …`) on the implementation."""
    kw, extra = kw_from_script(lines)
    sess = Session(kw, extra, monitors)
    sess.script = [ln for ln in lines if not ln.startswith(('op ', 'can ', 'init', 'case '))]
    k = 0
    for ln in lines:
        if ln == 'init':
            if sess.init() is not None:
                break
        elif ln.startswith('op '):
            v = bool(valid_flags[k]) if valid_flags is not None and k < len(valid_flags) else False
            k += 1
            e = sess.op(ln[3:], valid=v)
            if e is not None and type(e).__name__ not in ('ValueError', 'UserWarning'):
                sess.crashed = True
                break
        elif ln.startswith('can '):
            sess.can(ln[4:])
    for m in sess.monitors:
        m.at_end(sess)
    return sess
