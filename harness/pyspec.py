"""Independent statements of the rules (python transcription of lean/PK/Spec/Ranking.lean and
lean/PK/Spec/Showdown.lean): hand ranking from first principles — multiplicity profile,
straight / flush tests with the per-game ace convention, kickers — and the award of pots.
Nothing here imports pokerkit's evaluator."""
from __future__ import annotations

from collections import Counter
from itertools import combinations

RANK_CHARS = 'A23456789TJQK'


def parse(cards) -> list[tuple[str, str]]:
    """'AsKd' or iterable of card objects -> [(rank_char, suit_char)]"""
    if isinstance(cards, str):
        s = cards.replace('10', 'T').replace(',', '').replace(' ', '')
        return [(s[i], s[i + 1]) for i in range(0, len(s), 2)]
    return [(str(c.rank.value), str(c.suit.value)) for c in cards]


def val(rank: str, ace_high: bool) -> int:
    if rank == 'A':
        return 14 if ace_high else 1
    return RANK_CHARS.index(rank) + 1


# --------------------------------------------------------------------------- five-card keys
def standard_key(cards, short_deck=False):
    """Category and kickers of five cards under the standard (or short-deck) rules.
    Higher is stronger.  None if not five known cards."""
    if len(cards) != 5 or any(r == '?' or s == '?' for r, s in cards):
        return None
    vs = sorted((val(r, True) for r, _ in cards), reverse=True)
    cnt = Counter(vs)
    groups = sorted(cnt.items(), key=lambda kv: (kv[1], kv[0]), reverse=True)
    shape = tuple(c for _, c in groups)
    kick = tuple(v for v, _ in groups)
    flush = len({s for _, s in cards}) == 1
    distinct = len(cnt) == 5
    top = None
    if distinct:
        if vs[0] - vs[4] == 4:
            top = vs[0]
        elif not short_deck and vs == [14, 5, 4, 3, 2]:
            top = 5
        elif short_deck and vs == [14, 9, 8, 7, 6]:
            top = 9
    # categories, weakest to strongest
    if short_deck:
        order = ['hc', '1p', '2p', '3k', 'st', 'fh', 'fl', '4k', 'sf']
    else:
        order = ['hc', '1p', '2p', '3k', 'st', 'fl', 'fh', '4k', 'sf']
    if top is not None and flush:
        cat, kick = 'sf', (top,)
    elif shape == (4, 1):
        cat = '4k'
    elif shape == (3, 2):
        cat = 'fh'
    elif flush:
        cat = 'fl'
    elif top is not None:
        cat, kick = 'st', (top,)
    elif shape == (3, 1, 1):
        cat = '3k'
    elif shape == (2, 2, 1):
        cat = '2p'
    elif shape == (2, 1, 1, 1):
        cat = '1p'
    else:
        cat = 'hc'
    return (order.index(cat),) + kick


def neg(key):
    return None if key is None else tuple(-x for x in key)


def regular_low_key(cards):
    """Ace-to-five low (razz): ace low, straights and flushes do not count; lower is better,
    returned negated so that higher is stronger."""
    if len(cards) != 5 or any(r == '?' or s == '?' for r, s in cards):
        return None
    vs = [val(r, False) for r, _ in cards]
    cnt = Counter(vs)
    groups = sorted(cnt.items(), key=lambda kv: (kv[1], kv[0]), reverse=True)
    shape = tuple(c for _, c in groups)
    cat = {(1, 1, 1, 1, 1): 0, (2, 1, 1, 1): 1, (2, 2, 1): 2, (3, 1, 1): 3, (3, 2): 4, (4, 1): 5}.get(shape)
    if cat is None:
        return None
    return neg((cat,) + tuple(v for v, _ in groups))


def eight_or_better_key(cards):
    if len(cards) != 5 or any(r == '?' or s == '?' for r, s in cards):
        return None
    vs = sorted((val(r, False) for r, _ in cards), reverse=True)
    if len(set(vs)) != 5 or vs[0] > 8:
        return None
    return neg(tuple(vs))


def badugi_key(cards, ace_high=False):
    if not 1 <= len(cards) <= 4 or any(r == '?' or s == '?' for r, s in cards):
        return None
    if len({r for r, _ in cards}) != len(cards) or len({s for _, s in cards}) != len(cards):
        return None
    vs = sorted((val(r, ace_high) for r, _ in cards), reverse=True)
    return (len(cards),) + neg(tuple(vs))


def kuhn_key(cards):
    if len(cards) != 1 or cards[0][0] not in 'JQK':
        return None
    return ('JQK'.index(cards[0][0]),)


FIVE = {
    'StandardHighHand': lambda c: standard_key(c),
    'StandardLowHand': lambda c: neg(standard_key(c)),
    'ShortDeckHoldemHand': lambda c: standard_key(c, short_deck=True) if all(r in '6789TJQKA' for r, _ in c) else None,
    'EightOrBetterLowHand': eight_or_better_key,
    'RegularLowHand': regular_low_key,
    'GreekHoldemHand': lambda c: standard_key(c),
    'OmahaHoldemHand': lambda c: standard_key(c),
    'OmahaEightOrBetterLowHand': eight_or_better_key,
}


def hand_key(type_name: str, cards):
    """Key of an exact hand (the cards a `Hand(cards)` constructor receives); None = not a hand."""
    cards = parse(cards)
    if type_name in FIVE:
        return FIVE[type_name](cards)
    if type_name == 'BadugiHand':
        return badugi_key(cards, False)
    if type_name == 'StandardBadugiHand':
        return badugi_key(cards, True)
    if type_name == 'KuhnPokerHand':
        return kuhn_key(cards)
    raise KeyError(type_name)


def legal_combos(type_name: str, hole, board):
    hole, board = list(hole), list(board)
    if type_name in ('OmahaHoldemHand', 'OmahaEightOrBetterLowHand'):
        for h in combinations(hole, 2):
            for b in combinations(board, 3):
                yield list(h) + list(b)
    elif type_name == 'GreekHoldemHand':
        # both hole cards plus three board cards (stated for exactly two hole cards)
        for b in combinations(board, 3):
            for c in combinations(hole + list(b), 5):
                yield list(c)
    elif type_name in ('BadugiHand', 'StandardBadugiHand'):
        for k in (4, 3, 2, 1):
            for c in combinations(hole + board, k):
                yield list(c)
    elif type_name == 'KuhnPokerHand':
        for c in hole + board:
            yield [c]
    else:
        for c in combinations(hole + board, 5):
            yield list(c)


def best_key(type_name: str, hole, board):
    """Strength of the best hand the game lets a player form; None when there is none."""
    hole, board = parse(hole), parse(board)
    best = None
    for combo in legal_combos(type_name, hole, board):
        if type_name in FIVE:
            k = FIVE[type_name](combo)
        elif type_name == 'BadugiHand':
            k = badugi_key(combo, False)
        elif type_name == 'StandardBadugiHand':
            k = badugi_key(combo, True)
        else:
            k = kuhn_key(combo)
        if k is not None and (best is None or k > best):
            best = k
    return best


# --------------------------------------------------------------------------- exposed (stud) hands
def exposed_key(cards, ace_high: bool):
    """Rank of 1-4 exposed cards [(rank, suit)] in stud games: four of a kind > three of a kind >
    two pair > one pair > no pair, then the ranks of the groups, largest group first; straights and
    flushes do not count.  Higher is stronger."""
    vs = [val(r, ace_high) for r, _ in cards]
    cnt = Counter(vs)
    groups = sorted(cnt.items(), key=lambda kv: (kv[1], kv[0]), reverse=True)
    shape = tuple(c for _, c in groups)
    if shape[0] == 4:
        cat = 4
    elif shape[0] == 3:
        cat = 3
    elif shape[:2] == (2, 2):
        cat = 2
    elif shape[0] == 2:
        cat = 1
    else:
        cat = 0
    return (cat,) + tuple(v for v, _ in groups)
