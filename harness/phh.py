"""C16 — PHH save / load round trip and replay.

* correspondence with the Lean model of the action layer (lean/PK/Model/Notation.lean): the action
  lines `HandHistory.from_game_state` writes for the operation log of every generated hand (with and
  without compression) are compared with `pkdriver phh`, and `parse_action` (run against a recording
  stand-in for the state) with `pkdriver parseline` on written and on malformed lines;
* the property itself on the implementation, for every generated hand of the eleven PHH variants:
  dumps -> loads gives an equal HandHistory and the same text again (with string metadata and
  user-defined fields drawn from a nasty alphabet, nested lists / tables, ints, bools); replaying
  the loaded history reproduces the players' actions, hole and board cards, final stacks and
  payoffs; a history with an inapplicable extra action raises ValueError instead of stopping early.
"""
from __future__ import annotations

import inspect
import os
import random
import warnings

import impl
from monitors import Monitor, REFUSALS

NASTY = "abcXYZ019 '\"\\#[]={},.é\t:-_/"


def game_of(sess):
    """the game object the hand was created from (class name and bet sizes travel in `extra`)"""
    v = sess.extra.get('variant')
    if not v:
        return None
    from pokerkit import games as g
    cls = getattr(g, v[0], None)
    if cls is None:
        return None
    kw = sess.kw
    params = list(inspect.signature(cls.__init__).parameters)
    args = [kw['automations'], kw['ante_trimming_status'], kw['raw_antes']]
    args.append(kw['bring_in'] if 'bring_in' in params else kw['raw_blinds_or_straddles'])
    args += [v[1]] if 'min_bet' in params else [v[1], v[2]]
    return cls(*args, mode=kw['mode'], starting_board_count=kw['starting_board_count'], divmod=kw['divmod'], rake=kw['rake'])


def rand_text(rng, n=None):
    n = rng.randint(0, 12) if n is None else n
    return ''.join(rng.choice(NASTY) for _ in range(n))


def rand_value(rng, depth=0):
    k = rng.choice(['int', 'str', 'bool', 'str', 'list', 'dict'] if depth < 2 else ['int', 'str', 'bool'])
    if k == 'int':
        return rng.randint(-5, 10 ** rng.randint(0, 9))
    if k == 'bool':
        return rng.random() < 0.5
    if k == 'str':
        return rand_text(rng)
    if k == 'list':
        kind = rng.choice(['int', 'str'])
        return [rng.randint(0, 99) if kind == 'int' else rand_text(rng) for _ in range(rng.randint(0, 4))]
    return {('k' + str(i)): rand_value(rng, depth + 1) for i in range(rng.randint(0, 3))}


class C16Phh(Monitor):
    prop = 'C16'

    def __init__(self):
        super().__init__()
        self.ok = True

    def after_init(self, sess, err):
        if err is not None or sess.state is None:
            self.ok = False

    def after_op(self, sess, line, err, valid):
        if err is not None and (type(err).__name__ not in REFUSALS or len(sess.state.operations) > sess.nlog_before):
            self.ok = False

    def at_end(self, sess):
        from pokerkit import HandHistory
        s = sess.state
        if s is None or not self.ok:
            return
        game = game_of(sess)
        if game is None or type(game) not in HandHistory.variants:
            return
        rng = random.Random(sess.extra['seed'] * 7919 + len(s.operations))
        kwargs = {}
        for name in ('author', 'event', 'venue', 'city', 'currency_symbol'):
            if rng.random() < 0.5:
                kwargs[name] = rand_text(rng)
        if rng.random() < 0.5:
            kwargs['players'] = [rand_text(rng, rng.randint(1, 8)) for _ in range(s.player_count)]
        if rng.random() < 0.4:
            kwargs['hand'] = rng.choice([rng.randint(1, 10 ** 6), rand_text(rng)])
        if rng.random() < 0.3:
            kwargs['finishing_stacks'] = list(s.stacks)
        udf = {('_' + 'uf' + str(i)): rand_value(rng) for i in range(rng.randint(0, 3))}
        with warnings.catch_warnings():
            warnings.simplefilter('ignore')
            try:
                hh = HandHistory.from_game_state(game, s, compression_status=rng.random() < 0.7, **kwargs, **udf)
            except Exception as ex:  # noqa: BLE001
                self.report('roundtrip', 'from_game_state_raises', f'from_game_state: {type(ex).__name__}: {ex}')
                return
            # -- save / load ---------------------------------------------------------------------
            try:
                text = hh.dumps()
                hh2 = HandHistory.loads(text)
                text2 = hh2.dumps()
            except Exception as ex:  # noqa: BLE001
                def strings(x):
                    if isinstance(x, str):
                        yield x
                    elif isinstance(x, dict):
                        for k_, v_ in x.items():
                            yield from strings(v_)
                    elif isinstance(x, list):
                        for v_ in x:
                            yield from strings(v_)
                triple = any("'''" in t for t in strings([kwargs, udf]))
                self.report('roundtrip', 'loads_raises:triple_apostrophe' if triple else f'loads_raises:{type(ex).__name__}',
                            f'dumps/loads: {type(ex).__name__}: {ex}; fields {kwargs} {udf}')
                return
            if hh2 != hh:
                import dataclasses
                diff = [f.name for f in dataclasses.fields(hh) if getattr(hh, f.name) != getattr(hh2, f.name)]

                def strings2(x):
                    if isinstance(x, str):
                        yield x
                    elif isinstance(x, dict):
                        for v_ in x.values():
                            yield from strings2(v_)
                    elif isinstance(x, list):
                        for v_ in x:
                            yield from strings2(v_)
                triple = any("'''" in t for t in strings2([kwargs, udf]))
                self.report('roundtrip', 'loads_differs:' + ('triple_apostrophe' if triple else ','.join(diff[:3])),
                            f'loads(dumps(h)) differs from h in {diff}: ' + '; '.join(f'{n}: {getattr(hh, n)!r} -> {getattr(hh2, n)!r}' for n in diff[:3]))
            if text2 != text:
                def strings3(x):
                    if isinstance(x, str):
                        yield x
                    elif isinstance(x, dict):
                        for v_ in x.values():
                            yield from strings3(v_)
                    elif isinstance(x, list):
                        for v_ in x:
                            yield from strings3(v_)
                # a field cut short at `'''` (finding F16) is of course written differently the second time
                triple3 = any("'''" in t for t in strings3([kwargs, udf]))
                self.report('roundtrip', 'dumps_not_idempotent' + (':triple_apostrophe' if triple3 else ''),
                            'saving the loaded history gives a different text')
            # -- replay ----------------------------------------------------------------------------
            self._replay(sess, s, hh2, game)

    def _replay(self, sess, s, hh, game):
        from pokerkit import HandHistory
        kw = sess.kw
        # what the format carries: one board, no explicit run-out counts; chips additionally need the
        # default divmod and no rake (neither is written to the file)
        chips_plain = (sess.extra.get('divchunk', 1) <= 1 and tuple(sess.extra.get('rake_line', (0, 1, 'inf', 0)))[0] in (0, '0'))
        plain = (kw['starting_board_count'] == 1
                 and not any(type(o).__name__ == 'RunoutCountSelection' and o.runout_count is not None for o in s.operations))
        names = [type(o).__name__ for o in s.operations]
        first_deal = names.index('HoleDealing') if 'HoleDealing' in names else len(names)
        early_show = 'HoleCardsShowingOrMucking' in names[:first_deal]
        final, applied = None, 0
        try:
            for final, act in hh.state_actions:
                applied += act is not None
        except Exception as ex:  # noqa: BLE001
            if s.status and applied >= len(hh.actions):
                # the played hand was not finished; every recorded action has been re-applied and the failure
                # happened while the replay was completing the hand on its own: the engine's business (C07)
                ex = None
            unknown_dealt = any(type(o).__name__ in ('HoleDealing', 'BoardDealing') and not all(o.cards) for o in s.operations)
            if ex is None:
                pass
            elif isinstance(ex, KeyError) and unknown_dealt:
                # an unknown card where the engine needs to rank cards (stud openers, showdown): the engine's
                # own limitation with unknown cards (C07's quantifier excludes it), not a matter of the format
                return
            elif plain:
                self.report('replay', ('show_before_deal:' if early_show else '') + f'replay_raises:{type(ex).__name__}',
                            f'replaying the loaded history raises {type(ex).__name__}: {ex}'
                            + (' (a show/muck was accepted before any card was dealt and is written as `pN sm`)' if early_show else ''))
            if ex is not None:
                return
        if early_show:
            return
        if not plain or final is None:
            return

        def player_ops(st):
            out = []
            for o in st.operations:
                n = type(o).__name__
                if n in ('HoleDealing', 'BoardDealing', 'StandingPatOrDiscarding', 'BringInPosting', 'Folding',
                         'CheckingOrCalling', 'CompletionBettingOrRaisingTo', 'HoleCardsShowingOrMucking'):
                    d = {k: v for k, v in vars(o).items() if k != 'commentary'}
                    if n == 'HoleDealing':
                        d.pop('statuses', None)
                    out.append((n, tuple(sorted((k, repr(v)) for k, v in d.items()))))
            return out

        a, b = player_ops(s), player_ops(final)
        dealt = lambda ops, who: [dict(d)['cards'] for n, d in ops if n == 'HoleDealing' and dict(d)['player_index'] == repr(who)]  # noqa: E731
        acts = lambda ops: [(n, d) for n, d in ops if n not in ('HoleDealing', 'BoardDealing')]  # noqa: E731
        played, replayed = acts(a), acts(b)
        if s.status:
            # an unfinished hand: the replay completes it in the documented way, so what was played
            # must be the beginning of what is replayed
            replayed = replayed[:len(played)]
        if played != replayed:
            k = next((i for i, (x, y) in enumerate(zip(acts(a), acts(b))) if x != y), min(len(acts(a)), len(acts(b))))
            self.report('replay', 'actions_differ', f'replayed actions differ at #{k}: played {acts(a)[k:k + 1]}, replayed {acts(b)[k:k + 1]} '
                        f'({len(acts(a))} vs {len(acts(b))} actions)')
            return
        if not s.status:
            if [list(h) for h in s.hole_cards] != [list(h) for h in final.hole_cards] and \
                    [sorted(map(repr, h)) for h in s.hole_cards] != [sorted(map(repr, h)) for h in final.hole_cards]:
                self.report('replay', 'hole_cards_differ', f'hole cards played {s.hole_cards}, replayed {final.hole_cards}')
            if [list(x) for x in s.board_cards] != [list(x) for x in final.board_cards]:
                self.report('replay', 'board_differs', f'board played {s.board_cards}, replayed {final.board_cards}')
            # a voluntary show that replaces a player's cards by others (accepted past a dealability warning) while
            # the pots are being pushed one by one decides the later pots with the new cards; the replay pushes all
            # pots before it comes to that line - not something the format can say
            from collections import Counter as _C
            dealt_to, pushing, rewrote = {}, False, False
            for o in s.operations:
                n_ = type(o).__name__
                if n_ == 'HoleDealing':
                    dealt_to.setdefault(o.player_index, _C()).update(c for c in o.cards if c)
                elif n_ == 'ChipsPushing':
                    pushing = True
                elif n_ == 'HoleCardsShowingOrMucking' and pushing and o.hole_cards:
                    if _C(c for c in o.hole_cards if c) - dealt_to.get(o.player_index, _C()):
                        rewrote = True
            if chips_plain and not rewrote and (list(s.stacks) != list(final.stacks) or list(s.payoffs) != list(final.payoffs) or final.status):
                self.report('replay', 'stacks_differ', f'final stacks played {list(s.stacks)} payoffs {list(s.payoffs)}, replayed '
                            f'{list(final.stacks)} payoffs {list(final.payoffs)} (status {final.status})')
            # a history that cannot be applied must be reported, not silently cut short
            try:
                bad = HandHistory.loads(hh.dumps())
            except Exception:  # noqa: BLE001  (already reported by the round-trip clause)
                return
            bad.actions = list(bad.actions) + ['p1 cbr 7']
            try:
                for _ in bad:
                    pass
                self.report('no_truncation', 'extra_action_ignored', 'a history with an inapplicable extra action `p1 cbr 7` after the end was replayed without error')
            except ValueError:
                pass
            except Exception as ex:  # noqa: BLE001
                self.report('no_truncation', f'extra_action_crash:{type(ex).__name__}', f'inapplicable extra action: {type(ex).__name__} instead of ValueError')



# ------------------------------------------------------------------------------------------------
# commentary strings (part of C16's quantifier; the lock-step stream plays without commentary)
COMMENT_ALPHABET = ['a', 'b', 'Z', '7', ' ', ' ', '  ', '#', "'", '"', '\\', '\t', 'é', '☃', ',', ':', '=', '[', ']', '-']


def _gen_comment(rng):
    k = rng.choice([0, 1, 2, 3, 5, 9])
    t = ''.join(rng.choice(COMMENT_ALPHABET) for _ in range(k))
    return t.replace("'''", "''")       # three apostrophes in a row: recorded finding F16


def play_commented(seed):
    """a short no-limit hold'em hand whose player actions carry commentary; returns (game, state, comments)"""
    import random
    from pokerkit import Automation, NoLimitTexasHoldem
    rng = random.Random(seed)
    autos = tuple(a for a in Automation if a != Automation.HOLE_CARDS_SHOWING_OR_MUCKING)
    n = rng.randint(2, 4)
    game = NoLimitTexasHoldem(autos, True, 0, (1, 2), 2)
    s = game(rng.choice([40, 200]), n)
    comments = []
    guard = 0
    with warnings.catch_warnings():
        warnings.simplefilter('ignore')
        while s.status and guard < 60:
            guard += 1
            c = _gen_comment(rng) if rng.random() < 0.7 else None
            if s.can_show_or_muck_hole_cards():
                o = s.show_or_muck_hole_cards(True, commentary=c)
            elif s.actor_index is not None:
                r = rng.random()
                if r < 0.15 and s.can_fold():
                    o = s.fold(commentary=c)
                elif r < 0.4 and s.can_complete_bet_or_raise_to():
                    o = s.complete_bet_or_raise_to(commentary=c)
                else:
                    o = s.check_or_call(commentary=c)
            else:
                break
            comments.append((type(o).__name__, c))
    return game, s, comments


def commentary_violations(seed):
    """[(signature, detail)] for one commented hand: saving, loading and replaying keeps every commentary
    (up to the trailing blanks the writer drops)"""
    from pokerkit import HandHistory
    game, s, comments = play_commented(seed)
    out = []
    want = [(n, None if c is None else c.rstrip()) for n, c in comments]
    try:
        with warnings.catch_warnings():
            warnings.simplefilter('ignore')
            hh = HandHistory.from_game_state(game, s)
            text = hh.dumps()
            hh2 = HandHistory.loads(text)
            again = hh2.dumps()
            final = list(hh2)[-1]
    except Exception as ex:  # noqa: BLE001
        return [(f'commentary:raises:{type(ex).__name__}', f'seed {seed}: {type(ex).__name__}: {ex}; commentary {comments}')]
    if again != text:
        out.append(('commentary:resave_differs', f'seed {seed}: saving the loaded history again changes the text; commentary {comments}'))
    names = {n for n, _ in comments}
    got = [(type(o).__name__, o.commentary) for o in final.operations if type(o).__name__ in names][:len(want)]
    norm = lambda l: [(n, (c or None)) for n, c in l]  # noqa: E731   ('' and None are written alike)
    if norm(got) != norm(want):
        k = next((i for i, (x, y) in enumerate(zip(norm(got), norm(want))) if x != y), min(len(got), len(want)))
        out.append(('commentary:replay_differs', f'seed {seed}: commentary of action #{k} played {want[k:k + 1]!r}, replayed {got[k:k + 1]!r}'))
    return out


def check_commentary(seed, count):
    viols = []
    for i in range(count):
        for sig, detail in commentary_violations(seed * 100003 + i):
            viols.append(dict(property='C16', clause='commentary', signature=sig, detail=detail,
                              script=[], valid=[], meta={'commentary_seed': seed * 100003 + i}))
    return dict(count=count, viols=viols)


# ------------------------------------------------------------------------------------------------
# decimal chip values (part of C16's quantifier; the lock-step stream plays with whole chips, the model being
# over the integers): hands with Decimal chips, dealt so that ties and hi/lo splits are frequent, are saved,
# loaded and replayed; the replay must end with the very same stacks and payoffs
def play_decimal(seed):
    """(game, state) for one finished hand with decimal chips, or None"""
    import random
    from decimal import Decimal as D
    from pokerkit import (Automation, FixedLimitOmahaHoldemHighLowSplitEightOrBetter, NoLimitTexasHoldem,
                          FixedLimitSevenCardStudHighLowSplitEightOrBetter, PotLimitOmahaHoldem)
    rng = random.Random(seed)
    unit = rng.choice([D('0.05'), D('0.25'), D('0.5'), D('0.01'), D('2.5')])
    autos = tuple(a for a in Automation if a not in (Automation.HOLE_DEALING, Automation.HOLE_CARDS_SHOWING_OR_MUCKING))
    n = rng.randint(2, 4)
    kind = rng.choice(['NT', 'NT', 'FO8', 'PO', 'F7S8'])
    stacks = [unit * rng.randint(30, 400) for _ in range(n)]
    ante = rng.choice([0, 0, unit])
    if kind == 'NT':
        game = NoLimitTexasHoldem(autos, True, ante, (unit, 2 * unit), 2 * unit)
    elif kind == 'PO':
        game = PotLimitOmahaHoldem(autos, True, ante, (unit, 2 * unit), 2 * unit)
    elif kind == 'FO8':
        game = FixedLimitOmahaHoldemHighLowSplitEightOrBetter(autos, True, ante, (unit, 2 * unit), 2 * unit, 4 * unit)
    else:
        game = FixedLimitSevenCardStudHighLowSplitEightOrBetter(autos, True, unit, unit, 2 * unit, 4 * unit)
    with warnings.catch_warnings():
        warnings.simplefilter('ignore')
        try:
            s = game(stacks, n)
        except Exception:  # noqa: BLE001
            return None
        mirror = rng.random() < 0.5 and kind in ('NT',)
        guard = 0
        while s.status and guard < 400:
            guard += 1
            try:
                if s.can_deal_hole():
                    if mirror and kind == 'NT':
                        # the same ranks in other suits: the board plays or the hands tie
                        i = s.hole_dealee_index
                        suits = 'cdhs'
                        s.deal_hole(f'K{suits[i % 4]}Q{suits[(i + 1) % 4]}')
                    else:
                        s.deal_hole()
                elif s.can_show_or_muck_hole_cards():
                    s.show_or_muck_hole_cards(True)
                elif s.actor_index is not None:
                    r = rng.random()
                    if r < 0.08 and s.can_fold() and sum(s.statuses) > 2:
                        s.fold()
                    elif r < 0.30 and s.can_complete_bet_or_raise_to():
                        lo = s.min_completion_betting_or_raising_to_amount
                        hi = s.max_completion_betting_or_raising_to_amount
                        s.complete_bet_or_raise_to(rng.choice([lo, hi, lo]))
                    elif s.can_post_bring_in() and r < 0.8:
                        s.post_bring_in()
                    elif s.can_check_or_call():
                        s.check_or_call()
                    else:
                        s.complete_bet_or_raise_to()
                else:
                    break
            except Exception:  # noqa: BLE001
                return None
    if s.status:
        return None
    return game, s


def decimal_violations(seed):
    from pokerkit import HandHistory
    r = play_decimal(seed)
    if r is None:
        return None
    game, s = r
    try:
        with warnings.catch_warnings():
            warnings.simplefilter('ignore')
            hh = HandHistory.from_game_state(game, s)
            text = hh.dumps()
            hh2 = HandHistory.loads(text)
            again = hh2.dumps()
            final = list(hh2)[-1]
    except Exception as ex:  # noqa: BLE001
        return [(f'decimal:raises:{type(ex).__name__}', f'seed {seed}: {type(ex).__name__}: {ex}')]
    out = []
    if again != text:
        out.append(('decimal:resave_differs', f'seed {seed}: saving the loaded history again changes the text'))
    if final.status or [x for x in final.stacks] != [x for x in s.stacks] or list(final.payoffs) != list(s.payoffs):
        out.append(('decimal:stacks_differ', f'seed {seed}: played stacks {list(map(str, s.stacks))} payoffs '
                    f'{list(map(str, s.payoffs))}, replayed {list(map(str, final.stacks))} payoffs {list(map(str, final.payoffs))}'))
    return out


def check_decimal(seed, count):
    viols, played, split = [], 0, 0
    for i in range(count):
        v = decimal_violations(seed * 100019 + i)
        if v is None:
            continue
        played += 1
        for sig, detail in v:
            viols.append(dict(property='C16', clause='replay', signature=sig, detail=detail,
                              script=[], valid=[], meta={'decimal_seed': seed * 100019 + i}))
    return dict(count=played, viols=viols)


import monitors as _m  # noqa: E402

_m.ALL['C16'] = C16Phh


# ---------------------------------------------------------------- correspondence with the model
class _Any:
    def __eq__(self, o):
        return True

    def __ne__(self, o):
        return False


class Recorder:
    """stands in for a State: records which operation `parse_action` would perform"""
    stander_pat_or_discarder_index = _Any()
    actor_index = _Any()

    def __init__(self):
        self.calls = []

    def __getattr__(self, name):
        def f(*a, **k):
            self.calls.append((name, a))
        return f


def py_parse_line(line, words_player):
    """canonical text of what python's parse_action does with `line` (player taken from the line)"""
    from pokerkit.notation import parse_action
    r = Recorder()
    try:
        parse_action(r, line)
    except ValueError:
        return 'A !ValueError'
    except Exception as ex:  # noqa: BLE001
        return 'A !' + type(ex).__name__
    if not r.calls:
        return 'A ?'
    name, args = r.calls[0]
    ws = line.split()
    if '#' in ws:
        ws = ws[:ws.index('#')]

    class Bad(Exception):
        pass

    def cards(x):
        try:
            return ''.join(repr(c) for c in impl.Card.clean(x)) or '-'
        except Exception:  # noqa: BLE001  (the real state refuses unparsable card text with ValueError)
            raise Bad()
    pl = None
    for w in ws:
        if w[:1] == 'p' and w[1:].isdigit():
            pl = int(w[1:]) - 1
            break
    try:
        return _describe(name, args, pl, cards)
    except Bad:
        return 'A !ValueError'


def _describe(name, args, pl, cards):
    if name == 'deal_board':
        return f'A dealBoard {cards(args[0])}'
    if name == 'deal_hole':
        return f'A dealHole {args[1]} {cards(args[0])}'
    if name == 'stand_pat_or_discard':
        return f'A standPat {pl} {cards(args[0]) if args else "-"}'
    if name == 'post_bring_in':
        return f'A bringIn {pl}'
    if name == 'fold':
        return f'A fold {pl}'
    if name == 'check_or_call':
        return f'A call {pl}'
    if name == 'complete_bet_or_raise_to':
        return f'A cbr {pl} {args[0]}'
    if name == 'show_or_muck_hole_cards':
        if args[0] is False:
            return f'A muck {args[1]}'
        if args[0] is True:
            return f'A showAll {args[1]}'
        return f'A showCards {args[1]} {cards(args[0])}'
    if name == 'no_operate':
        return 'A noop'
    return 'A ?' + name


def check_parse_lines(seed, count):
    """`parse_action` against the model's `parseActionLine` on written and malformed lines"""
    import subprocess
    rng = random.Random(seed)
    cards = [r + s_ for r in 'AKQJT98765432?' for s_ in 'cdhs?']
    lines = []
    for _ in range(count):
        p = rng.randint(1, 12)
        cs = ''.join(rng.choice(cards) for _ in range(rng.randint(1, 5)))
        kind = rng.choice(['db', 'dh', 'sd0', 'sd', 'pb', 'f', 'cc', 'cbr', 'sm0', 'sm-', 'sm', 'bad', 'bad', 'ws'])
        if kind == 'db':
            ln = f'd db {cs}'
        elif kind == 'dh':
            ln = f'd dh p{p} {cs}'
        elif kind == 'sd0':
            ln = f'p{p} sd'
        elif kind == 'sd':
            ln = f'p{p} sd {cs}'
        elif kind in ('pb', 'f', 'cc'):
            ln = f'p{p} {kind}'
        elif kind == 'cbr':
            ln = f'p{p} cbr {rng.choice([0, 1, 7, 10, 99, 100, 12345, 10 ** 12])}'
        elif kind == 'sm0':
            ln = f'p{p} sm'
        elif kind == 'sm-':
            ln = f'p{p} sm -'
        elif kind == 'sm':
            ln = f'p{p} sm {cs}'
        elif kind == 'ws':
            ln = rng.choice(['  ', '\t']).join(f'p{p} cbr 250'.split())
        else:
            words = [rng.choice(['d', 'db', 'dh', 'p1', 'p2', 'q3', 'p', 'px', 'sd', 'sm', 'f', 'cc', 'cbr', 'pb', '-', 'AsKs', '12', 'x', 'As'])
                     for _ in range(rng.randint(0, 5))]
            ln = ' '.join(words)
        lines.append(ln)
    from reprs import hexs
    driver = os.path.join(os.path.dirname(os.path.dirname(os.path.abspath(__file__))), 'lean', '.lake', 'build', 'bin', 'pkdriver')
    out = subprocess.run([driver], input='\n'.join('parseline ' + hexs(ln) for ln in lines) + '\n', capture_output=True,
                         text=True, timeout=300).stdout.split('\n')[:-1]
    diffs = []
    skipped = 0
    for ln, a in zip(lines, out):
        ws = ln.split()
        # outside the model: `p0` (python's index -1), amounts that are not plain digit runs
        if any(w == 'p0' for w in ws):
            skipped += 1
            continue
        e = py_parse_line(ln, None)
        if e != a:
            diffs.append(dict(input=ln, expected=e, actual=a))
    return dict(count=len(lines) - skipped, diffs=diffs)
