"""C17 — ACPC and Pluribus protocol output.

Monitor evaluated at the end of every generated fixed-limit / no-limit hold'em hand (2-6 players,
equal stacks, known cards):
* correspondence: the action, hole-card and board fields of `to_acpc_protocol` (every viewer seat) and
  `to_pluribus_protocol` are compared with the Lean model (`pkdriver acpc`) run on the operation log
  of the replayed history;
* the property itself, against the PLAYED hand: the action field read token by token is, in order,
  exactly the betting actions taken and one `/` per board dealing; a no-limit raise shows the total
  chips the raiser had committed after it; the hole field shows the viewer's cards (all seats in
  Pluribus form, plus cards shown at the showdown) and the board field the streets; the Pluribus result
  field is the payoffs; parsing the Pluribus line back with the same game and stack replays to the
  same actions and stacks and writes the same line again.
"""
from __future__ import annotations

import os
import re
import subprocess
import warnings

import impl
from monitors import Monitor, REFUSALS

DRIVER = os.path.join(os.path.dirname(os.path.dirname(os.path.abspath(__file__))), 'lean', '.lake', 'build', 'bin', 'pkdriver')
BET = ('Folding', 'CheckingOrCalling', 'CompletionBettingOrRaisingTo')


def encode_ops(ops):
    out = []
    for o in ops:
        n = type(o).__name__
        cs = lambda x: ''.join(repr(c) for c in x) or '-'  # noqa: E731
        if n == 'AntePosting':
            out.append(f'A:{o.player_index}:{o.amount}')
        elif n == 'BlindOrStraddlePosting':
            out.append(f'B:{o.player_index}:{o.amount}')
        elif n == 'HoleDealing':
            out.append(f'H:{o.player_index}:{cs(o.cards)}')
        elif n == 'BoardDealing':
            out.append(f'D:{cs(o.cards)}')
        elif n == 'Folding':
            out.append(f'F:{o.player_index}')
        elif n == 'CheckingOrCalling':
            out.append(f'C:{o.player_index}:{o.amount}')
        elif n == 'CompletionBettingOrRaisingTo':
            out.append(f'R:{o.player_index}:{o.amount}')
        elif n == 'BetCollection':
            out.append('K:' + ','.join(str(b) for b in o.bets))
        elif n == 'HoleCardsShowingOrMucking':
            out.append(f'S:{o.player_index}:{cs(o.hole_cards)}')
    return out


def lex(actions):
    """independent tokenizer of the action field"""
    toks = []
    for m in re.finditer(r'f|c|r(\d*)|/|(.)', actions):
        if m.group(2) is not None:
            return None
        t = m.group(0)
        toks.append(('r', int(m.group(1)) if m.group(1) else None) if t[0] == 'r' else (t, None))
    return toks


class C17Acpc(Monitor):
    prop = 'C17'
    lines_out: list = []

    def __init__(self):
        super().__init__()
        self.ok = True
        self.pending = []       # (driver line, expected text, description) for the correspondence

    def after_init(self, sess, err):
        if err is not None or sess.state is None:
            self.ok = False

    def after_op(self, sess, line, err, valid):
        if err is not None and (type(err).__name__ not in REFUSALS or len(sess.state.operations) > sess.nlog_before):
            self.ok = False

    def at_end(self, sess):
        from pokerkit import HandHistory
        import phh
        s = sess.state
        v = sess.extra.get('variant')
        if s is None or not self.ok or not v or v[0] not in ('FixedLimitTexasHoldem', 'NoLimitTexasHoldem'):
            return
        n = s.player_count
        if not 2 <= n <= 6 or len(set(s.starting_stacks)) != 1 or sess.kw['starting_board_count'] != 1:
            return
        if any(not c for o in s.operations if type(o).__name__ in ('HoleDealing', 'BoardDealing', 'CardBurning')
               for c in (o.cards if hasattr(o, 'cards') else [o.card])):
            return
        if any(type(o).__name__ == 'RunoutCountSelection' and o.runout_count not in (None, 1) for o in s.operations):
            return
        dealt = {}
        for o in s.operations:
            if type(o).__name__ == 'HoleDealing':
                dealt.setdefault(o.player_index, []).extend(o.cards)
        if any(type(o).__name__ == 'HoleCardsShowingOrMucking' and o.hole_cards
               and any(c and c not in dealt.get(o.player_index, []) for c in o.hole_cards) for o in s.operations):
            return      # a show that names other cards than the player was dealt rewrites his hand: the
                        # history no longer tells the cards the hand was played with
        if any(type(o).__name__ == 'HoleCardsShowingOrMucking' and o.hole_cards
               and len([c for c in o.hole_cards if c]) != len({c for c in o.hole_cards if c}) for o in s.operations):
            return      # a show naming one card twice (accepted only past a dealability warning): not a hand of real cards
        names = [type(o).__name__ for o in s.operations]
        if 'HoleCardsShowingOrMucking' in names[:names.index('HoleDealing') if 'HoleDealing' in names else len(names)]:
            return      # finding F17 (C16): a show before the deal
        game = phh.game_of(sess)
        plain = (sess.extra.get('divchunk', 1) <= 1 and tuple(sess.extra.get('rake_line', (0, 1, 'inf', 0)))[0] in (0, '0'))
        nt = v[0] == 'NoLimitTexasHoldem'
        antes = any(a != 0 for a in s.antes)
        tag = ('antes:' if antes else '')
        with warnings.catch_warnings():
            warnings.simplefilter('ignore')
            try:
                hh = HandHistory.from_game_state(game, s, hand=7)
                replayed = list(hh)[-1]
            except Exception as ex:  # noqa: BLE001
                return      # C16's business
            log = list(replayed.operations)
            played = [o for o in s.operations if type(o).__name__ in BET or type(o).__name__ == 'BoardDealing']
            # ---- Pluribus line -------------------------------------------------------------------
            if nt:
                try:
                    line = hh.to_pluribus_protocol(7)
                except Exception as ex:  # noqa: BLE001
                    self.report('pluribus', tag + f'pluribus_raises:{type(ex).__name__}', f'to_pluribus_protocol: {type(ex).__name__}: {ex}')
                    line = None
                if line is not None:
                    f = line.split(':')
                    split = self._check_fields(s, replayed, played, f[2], f[3], None, True, tag, 'Pluribus')
                    want = '|'.join(str(replayed.stacks[i] - s.starting_stacks[i]) for i in range(n))
                    if f[4] != want or (plain and not s.status and [int(x) for x in f[4].split('|')] != list(s.payoffs)):
                        self.report('payoffs', tag + 'pluribus_payoffs', f'result field {f[4]}, payoffs of the played hand {list(s.payoffs)}')
                    sess.script.append(f'acpc 1 - {n} ' + ' '.join(encode_ops(log)))
                    sess.expect.append(f'Z {f[2]}:{f[3]}')
                    mucked = any(type(o).__name__ == 'HoleCardsShowingOrMucking' and (not o.hole_cards or not all(o.hole_cards))
                                 for o in s.operations)
                    # a voluntary muck at the showdown - of the whole hand or, in a partial show, of part of it - is
                    # not something the line can say: the line shows every seat's cards and its reader tables them all
                    if not s.status and plain and not mucked:
                        # a line with one `/` per dealing action (finding F20) has too many streets to be
                        # read back: the same defect, reported under the same signature prefix
                        self._roundtrip(game, s, hh, line, ('split_street:' if split else '') + tag)
            # ---- ACPC lines, every viewer seat ------------------------------------------------------
            for pos in range(n):
                try:
                    msgs = list(hh.to_acpc_protocol(pos, 7))
                except ValueError as ex:
                    if 'must be known' in str(ex) and not s.hole_cards[pos] and not any(
                            type(o).__name__ == 'HoleDealing' and o.player_index == pos for o in s.operations):
                        continue
                    self.report('acpc', tag + 'acpc_raises:ValueError', f'to_acpc_protocol({pos}): {ex}')
                    continue
                except Exception as ex:  # noqa: BLE001
                    self.report('acpc', tag + f'acpc_raises:{type(ex).__name__}', f'to_acpc_protocol({pos}): {type(ex).__name__}: {ex}')
                    continue
                if not msgs:
                    continue
                last = [m for d, m in msgs if d == 'S->'][-1].strip()
                f = last.split(':')
                if len(f) < 5 or f[0] != 'MATCHSTATE' or f[1] != str(pos):
                    self.report('acpc', 'acpc_shape', f'match state {last!r}')
                    continue
                self._check_fields(s, replayed, played, f[3], f[4], pos, nt, tag, f'ACPC seat {pos}')
                if getattr(self, '_lag', False):
                    continue        # the model writes the line of the whole log, this message is older
                sess.script.append(f'acpc {int(nt)} {pos} {n} ' + ' '.join(encode_ops(log)))
                sess.expect.append(f'Z {f[3]}:{f[4]}')

    # -- the property, field by field -------------------------------------------------------------
    def _check_fields(self, s, replayed, played, actions, cards, viewer, nt, tag, what):
        toks = lex(actions)
        if toks is None:
            self.report('actions', 'unreadable', f'{what}: action field {actions!r}')
            return False
        want = []
        prev_board = False
        split = False     # a street was dealt by more than one board-dealing operation
        # chips committed after each raise of the PLAYED hand, from the log alone
        bets = [0] * s.player_count
        comm = [0] * s.player_count
        for o in s.operations:
            nme = type(o).__name__
            if nme in ('AntePosting', 'BlindOrStraddlePosting', 'BringInPosting', 'CheckingOrCalling'):
                bets[o.player_index] += o.amount
                comm[o.player_index] += o.amount
            elif nme == 'CompletionBettingOrRaisingTo':
                comm[o.player_index] += o.amount - bets[o.player_index]
                bets[o.player_index] = o.amount
            elif nme == 'BetCollection':
                for i in range(s.player_count):
                    comm[i] -= bets[i] - o.bets[i]
                bets = [0] * s.player_count
            if nme == 'Folding':
                want.append(('f', None))
            elif nme == 'CheckingOrCalling':
                want.append(('c', None))
            elif nme == 'CompletionBettingOrRaisingTo':
                want.append(('r', comm[o.player_index] if nt else None))
            elif nme == 'BoardDealing':
                # one separator per street: dealing a street in several steps is still one street
                if not (want and want[-1] == ('/', None) and prev_board):
                    want.append(('/', None))
                else:
                    split = True
            prev_board = nme == 'BoardDealing' or (prev_board and nme == 'NoOperation')
        lag = self._lag = False
        if s.status and viewer is not None and len(toks) < len(want) and toks == want[:len(toks)]:
            # a hand in progress: the viewer's last match state was sent at the last betting action of a round
            # that is still on; what happened since (the closing action, a run-out being dealt) reaches him with
            # the next message.  The line is a prefix of the hand; the cards tabled or dealt since are not in it
            lag = self._lag = True
        if toks != want and not lag:
            k = next((i for i, (a, b) in enumerate(zip(toks, want)) if a != b), min(len(toks), len(want)))
            self.report('actions', ('split_street:' if split else '') + tag + ('raise_amount' if k < min(len(toks), len(want)) and toks[k][0] == want[k][0] == 'r' else 'action_sequence'),
                        f'{what}: action field {actions!r} reads {toks[k:k + 3]} at #{k}, the hand played {want[k:k + 3]} '
                        f'({len(toks)} tokens for {len(want)} actions / board dealings)')
        hole, *boards = cards.split('/')
        seats = hole.split('|')
        dealt = {}
        for o in s.operations:
            nme = type(o).__name__
            if nme == 'HoleDealing':
                dealt.setdefault(o.player_index, []).extend(o.cards)
        shown = {}
        for o in s.operations:
            if type(o).__name__ == 'HoleCardsShowingOrMucking' and o.hole_cards:
                shown[o.player_index] = list(o.hole_cards)
        for i in range(s.player_count):
            own = ''.join(repr(c) for c in dealt.get(i, []))
            vis = own if (viewer is None or viewer == i) else ''
            if i in shown and all(shown[i]):
                vis = ''.join(repr(c) for c in shown[i])
            elif i in shown and vis == '':
                # a partial show (cash game): the other seats see the cards that were tabled; the player's own
                # view - and the Pluribus line, which shows every seat's cards - keeps the cards he was dealt
                vis = ''.join(repr(c) for c in shown[i] if c)
            got = seats[i] if i < len(seats) else None
            toks_of = lambda t: sorted(t[k:k + 2] for k in range(0, len(t), 2)) if t is not None else None  # noqa: E731
            # a seat that tabled its cards: the same cards, in the order dealt or the order tabled
            same = got == vis or (i in shown and toks_of(got) == toks_of(vis))
            if lag and i != viewer:
                continue
            if not same and not (len(dealt.get(i, [])) < 2 and viewer not in (None, i)):
                self.report('cards', tag + 'hole_field', f'{what}: hole field {hole!r}: seat {i} shows {got!r}, visible cards {vis!r}')
        bw, prev_b = [], False
        for o in s.operations:
            nme = type(o).__name__
            if nme == 'BoardDealing':
                if prev_b and bw:
                    bw[-1] += ''.join(repr(c) for c in o.cards)
                else:
                    bw.append(''.join(repr(c) for c in o.cards))
            prev_b = nme == 'BoardDealing' or (prev_b and nme == 'NoOperation')
        if lag and boards == bw[:len(boards)]:
            bw = boards
        if boards != bw:
            self.report('cards', ('split_street:' if split else '') + tag + 'board_field', f'{what}: board field {boards}, dealt {bw}')
        return split

    # -- parse the Pluribus line back -----------------------------------------------------------------
    def _roundtrip(self, game, s, hh, line, tag):
        from pokerkit import HandHistory
        stack = s.starting_stacks[0]
        try:
            with warnings.catch_warnings(record=True) as rec:
                warnings.simplefilter('always')
                got = list(HandHistory.from_acpc_protocol(game, stack, line))
            unable = any('Unable to parse' in str(w.message) for w in rec)
        except Exception as ex:  # noqa: BLE001
            self.report('roundtrip', tag + f'parse_raises:{type(ex).__name__}', f'from_acpc_protocol({line!r}): {type(ex).__name__}: {ex}')
            return
        if unable or len(got) != 1:
            self.report('roundtrip', tag + 'unable_to_parse', f'from_acpc_protocol could not read back {line!r}')
            return
        hh2 = got[0]
        try:
            final = list(hh2)[-1]
            line2 = hh2.to_pluribus_protocol(7)
        except Exception as ex:  # noqa: BLE001
            self.report('roundtrip', tag + f'replay_raises:{type(ex).__name__}', f'replaying the parsed line: {type(ex).__name__}: {ex}')
            return
        acts = lambda st: [(type(o).__name__, o.player_index, getattr(o, 'amount', None)) for o in st.operations if type(o).__name__ in BET]  # noqa: E731
        if acts(final) != acts(s) or list(final.stacks) != list(s.stacks):
            self.report('roundtrip', tag + 'replay_differs', f'line {line!r}: parsed history replays to actions {acts(final)} stacks {list(final.stacks)}; '
                        f'played {acts(s)} stacks {list(s.stacks)}')
        elif line2.split(':')[:5] != line.split(':')[:5]:
            self.report('roundtrip', tag + 'line_differs', f'line {line!r} is written again as {line2!r}')


import monitors as _m  # noqa: E402

_m.ALL['C17'] = C17Acpc
