#!/bin/bash
# usage: harness/matrix.sh [ids...] — runs every seeded change against the check of its own property
# (quick tier, seed 0) and records the outcome in seeded/matrix.tsv.  /repo must be clean.
cd "$(dirname "$0")/.."
git -C /repo diff --quiet || { echo "repo dirty"; exit 3; }
ids=${@:-$(ls seeded | grep -E '^C[0-9]+[a-z]$')}
mkdir -p .work
for id in $ids; do
  prop=${id:0:3}
  if ! git -C /repo apply --check /verif/seeded/$id/patch.diff 2>/dev/null; then
    echo -e "$id\t$prop\tpatch-does-not-apply\t-" ; continue
  fi
  git -C /repo apply /verif/seeded/$id/patch.diff
  out=$(VERIF_SEED=0 ./check $prop --tier quick 2>&1); rc=$?
  git -C /repo checkout -- .
  v=$(echo "$out" | grep -m1 '^VIOLATION' | sed 's/replay=[^ ]*//')
  echo -e "$id\t$prop\trc=$rc\t$v"
done
