#!/bin/bash
# usage: harness/sweep.sh <first-seed> <last-seed> [tier]  — every claimed check over a range of seeds;
# prints one line per (property, seed) that did not end in "-> ok" with exit 0
cd "$(dirname "$0")/.."
first=$1; last=$2; tier=${3:-quick}
(cd lean && lake build PK pkdriver >/dev/null 2>&1)
props=$(python3 -c "import json; print(' '.join(c['property_id'] for c in json.load(open('MANIFEST.json'))['checks']))")
bad=0
for sd in $(seq $first $last); do
  for p in $props; do
    out=$(VERIF_SEED=$sd ./check $p --tier $tier 2>&1); rc=$?
    if [ $rc -ne 0 ]; then bad=$((bad+1)); echo "seed=$sd prop=$p rc=$rc :: $(echo "$out" | grep -v conda | tail -2 | tr '\n' ' ')"; fi
  done
  echo "seed $sd done (bad so far: $bad)"
done
echo "sweep finished: $bad alarms"
