/-
  PK.Spec.Phases — the nine phases of a hand and the statement "exactly one phase is
  active" (C07).  A phase is *active* in a state when its own pending-work flag is set; the
  flags are the python status fields (`ante_posting_statuses`, `bet_collection_status`, …).
-/
import PK.Model.Machine
namespace PK
open State

inductive Phase where
  | ante | collect | blind | deal | bet | show | kill | push | pull
deriving DecidableEq, Repr

/-- the pending-work flag of a phase -/
def Phase.flag : Phase → State → Bool
  | .ante, s => anyB s.antePosting
  | .collect, s => s.betCollection
  | .blind, s => anyB s.blindPosting
  | .deal, s => s.cardBurning || s.anyHoleDealing || s.anyBoardDealing || anyB s.standingPat
  | .bet, s => !s.actors.isEmpty
  | .show, s => anyB s.runoutSelectors || !s.showdown.isEmpty
  | .kill, s => anyB s.handKilling
  | .push, s => !s.subPots.isEmpty
  | .pull, s => anyB s.chipsPulling

/-- no phase other than `X` has pending work -/
def OnlyMaybe (X : Phase) (s : State) : Prop := ∀ Y : Phase, Y.flag s = true → Y = X

/-- no phase has pending work -/
def AllClear (s : State) : Prop := ∀ Y : Phase, Y.flag s = false

/-- at most one phase is active -/
def Exclusive (s : State) : Prop := ∃ X, OnlyMaybe X s

theorem AllClear.only {s : State} (h : AllClear s) (X : Phase) : OnlyMaybe X s := by
  intro Y hY; rw [h Y] at hY; cases hY

/-- the loop / if continuation frames -/
def Ctl.isK : Ctl → Bool
  | .kAnteLoop | .kBlindLoop | .kDealAfterBurn | .kHoleLoop | .kDealBoard | .kRunoutLoop
  | .kShowPart | .kShowLoop | .kKillLoop | .kPushLoop | .kPullLoop => true
  | _ => false

/-- the public operations (frames a user can push) -/
def Ctl.isOp : Ctl → Bool
  | .opPostAnte _ | .opCollect | .opPostBlind _ | .opBurn _ | .opDealHole _ _ | .opDealBoard _
  | .opDraw _ | .opFold | .opCall | .opBringIn | .opCbr _ | .opRunout _ _ | .opShow _ _
  | .opKill _ | .opPush | .opPull _ | .opNoOp => true
  | _ => false

/-- the phase a `_begin/_update/_end` frame belongs to -/
def Ctl.phase? : Ctl → Option Phase
  | .beginAnte | .updAnte _ | .endAnte => some .ante
  | .beginCollect | .updCollect _ | .endCollect => some .collect
  | .beginBlind | .updBlind _ | .endBlind => some .blind
  | .beginDeal | .updDeal _ | .endDeal => some .deal
  | .beginBet | .updBet _ _ | .endBet => some .bet
  | .beginShow | .updShow _ | .endShow => some .show
  | .beginKill | .updKill _ | .endKill => some .kill
  | .beginPush | .updPush _ | .endPush => some .push
  | .beginPull | .updPull _ | .endPull => some .pull
  | _ => none

/-- what must hold when a frame is about to run -/
def framePre (cfg : Config) (f : Ctl) (s : State) : Prop :=
  match f with
  | .beginAnte | .beginCollect | .beginBlind | .beginDeal | .beginBet | .beginShow | .beginKill
  | .beginPush | .beginPull | .endHand => AllClear s
  | .updAnte _ | .endAnte => OnlyMaybe .ante s
  | .updCollect _ | .endCollect => OnlyMaybe .collect s
  | .updBlind _ | .endBlind => OnlyMaybe .blind s
  | .updDeal _ | .endDeal => OnlyMaybe .deal s
  | .updBet _ _ | .endBet => OnlyMaybe .bet s
  | .updShow _ => (s.street cfg).isNone = true ∨ OnlyMaybe .show s
  | .endShow => OnlyMaybe .show s
  | .updKill _ | .endKill => OnlyMaybe .kill s
  | .updPush _ | .endPush => OnlyMaybe .push s
  | .updPull _ | .endPull => OnlyMaybe .pull s
  | _ => True

/-- the phase invariant of a machine configuration -/
structure PhaseInv (cfg : Config) (m : M) : Prop where
  excl : Exclusive m.st
  head : ∀ f rest, m.ctl = f :: rest → framePre cfg f m.st
  tail : ∀ f rest, m.ctl = f :: rest → ∀ g ∈ rest, g.isK = true

end PK
