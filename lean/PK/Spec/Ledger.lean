/-
  PK.Spec.Ledger — the chip ledger (C01).

  `Ledger cfg s` is the statement "no chips are created or destroyed" for one state:
  every stack and bet is non-negative, each player's payoff is his stack minus his
  starting stack, and — once the pots have been frozen for pushing — stacks + bets +
  frozen pots add up to the starting stacks, every frozen pot being non-negative.
  Before the pots are frozen the chips that are neither in a stack nor in front of a
  player are, by the payoff clause, exactly `-Σ payoffs - Σ bets`; `PK.pots_sum`
  (Proofs/Pots.lean) shows that this is what the `pots` property adds up to.
-/
import PK.Model.Machine
namespace PK
open State

def potsTotal (ps : List Pot) : Int := sumI (ps.map Pot.amount)

def PotOk (n : Nat) (p : Pot) : Prop :=
  0 ≤ p.raked ∧ 0 ≤ p.unraked ∧ p.players.Nodup ∧ ∀ i ∈ p.players, i < n

structure Ledger (cfg : Config) (s : State) : Prop where
  lenStacks : s.stacks.length = cfg.n
  lenBets : s.bets.length = cfg.n
  lenPayoffs : s.payoffs.length = cfg.n
  nonnegStacks : ∀ i, i < cfg.n → 0 ≤ getI s.stacks i
  nonnegBets : ∀ i, i < cfg.n → 0 ≤ getI s.bets i
  payoffDef : ∀ i, i < cfg.n → getI s.payoffs i = getI s.stacks i - getI cfg.startingStacks i
  frozen : ∀ ps, s.pots_ = some ps →
    (∀ p ∈ ps, PotOk cfg.n p) ∧
    sumI s.stacks + sumI s.bets + potsTotal ps = sumI ((List.range cfg.n).map (getI cfg.startingStacks))
  /-- amounts still to be pushed are non-negative -/
  subNonneg : ∀ sp ∈ s.subPots, 0 ≤ sp.amount
  /-- an agreed number of run-outs is positive -/
  runoutOk : ∀ c, s.runoutCount = some c → 1 ≤ c

/-- the side conditions on the configuration that the constructors check
    (`State.__post_init__`, `Street.__post_init__`) -/
structure CfgOk (cfg : Config) : Prop where
  valid : cfg.validate = none
  streets : ∀ st ∈ cfg.streets, st.validate = none

/-- chips on the table that are in no stack and in front of nobody -/
def inPots (s : State) : Int := - sumI s.payoffs - sumI s.bets

end PK
