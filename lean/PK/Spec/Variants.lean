/-
  PK.Spec.Variants — what each predefined variant is, written from its NAME and from
  docs/simulation.rst / the class docstrings, as one flat table: deck, hand type(s), the cards dealt
  street by street with their facing, draws, who opens, betting structure, which streets play the
  small and which the big bet, and the raise cap.  Independent of how games.py composes its classes.
-/
import PK.Model.Games
namespace PK.Spec

open PK

/-- one street of the table: `down`/`up` hole cards, community cards, is it a draw, who opens, does
    it play the big bet, is a card burnt first -/
structure Row where
  down : Nat := 0
  up : Nat := 0
  downLast : Bool := false      -- the down card(s) come after the up cards (seventh street)
  board : Int := 0
  draw : Bool := false
  opening : Opening := .position
  big : Bool := false
  burn : Bool := true
deriving Repr, DecidableEq

structure VariantSpec where
  deck : List Card
  handTypes : List HandType
  structure_ : BettingStructure
  rows : List Row
deriving Repr

/-- hold'em board: pre-flop (no burn, no board), flop 3, turn 1, river 1; big bet from the turn on -/
def holdemRows (hole : Nat) : List Row :=
  [ { down := hole, burn := false }, { board := 3 }, { board := 1, big := true }, { board := 1, big := true } ]

/-- seven card stud: two down one up, then three up cards one per street, the seventh down;
    big bet from fifth street on; the first round is opened by a single card, later ones by the
    exposed hand -/
def studRows (first later : Opening) : List Row :=
  [ { down := 2, up := 1, opening := first, burn := false },
    { up := 1, opening := later },
    { up := 1, opening := later, big := true },
    { up := 1, opening := later, big := true },
    { down := 1, opening := later, big := true } ]

/-- draw games: `hole` cards down, then `draws` drawing rounds; triple draw plays the big bet on
    the last two rounds, single draw has one bet size -/
def drawRows (hole : Nat) (draws : Nat) : List Row :=
  { down := hole, burn := false } ::
    (List.range draws).map fun k => { draw := true, big := decide (draws ≥ 2 ∧ k + 2 ≥ draws) }

def variantSpec : Variant → VariantSpec
  | .fixedLimitTexasHoldem => ⟨Deck.standard, [.standardHigh], .fixedLimit, holdemRows 2⟩
  | .noLimitTexasHoldem => ⟨Deck.standard, [.standardHigh], .noLimit, holdemRows 2⟩
  | .noLimitShortDeckHoldem => ⟨Deck.shortDeck, [.shortDeck], .noLimit, holdemRows 2⟩
  | .noLimitRoyalHoldem => ⟨Deck.royal, [.standardHigh], .noLimit, holdemRows 2⟩
  | .potLimitOmahaHoldem => ⟨Deck.standard, [.omaha], .potLimit, holdemRows 4⟩
  | .fixedLimitOmahaHoldemHighLowSplitEightOrBetter =>
      ⟨Deck.standard, [.omaha, .omaha8], .fixedLimit, holdemRows 4⟩
  | .fixedLimitSevenCardStud => ⟨Deck.standard, [.standardHigh], .fixedLimit, studRows .lowCard .highHand⟩
  | .fixedLimitSevenCardStudHighLowSplitEightOrBetter =>
      ⟨Deck.standard, [.standardHigh, .eightOrBetterLow], .fixedLimit, studRows .lowCard .highHand⟩
  | .fixedLimitRazz => ⟨Deck.regular, [.regularLow], .fixedLimit, studRows .highCard .lowHand⟩
  | .noLimitDeuceToSevenLowballSingleDraw => ⟨Deck.standard, [.standardLow], .noLimit, drawRows 5 1⟩
  | .fixedLimitDeuceToSevenLowballTripleDraw => ⟨Deck.standard, [.standardLow], .fixedLimit, drawRows 5 3⟩
  | .fixedLimitBadugi => ⟨Deck.regular, [.badugi], .fixedLimit, drawRows 4 3⟩

/-- fixed-limit games allow four bets/raises per round; the others have no cap -/
def capOf : BettingStructure → Option Int
  | .fixedLimit => some 4
  | _ => none

/-- the `Street` a row stands for -/
def Row.street (r : Row) (i : Nat) (cap : Option Int) (sb bb : Int) : Street :=
  { ident := i, burn := r.burn,
    hole := if r.downLast then List.replicate r.up true ++ List.replicate r.down false
            else List.replicate r.down false ++ List.replicate r.up true,
    board := r.board, draw := r.draw, opening := r.opening,
    minBet := if r.big then bb else sb, maxCount := cap }

def streetsOf (vs : VariantSpec) (sb bb : Int) : List Street :=
  (vs.rows.zipIdx).map fun (r, i) => r.street i (capOf vs.structure_) sb bb

end PK.Spec
