/-
  PK.Spec.Ranking — the rules of poker for five-card hands, written from first principles and
  independently of lookups.py: category from the multiplicity profile, straights and flushes with
  the ace playing high or (in the wheel) low, kickers by (multiplicity, rank) descending.
  A hand is looked at only through its *signature*: the ranks it holds and whether it is suited.
-/
import PK.Model.Lookup
namespace PK.Spec
open PK

/-- the value of a rank with the ace high: `2 … 10, J = 11, Q = 12, K = 13, A = 14`
    (rank codes: 0 = ace, 1 = deuce, …, 12 = king) -/
def valueHigh (r : Rank) : Nat := if r = 0 then 14 else r + 1

/-- the distinct values of a hand with their multiplicities, biggest group first, then highest value -/
def groups (vals : List Nat) : List (Nat × Nat) :=
  let gs := (List.range 15).reverse.filterMap fun v =>
    let c := vals.count v
    if c > 0 then some (c, v) else none
  [4, 3, 2, 1].flatMap fun c => gs.filter (·.1 == c)

/-- the top card of a straight, if the five (distinct) values in descending order form one; the wheel
    A-5-4-3-2 is a straight to the five -/
def straightTop (desc : List Nat) : Option Nat :=
  match desc with
  | [a, b, c, d, e] =>
    if a = b + 1 ∧ b = c + 1 ∧ c = d + 1 ∧ d = e + 1 then some a
    else if desc = [14, 5, 4, 3, 2] then some 5 else none
  | _ => none

/-- categories of the standard ranking, weakest first -/
inductive Category where
  | highCard | onePair | twoPair | threeOfAKind | straight | flush | fullHouse | fourOfAKind | straightFlush
deriving DecidableEq, Repr

def Category.strength : Category → Nat
  | .highCard => 0 | .onePair => 1 | .twoPair => 2 | .threeOfAKind => 3 | .straight => 4
  | .flush => 5 | .fullHouse => 6 | .fourOfAKind => 7 | .straightFlush => 8

/-- category and tie-breakers of a five-card hand under the standard rules -/
def standardRank (ranks : List Rank) (suited : Bool) : Category × List Nat :=
  let gs := groups (ranks.map valueHigh)
  let shape := gs.map (·.1)
  let kick := gs.map (·.2)
  let top := if shape = [1, 1, 1, 1, 1] then straightTop kick else none
  match top, suited with
  | some t, true => (.straightFlush, [t])
  | _, _ =>
    if shape = [4, 1] then (.fourOfAKind, kick)
    else if shape = [3, 2] then (.fullHouse, kick)
    else if suited then (.flush, kick)
    else match top with
      | some t => (.straight, [t])
      | none =>
        if shape = [3, 1, 1] then (.threeOfAKind, kick)
        else if shape = [2, 2, 1] then (.twoPair, kick)
        else if shape = [2, 1, 1, 1] then (.onePair, kick)
        else (.highCard, kick)

/-- the strength of a hand as a list compared lexicographically: category, then tie-breakers -/
def standardKey (ranks : List Rank) (suited : Bool) : List Nat :=
  let r := standardRank ranks suited
  r.1.strength :: r.2

/-- lexicographic order on lists of naturals -/
def lexLt : List Nat → List Nat → Bool
  | [], [] => false
  | [], _ :: _ => true
  | _ :: _, [] => false
  | a :: as, b :: bs => a < b || (a == b && lexLt as bs)

/-- all non-decreasing lists of length `k` over `lo … n-1` -/
def multisets (n : Nat) : Nat → Nat → List (List Nat)
  | 0, _ => [[]]
  | k + 1, lo => (List.range n).flatMap fun x => if lo ≤ x then (multisets n k x).map (x :: ·) else []

/-- a signature can be that of five distinct cards of a 52-card deck: no rank five times, and suited
    hands have five different ranks -/
def possible (ranks : List Rank) (suited : Bool) : Bool :=
  (List.range 13).all (fun r => ranks.count r ≤ 4) && (!suited || ranks.Nodup)

/-- every signature five distinct cards of the standard deck can have, ranks in non-decreasing order -/
def signatures : List (List Rank × Bool) :=
  (multisets 13 5 0).flatMap fun rs =>
    (if possible rs false then [(rs, false)] else []) ++ (if possible rs true then [(rs, true)] else [])

end PK.Spec
