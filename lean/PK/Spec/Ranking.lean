/-
  PK.Spec.Ranking — the rules of poker for five-card hands, written from first principles and
  independently of lookups.py: category from the multiplicities of the ranks, straights and flushes
  with the ace playing high or (in the wheel) low, ties broken by the ranks ordered by
  (multiplicity, rank) descending.  A hand is looked at only through the ranks it holds and whether
  it is suited.  Definitions are plain structural recursions (the kernel evaluates them on every
  signature in `PK.Properties.C04Table`).
-/
import PK.Model.Lookup
namespace PK.Spec
open PK

/-- the value of a rank with the ace high: `2 … 10, J = 11, Q = 12, K = 13, A = 14`
    (rank codes: 0 = ace, 1 = deuce, …, 12 = king) -/
def valueHigh (r : Rank) : Nat := if r = 0 then 14 else r + 1

/-- how many times `v` occurs -/
def countEq (v : Nat) : List Nat → Nat
  | [] => 0
  | x :: xs => if x = v then countEq v xs + 1 else countEq v xs

/-- `(multiplicity, value)` for every value `≤ top` that occurs, highest value first -/
def groupsFrom (vals : List Nat) : Nat → List (Nat × Nat)
  | 0 => []
  | v + 1 =>
    match countEq (v + 1) vals with
    | 0 => groupsFrom vals v
    | c + 1 => (c + 1, v + 1) :: groupsFrom vals v

/-- the values occurring exactly `c` times, highest first -/
def withCount (c : Nat) : List (Nat × Nat) → List Nat
  | [] => []
  | g :: gs => if g.1 = c then g.2 :: withCount c gs else withCount c gs

/-- the top card of a straight, if five different values (highest first) form one; the wheel
    A-5-4-3-2 is a straight to the five -/
def straightTop : List Nat → Option Nat
  | [a, b, c, d, e] =>
    if a = b + 1 ∧ b = c + 1 ∧ c = d + 1 ∧ d = e + 1 then some a
    else if a = 14 ∧ b = 5 ∧ c = 4 ∧ d = 3 ∧ e = 2 then some 5
    else none
  | _ => none

/-- categories of the standard ranking, weakest first: high card 0, one pair 1, two pair 2, three of
    a kind 3, straight 4, flush 5, full house 6, four of a kind 7, straight flush 8 (the numbering of
    `Label` in the model) -/
def standardKey (ranks : List Rank) (suited : Bool) : List Nat :=
  let gs := groupsFrom (ranks.map valueHigh) 14
  let quads := withCount 4 gs
  let trips := withCount 3 gs
  let pairs := withCount 2 gs
  let singles := withCount 1 gs
  let tiebreak := quads ++ trips ++ pairs ++ singles     -- by (multiplicity, value) descending
  match straightTop singles, suited with
  | some t, true => [8, t]                               -- straight flush
  | top, _ =>
    if quads.length = 1 then 7 :: tiebreak               -- four of a kind
    else if trips.length = 1 ∧ pairs.length = 1 then 6 :: tiebreak   -- full house
    else if suited then 5 :: tiebreak                    -- flush
    else match top with
      | some t => [4, t]                                 -- straight
      | none =>
        if trips.length = 1 then 3 :: tiebreak           -- three of a kind
        else if pairs.length = 2 then 2 :: tiebreak      -- two pair
        else if pairs.length = 1 then 1 :: tiebreak      -- one pair
        else 0 :: tiebreak                               -- high card

/-- lexicographic order on lists of naturals: how two strengths compare -/
def lexLt : List Nat → List Nat → Bool
  | [], [] => false
  | [], _ :: _ => true
  | _ :: _, [] => false
  | a :: as, b :: bs => if a < b then true else if a = b then lexLt as bs else false

/-! ### every signature a hand can have -/

/-- one more column of the enumeration: lists starting with `lo`, or lists over the values above -/
def msStep (above : Nat → List (List Nat)) (lo : Nat) : Nat → List (List Nat)
  | 0 => [[]]
  | k + 1 => (msStep above lo k).map (lo :: ·) ++ above (k + 1)

/-- all non-decreasing lists of length `k` over `lo … lo + w - 1` -/
def multisets : Nat → Nat → Nat → List (List Nat)
  | 0, _ => fun k => match k with | 0 => [[]] | _ + 1 => []
  | w + 1, lo => msStep (multisets w (lo + 1)) lo

def allSame : List Nat → Bool
  | a :: b :: rest => if a = b then allSame (b :: rest) else false
  | _ => true

def strictlyIncreasing : List Nat → Bool
  | a :: b :: rest => if a < b then strictlyIncreasing (b :: rest) else false
  | _ => true

/-- the signatures of the five-card hands of a 52-card deck, ranks in non-decreasing order: not five
    cards of one rank; suited hands have five different ranks -/
def signatures5 : List (List Rank × Bool) :=
  (multisets 13 0 5).flatMap fun rs =>
    (if allSame rs then [] else [(rs, false)]) ++ (if strictlyIncreasing rs then [(rs, true)] else [])


/-! ### the other rankings -/

/-- the value of a rank with the ace low: `A = 1, 2 … 10, J = 11, Q = 12, K = 13` -/
def valueLow (r : Rank) : Nat := r + 1

/-- short-deck (six-plus) hold'em: the ranks 6 … A; A-9-8-7-6 is the lowest straight; **a flush beats a
    full house**.  Categories: high card 0, one pair 1, two pair 2, three of a kind 3, straight 4,
    full house 5, flush 6, four of a kind 7, straight flush 8 -/
def straightTopShort : List Nat → Option Nat
  | [a, b, c, d, e] =>
    if a = b + 1 ∧ b = c + 1 ∧ c = d + 1 ∧ d = e + 1 then some a
    else if a = 14 ∧ b = 9 ∧ c = 8 ∧ d = 7 ∧ e = 6 then some 9
    else none
  | _ => none

def shortDeckKey (ranks : List Rank) (suited : Bool) : List Nat :=
  let gs := groupsFrom (ranks.map valueHigh) 14
  let quads := withCount 4 gs
  let trips := withCount 3 gs
  let pairs := withCount 2 gs
  let singles := withCount 1 gs
  let tiebreak := quads ++ trips ++ pairs ++ singles
  match straightTopShort singles, suited with
  | some t, true => [8, t]
  | top, _ =>
    if quads.length = 1 then 7 :: tiebreak
    else if suited then 6 :: tiebreak
    else if trips.length = 1 ∧ pairs.length = 1 then 5 :: tiebreak
    else match top with
      | some t => [4, t]
      | none =>
        if trips.length = 1 then 3 :: tiebreak
        else if pairs.length = 2 then 2 :: tiebreak
        else if pairs.length = 1 then 1 :: tiebreak
        else 0 :: tiebreak

/-- the table label of a short-deck category (labels are numbered as in the standard ranking) -/
def shortDeckLabel (key : List Nat) : Nat :=
  match key.headD 99 with
  | 5 => 6
  | 6 => 5
  | c => c

/-- is the rank one of the short deck (6 … K, A) -/
def isShortRank (r : Rank) : Bool := r = 0 || 5 ≤ r

/-- ace-to-five low (razz): the ace is low, straights and flushes do not count; **smaller is better**.
    Categories: no pair 0, one pair 1, two pair 2, three of a kind 3, full house 4, four of a kind 5 -/
def regularLowKey (ranks : List Rank) (_suited : Bool) : List Nat :=
  let gs := groupsFrom (ranks.map valueLow) 13
  let quads := withCount 4 gs
  let trips := withCount 3 gs
  let pairs := withCount 2 gs
  let singles := withCount 1 gs
  let tiebreak := quads ++ trips ++ pairs ++ singles
  if quads.length = 1 then 5 :: tiebreak
  else if trips.length = 1 ∧ pairs.length = 1 then 4 :: tiebreak
  else if trips.length = 1 then 3 :: tiebreak
  else if pairs.length = 2 then 2 :: tiebreak
  else if pairs.length = 1 then 1 :: tiebreak
  else 0 :: tiebreak

def regularLowLabel (key : List Nat) : Nat :=
  match key.headD 99 with
  | 4 => 6
  | 5 => 7
  | c => c

/-- eight-or-better low: five different ranks, none above the eight, ace low; the cards from the highest
    down, **smaller is better** -/
def eightOrBetterKey (ranks : List Rank) (_suited : Bool) : List Nat :=
  withCount 1 (groupsFrom (ranks.map valueLow) 13)

def qualifiesEight (ranks : List Rank) : Bool :=
  strictlyIncreasing ranks && ranks.all (· ≤ 7)

/-- badugi (one to four cards of different ranks and suits): more cards first, then the cards from the
    highest down, **smaller is better**; `value` decides whether the ace is low (badugi) or high -/
def badugiKey (value : Rank → Nat) (ranks : List Rank) (_suited : Bool) : List Nat :=
  (4 - ranks.length) :: withCount 1 (groupsFrom (ranks.map value) 14)

/-- Kuhn poker: one card, J < Q < K -/
def kuhnKey (ranks : List Rank) (_suited : Bool) : List Nat := ranks.map valueLow

/-- the signatures of `k` cards (`k ≤ 4`, so any multiset of ranks can occur) that are rainbow: one
    card counts as suited, several rainbow cards do not -/
def signaturesRainbow (k : Nat) : List (List Rank × Bool) :=
  (multisets 13 0 k).map fun rs => (rs, k == 1)



/-! ### exposed cards in stud (who opens the later rounds) -/

/-- one to four exposed cards: four of a kind 4 > three of a kind 3 > two pair 2 > one pair 1 > no pair 0
    (straights and flushes do not count), then — it only matters between hands of different sizes, which
    the game never compares — the number of cards, then the ranks by (multiplicity, rank) descending -/
def exposedKey (value : Rank → Nat) (ranks : List Rank) (_suited : Bool) : List Nat :=
  let gs := groupsFrom (ranks.map value) 14
  let quads := withCount 4 gs
  let trips := withCount 3 gs
  let pairs := withCount 2 gs
  let singles := withCount 1 gs
  let tiebreak := quads ++ trips ++ pairs ++ singles
  let cat := if quads.length = 1 then 4 else if trips.length = 1 then 3
    else if pairs.length = 2 then 2 else if pairs.length = 1 then 1 else 0
  cat :: ranks.length :: tiebreak

def exposedLabel (key : List Nat) : Nat :=
  match key.headD 99 with
  | 4 => 7
  | c => c

/-- the signatures of `k` distinct cards, `2 ≤ k ≤ 4`: any multiset of ranks unsuited, different ranks
    also suited -/
def signaturesUp (k : Nat) : List (List Rank × Bool) :=
  (multisets 13 0 k).flatMap fun rs =>
    (rs, false) :: (if strictlyIncreasing rs then [(rs, true)] else [])

/-- … and of one to four distinct cards (one card counts as suited) -/
def upSigs : List (List Rank × Bool) :=
  signaturesRainbow 1 ++ signaturesUp 2 ++ signaturesUp 3 ++ signaturesUp 4

/-! ### the families the tables are checked on -/

/-- the label of a category when categories are numbered like the labels (standard ranking) -/
def categoryLabel (key : List Nat) : Nat := key.headD 99

def noLabel (_ : List Nat) : Nat := 0

def shortDeckSigs : List (List Rank × Bool) := signatures5.filter fun s => s.1.all isShortRank
def shortDeckOther : List (List Rank × Bool) := signatures5.filter fun s => !s.1.all isShortRank
def eightSigs : List (List Rank × Bool) := signatures5.filter fun s => qualifiesEight s.1
def eightOther : List (List Rank × Bool) := signatures5.filter fun s => !qualifiesEight s.1
def rainbowSigs : List (List Rank × Bool) :=
  signaturesRainbow 1 ++ signaturesRainbow 2 ++ signaturesRainbow 3 ++ signaturesRainbow 4
def badugiSigs : List (List Rank × Bool) := rainbowSigs.filter fun s => strictlyIncreasing s.1
def badugiOther : List (List Rank × Bool) := rainbowSigs.filter fun s => !strictlyIncreasing s.1
def isKuhnRank (r : Rank) : Bool := 10 ≤ r
def kuhnSigs : List (List Rank × Bool) := (signaturesRainbow 1).filter fun s => s.1.all isKuhnRank
def kuhnOther : List (List Rank × Bool) := (signaturesRainbow 1).filter fun s => !s.1.all isKuhnRank

end PK.Spec
