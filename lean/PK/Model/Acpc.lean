/-
  PK.Model.Acpc — model of the ACPC / Pluribus protocol layer of pokerkit/notation.py:
  `to_acpc_protocol` / `to_pluribus_protocol` (the action string, the card fields, the payoff field)
  as a function of the operation log, and the tokenizer and the cumulative-to-street conversion of
  `ACPCProtocolParser._parse`.  Core Lean only.
-/
import PK.Model.Notation
namespace PK

/-- one element of the action field -/
inductive ATok where
  | fold
  | call
  | raise (amount : Option Nat)      -- fixed-limit: bare `r`; no-limit: `r<total chips committed>`
  | street                           -- `/`
deriving DecidableEq, Repr

def ATok.text : ATok → List Char
  | .fold => ['f']
  | .call => ['c']
  | .raise none => ['r']
  | .raise (some a) => 'r' :: renderNat a
  | .street => ['/']

def actionText (toks : List ATok) : List Char := toks.flatMap ATok.text

/-- what the writers track while walking through the log: chips committed so far by every player
    (`-state.payoffs`) and the bets of the current street -/
structure ACtx where
  committed : List Int
  bets : List Int
deriving Repr

def ACtx.init (n : Nat) : ACtx := ⟨List.replicate n 0, List.replicate n 0⟩

def ACtx.put (c : ACtx) (p : Nat) (a : Int) : ACtx :=
  ⟨c.committed.set p (getI c.committed p + a), c.bets.set p (getI c.bets p + a)⟩

/-- one logged operation: the new context and the token written (if any).  `nt`: no-limit (raise
    sizes are written as total chips committed) -/
def acpcStep (nt : Bool) (c : ACtx) : Operation → ACtx × Option ATok
  | .antePosting p a => (c.put p a, none)
  | .blindOrStraddlePosting p a => (c.put p a, none)
  | .bringInPosting p a => (c.put p a, none)
  | .checkingOrCalling p a => (c.put p a, some .call)
  | .folding _ => (c, some .fold)
  | .completionBettingOrRaisingTo p x =>
    let c' := c.put p (x - getI c.bets p)
    (c', some (.raise (if nt then some (getI c'.committed p).toNat else none)))
  | .betCollection newBets =>
    -- uncalled chips go back to their owner: what is collected may be less than what was bet
    (⟨(List.range c.committed.length).map fun i => getI c.committed i - (getI c.bets i - getI newBets i),
      c.bets.map fun _ => 0⟩, none)
  | .boardDealing _ => (c, some .street)
  | _ => (c, none)

def acpcTokens (nt : Bool) : ACtx → List Operation → List ATok
  | _, [] => []
  | c, op :: ops =>
    let r := acpcStep nt c op
    (match r.2 with | some t => [t] | none => []) ++ acpcTokens nt r.1 ops

/-- the action field of the protocol line for a log (oldest operation first) -/
def acpcActions (nt : Bool) (n : Nat) (ops : List Operation) : List Char :=
  actionText (acpcTokens nt (ACtx.init n) ops)

/-- the board part of the card field: `/` + the cards of every board dealing -/
def acpcBoard (ops : List Operation) : List Char :=
  ops.flatMap fun
    | .boardDealing cs => '/' :: cardsText cs
    | _ => []

/-- the hole cards known for player `p`: dealt to him (written only for the viewer, or for everybody in
    Pluribus form) at the positions they were dealt to, or shown by him later; two slots, unknown
    cards leave a slot as it is, and so does a shown card he is already known to hold.  The state carried along is (slots, cards dealt to `p` so far). -/
def holeSlots (viewer : Option Nat) (p : Nat) (ops : List Operation) : List (List Char) :=
  (ops.foldl (fun (acc : List (List Char) × Nat) op =>
    let fill (off : Nat) (cs : List Card) : List (List Char) :=
      (cs.zipIdx.foldl (fun s (c, i) => if c.known && off + i < s.length then s.set (off + i) c.reprChars else s) acc.1)
    match op with
    | .holeDealing q cs _ =>
      if q = p then ((if viewer.isNone || viewer == some p then fill acc.2 cs else acc.1), acc.2 + cs.length) else acc
    | .holeCardsShowingOrMucking q cs =>
      -- a tabled card that is already among the player's known cards stays where it was dealt (since the
      -- F28 repair; before, the i-th tabled card went to slot i, so a partial show `Ks ??` of `AsKs` read `KsKs`)
      if q = p then
        ((cs.zipIdx.foldl (fun s (c, i) =>
            if c.known && !s.contains c.reprChars && i < s.length then s.set i c.reprChars else s) acc.1), acc.2)
      else acc
    | _ => acc) ([[], []], 0)).1

/-- the Pluribus result field -/
def pluribusPayoffs (starting finishing : List Int) : List Int :=
  (starting.zip finishing).map fun (s, f) => f - s

/-! ### reading the action field back (`ACPCProtocolParser._parse`) -/

def isDigit (c : Char) : Bool := '0' ≤ c && c ≤ '9'

/-- the tokenizer: `b<digits>` is skipped, `f`, `c<digits>`, `r<digits>`, `/`; `none`: "Invalid next
    action" -/
def lexActions : Nat → List Char → Option (List ATok)
  | 0, _ => none
  | _ + 1, [] => some []
  | fuel + 1, c :: rest =>
    let ds := rest.takeWhile isDigit
    let tail := rest.dropWhile isDigit
    if c == 'b' then (if ds.isEmpty then none else lexActions fuel tail)
    else if c == 'f' then (lexActions fuel rest).map (.fold :: ·)
    else if c == 'c' then (lexActions fuel tail).map (.call :: ·)
    else if c == 'r' then (lexActions fuel tail).map (.raise (parseNat ds) :: ·)
    else if c == '/' then (lexActions fuel rest).map (.street :: ·)
    else none

/-- the parser's conversion of the written (cumulative) raise sizes into raise-to amounts of the
    street: `previous_max_amount` is what the biggest raise stood at when the street began -/
def streetAmounts : Nat → Nat → List ATok → List (Option Int)
  | _, _, [] => []
  | prev, mx, .raise (some a) :: rest => some ((a : Int) - prev) :: streetAmounts prev a rest
  | prev, mx, .raise none :: rest => none :: streetAmounts prev mx rest
  | _, mx, .street :: rest => streetAmounts mx mx rest
  | prev, mx, _ :: rest => streetAmounts prev mx rest

end PK
