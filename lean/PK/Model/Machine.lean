/-
  PK.Model.Machine — model of pokerkit/state.py, part 2: the operations and the
  re-entrant `_begin_* / _update_* / _end_*` cascade as a defunctionalised
  control-stack machine.  One `Ctl` constructor per python method or loop/if
  continuation; `step` pops one frame, mutates, pushes successors.
-/
import PK.Model.State
namespace PK
open State

inductive Ctl where
  -- public operations
  | opPostAnte (i : Option Nat)
  | opCollect
  | opPostBlind (i : Option Nat)
  | opBurn (arg : CardsArg)
  | opDealHole (arg : CardsArg) (i : Option Nat)
  | opDealBoard (arg : CardsArg)
  | opDraw (cards : List Card)
  | opFold
  | opCall
  | opBringIn
  | opCbr (amount : Option Int)
  | opRunout (count : Option Int) (i : Option Nat)
  | opShow (arg : ShowArg) (i : Option Nat)
  | opKill (i : Option Nat)
  | opPush
  | opPull (i : Option Nat)
  | opNoOp
  -- phase methods
  | beginAnte | updAnte (op : Option Operation) | endAnte
  | beginCollect | updCollect (op : Option Operation) | endCollect
  | beginBlind | updBlind (op : Option Operation) | endBlind
  | beginDeal | updDeal (op : Option Operation) | endDeal
  | beginBet | updBet (op : Option Operation) (status : Bool) | endBet
  | beginShow | updShow (op : Option Operation) | endShow
  | beginKill | updKill (op : Option Operation) | endKill
  | beginPush | updPush (op : Option Operation) | endPush
  | beginPull | updPull (op : Option Operation) | endPull
  | endHand
  -- loop / if continuations inside the `_update_*` methods
  | kAnteLoop | kBlindLoop
  | kDealAfterBurn | kHoleLoop | kDealBoard
  | kRunoutLoop | kShowPart | kShowLoop
  | kKillLoop | kPushLoop | kPullLoop
deriving Repr, DecidableEq, Inhabited

/-- machine configuration: state, control stack, escaped exception, warning flag -/
structure M where
  st : State
  ctl : List Ctl := []
  err : Option Err := none
  warned : Bool := false
deriving Repr, Inhabited

namespace M

variable (cfg : Config) (env : Env)

/-- raise: the exception unwinds the whole python call stack -/
def raise (m : M) (e : Err) : M := { m with ctl := [], err := some e }
def cont (m : M) (s : State) (fs : List Ctl) (rest : List Ctl) : M :=
  { m with st := s, ctl := fs ++ rest }
def log (s : State) : Option Operation → State
  | none => s
  | some op => { s with ops := op :: s.ops }

def setI (l : List Int) (i : Nat) (v : Int) : List Int := l.set i v

/-- argument plumbing of `select_runout_count` / `can_select_runout_count`:
    `verify_runout_count_selection(runout_count, player_index)`. -/
def runoutPlumb (count : Option Int) (i : Option Nat) : Option Int × Option Nat :=
  (count, i)

/-- the layout entry seat `i` posts: heads-up the two entries are posted by the opposite seats
    (`get_effective_blind_or_straddle`, and `_begin_betting` since the F10 repair) -/
def blindEntry (i : Nat) : Int :=
  if cfg.n == 2 then getI cfg.blinds (if i == 0 then 1 else 0) else getI cfg.blinds i

/-- `max(bets[i] * sign(blinds_or_straddles[j]), 0)`: what seat `i` has in front of him, counted only
    when it is a genuine blind or straddle (a late-seated player's post has a negative entry and
    counts for nothing, not even for breaking a tie) -/
def positionKey (s : State) (i : Nat) : Int := max (getI s.bets i * sign (blindEntry cfg i)) 0

/-- `min(l, key=…)` / `max(l, key=…)` as python evaluates them: keep the first element, replace it
    whenever a later one is strictly `better`; `none` on the empty list -/
def pickBy (better : α → α → Bool) (l : List α) : Option α :=
  l.foldl (fun acc c => match acc with
    | none => some c
    | some m => if better c m then some c else some m) none

/-- `card_key(rank_order, a) < card_key(rank_order, b)`: rank position first, then suit -/
def cardKeyLt (ro : List Rank) (a b : Card) : Bool :=
  ro.idxOf a.rank < ro.idxOf b.rank || (ro.idxOf a.rank == ro.idxOf b.rank && a.suit < b.suit)

/-- `min_or_none(cards, key=card_key)` (`low`) / `max_or_none(cards, key=card_key)`: a rank outside
    the order makes `rank_order.index` raise ValueError, which `*_or_none` turns into None -/
def pickCard (ro : List Rank) (low : Bool) (cs : List Card) : Option Card :=
  if cs.any (fun c => !ro.contains c.rank) then none
  else pickBy (if low then cardKeyLt ro else fun a b => cardKeyLt ro b a) cs

/-- `max(player_indices, key=lambda i: (key i, i))` -/
def argmaxKey (key : Nat → Int) (l : List Nat) : Option (Int × Nat) :=
  l.foldl (fun (best : Option (Int × Nat)) i =>
    match best with
    | none => some (key i, i)
    | some (bk, bi) => if key i > bk || (key i == bk && i > bi) then some (key i, i) else some (bk, bi)) none

/-- `_begin_betting` (4157-4259) : opener selection; an error = `.index(None)`/assert failure -/
def openerOf (s : State) : Except Err Nat :=
  match s.street cfg with
  | none => .error .assertionError
  | some st =>
    match st.opening with
    | .position =>
      -- max over i of (bets[i] * sign(blinds[j]), i), `j` the layout entry seat `i` posts
      match argmaxKey (positionKey cfg s) (playerIndices cfg) with
      | none => .error .valueError
      | some (_, i) => .ok ((i + 1) % cfg.n)
    | .lowCard =>
      -- card_key with _HighHandOpeningLookup.rank_order (STANDARD), then suit
      let ups := (playerIndices cfg).map fun i => pickCard RankOrder.standard true (s.upCards i)
      match indexOf? ups (pickCard RankOrder.standard true (ups.filterMap id)) with
      | some i => .ok i
      | none => .error .valueError
    | .highCard =>
      let ups := (playerIndices cfg).map fun i => pickCard RankOrder.regular false (s.upCards i)
      match indexOf? ups (pickCard RankOrder.regular false (ups.filterMap id)) with
      | some i => .ok i
      | none => .error .valueError
    | .lowHand =>
      match mapExcept (fun i => match env.openEntry true (s.upCards i) with
          | .ok e => .ok e | .error e => .error (evalErr e)) (playerIndices cfg) with
      | .error e => .error e
      | .ok entries =>
        match indexOf? entries (pickBy (fun e m => decide (e < m)) (entries.filterMap id)) with
        | some i => .ok i
        | none => .error .valueError
    | .highHand =>
      match mapExcept (fun i => match env.openEntry false (s.upCards i) with
          | .ok e => .ok e | .error e => .error (evalErr e)) (playerIndices cfg) with
      | .error e => .error e
      | .ok entries =>
        match indexOf? entries (pickBy (fun e m => decide (e > m)) (entries.filterMap id)) with
        | some i => .ok i
        | none => .error .valueError

/-- the sub-pot list of `_begin_chips_pushing` for one pot (5983-6015) -/
def subPotsOfPot (s : State) (i : Nat) (pot : Pot) : Except Err (List SubPot) :=
  match State.divmod cfg pot.unraked (s.boardCount cfg) with
  | .error e => .error e
  | .ok (q, r) =>
    (s.boardIndices cfg).foldl (fun acc j =>
      match acc with
      | .error e => .error e
      | .ok out =>
        let subAmount := if j == 0 then q + r else q
        -- hand types for which some player *eligible for this pot* has a hand on this board
        let hts : Except Err (List Nat) :=
          (List.range cfg.handTypes.length).foldl (fun acc k =>
            match acc with
            | .error e => .error e
            | .ok l => match s.getUpHands cfg env j k with
              | .error e => .error e
              | .ok hands =>
                if pot.players.any (fun p => (hands.getD p none).isSome) then .ok (l ++ [k])
                else .ok l) (.ok [])
        match hts with
        | .error e => .error e
        | .ok hts =>
          match State.divmod cfg subAmount hts.length with
          | .error e => .error e
          | .ok (sq, sr) =>
            .ok (out ++ hts.filterMap fun k =>
              let a := if some k == hts.head? then sq + sr else sq
              if a != 0 then some ⟨a, i, some j, some k⟩ else none)) (.ok [])

/-- `collect_bets`: the players whose bets are collected and the reported bets; a lone
    survivor keeps his bet in front of him (state.py:3219-3226) -/
def collectPlayers (s : State) : List Nat × List Int :=
  if s.liveCount == 1 then
    let p := (firstTrue s.statuses).getD 0
    ((playerIndices cfg).erase p, s.bets.set p 0)
  else (playerIndices cfg, s.bets)

/-- `sorted(self.bets)[-2]` -/
def betCutoff (bets : List Int) : Int :=
  let sorted := sortI bets
  sorted.getD (sorted.length - 2) 0

/-- one round of the loop returning the uncalled part of a bet above the cutoff
    (state.py:3231-3236) -/
def refundStep (cutoff : Int) (acc : State × List Int) (i : Nat) : State × List Int :=
  if getI acc.1.bets i > cutoff then
    ({ acc.1 with stacks := acc.1.stacks.set i (getI acc.1.stacks i + (getI acc.1.bets i - cutoff))
                  payoffs := acc.1.payoffs.set i (getI acc.1.payoffs i + (getI acc.1.bets i - cutoff)) },
     acc.2.set i cutoff)
  else acc

/-- `for i in winners: bets[i] += quotient (+ remainder for the first winner)`
    (state.py:6134-6142) -/
def awardShares (winners : List Nat) (q r : Int) (bets : List Int) : List Int :=
  winners.foldl (fun bets i =>
    bets.set i (getI bets i + (if some i == winners.head? then q + r else q))) bets

/-- the body of `collect_bets` after verification (state.py:3218-3239): new state and the
    reported bets -/
def collectBets (s : State) : State × List Int :=
  let s1 := { s with betCollection := false }
  let pb := collectPlayers cfg s1
  let sb :=
    if (s1.street cfg).isSome || cfg.anteTrim then
      pb.1.foldl (refundStep (betCutoff s1.bets)) (s1, pb.2)
    else (s1, pb.2)
  ({ sb.1 with bets := pb.1.foldl (fun b i => b.set i 0) sb.1.bets }, sb.2)

/-- `_begin_chips_pushing` (state.py:5972-6017) after its two asserts: freeze the pots and
    build the queue of sub-pots.  An escaping exception leaves the state as far as it got. -/
def freezePots (s : State) : Except (State × Err) State :=
  let s := { s with streetIndex := none }
  match s.pots cfg with
  | .error e => .error (s, e)
  | .ok ps =>
    let s := { s with pots_ := some ps }
    if s.liveCount == 1 then
      .ok { s with subPots := (ps.zipIdx).map fun (pot, i) => (⟨pot.unraked, i, none, none⟩ : SubPot) }
    else if s.liveCount > 1 then
      match (ps.zipIdx).foldl (fun (acc : Except Err (List SubPot)) (pot, i) =>
          match acc with
          | .error e => .error e
          | .ok out => match subPotsOfPot cfg env s i pot with
            | .error e => .error e
            | .ok l => .ok (out ++ l)) (.ok []) with
      | .error e => .error (s, e)
      | .ok sp => .ok { s with subPots := sp }
    else .ok s

/-- the pending dealing work `_begin_dealing` (state.py:3516-3563) sets up for street `st`,
    including the fall-back of hole cards to the board when the dealer cannot cover them -/
def dealSetup (s : State) (st : Street) : State :=
  let s := { s with
    cardBurning := st.burn
    boardDealing := List.replicate cfg.startingBoardCount.toNat st.board
    holeDealing := (playerIndices cfg).map fun i =>
      if getB s.statuses i then s.holeDealing.getD i [] ++ st.hole else s.holeDealing.getD i []
    standingPat := (playerIndices cfg).map fun i =>
      if getB s.statuses i then st.draw else getB s.standingPat i }
  let pending : Nat := (s.holeDealing.map List.length).foldl (· + ·) 0
  if pending > (s.dealableCards env none).length then
    { s with
      boardDealing := s.boardDealing.map (· + st.hole.length)
      holeDealing := s.holeDealing.map fun _ => [] }
  else s

/-- `push_chips` (state.py:6106-6154) after verification, for the sub-pot `sp` at the head of
    the queue: new state and logged operation, or the state left behind by an escaping
    exception -/
def pushChips (s : State) (ps : List Pot) (sp : SubPot) (sps : List SubPot) :
    Except (State × Err) (State × Operation) :=
  match ps[sp.pot]? with
  | none => .error (s, .indexError)
  | some pot =>
    let pot' := { pot with unraked := pot.unraked - sp.amount }
    let s := { s with subPots := sps, pots_ := some (ps.set sp.pot pot') }
    if pot'.unraked < 0 then .error (s, .assertionError)
    else if s.liveCount == 1 then
      match pot.players with
      | [w] =>
        if sp.board.isSome || sp.handType.isSome then .error (s, .assertionError)
        else
          let bets := s.bets.set w (getI s.bets w + sp.amount)
          let amounts := (playerIndices cfg).map fun i => getI bets i - getI s.bets i
          .ok ({ s with bets := bets }, .chipsPushing amounts sp.pot none none)
      | _ => .error (s, .assertionError)
    else
      match sp.board, sp.handType with
      | some b, some k =>
        if !((b : Int) < s.boardCount cfg && k < cfg.handTypes.length) then .error (s, .assertionError)
        else match s.getUpHands cfg env b k with
          | .error e => .error (s, e)
          | .ok hands =>
            let maxHand := maxOrNone (pot.players.map fun i => hands.getD i none)
            let winners := pot.players.filter fun i => hands.getD i none == maxHand
            match State.divmod cfg sp.amount winners.length with
            | .error e => .error (s, e)
            | .ok (q, r) =>
              if winners.any (fun i => !getB s.statuses i) then .error (s, .assertionError)
              else
                let bets := awardShares winners q r s.bets
                let amounts := (playerIndices cfg).map fun i => getI bets i - getI s.bets i
                .ok ({ s with bets := bets }, .chipsPushing amounts sp.pot (some b) (some k))
      | _, _ => .error (s, .assertionError)

/-- `try: verify(...) except (ValueError, UserWarning): return False; return True` -/
def canOf (r : Except Err α) : Except Err Bool :=
  match r with
  | .ok _ => .ok true
  | .error .valueError => .ok false
  | .error .userWarning => .ok false
  | .error e => .error e

/-- one round of the loop of `_begin_hand_killing` (5764-5775): a player still in the hand is flagged iff
    he cannot win now — and never when he is alone in the hand (since the F24 repair) -/
def killStep (s : State) (acc : Except Err (List Bool)) (i : Nat) : Except Err (List Bool) :=
  match acc with
  | .error e => .error e
  | .ok l =>
    if !getB s.statuses i then .ok l
    else if s.liveCount ≤ 1 then .ok (l.set i false)
    else match s.canWinNow cfg env i with
      | .error e => .error e
      | .ok b => .ok (l.set i (!b))

/-- one micro-step of the interpreter -/
def step (m : M) : M :=
  match m.ctl with
  | [] => m
  | f :: rest =>
  let s := m.st
  let n := cfg.n
  match f with
  /- ---------------- ante posting ---------------- -/
  | .beginAnte =>
    if anyB s.antePosting then m.raise .assertionError
    else
      let s := { s with antePosting := (playerIndices cfg).map fun i => effectiveAnte cfg i > 0 }
      m.cont s [.updAnte none] rest
  | .updAnte op =>
    let s := log s op
    if !anyB s.antePosting then m.cont s [.endAnte] rest
    else if cfg.auto .antePosting then m.cont s [.kAnteLoop] rest
    else m.cont s [] rest
  | .kAnteLoop =>
    if anyB s.antePosting then m.cont s [.opPostAnte none, .kAnteLoop] rest else m.cont s [] rest
  | .endAnte =>
    if anyB s.antePosting then m.raise .assertionError else m.cont s [.beginCollect] rest
  | .opPostAnte i =>
    match s.verifyAntePosting cfg i with
    | .error e => m.raise e
    | .ok p =>
      let amount := effectiveAnte cfg p
      if getI s.bets p != 0 then m.raise .assertionError
      else if !(0 < amount && amount ≤ getI s.stacks p) then m.raise .assertionError
      else
        let s := { s with
          antePosting := s.antePosting.set p false
          bets := s.bets.set p amount
          stacks := s.stacks.set p (getI s.stacks p - amount)
          payoffs := s.payoffs.set p (getI s.payoffs p - amount) }
        m.cont s [.updAnte (some (.antePosting p amount))] rest
  /- ---------------- bet collection ---------------- -/
  | .beginCollect =>
    if s.betCollection then m.raise .assertionError
    else m.cont { s with betCollection := s.bets.any (· != 0) } [.updCollect none] rest
  | .updCollect op =>
    let s := log s op
    if !s.betCollection then m.cont s [.endCollect] rest
    else if cfg.auto .betCollection then m.cont s [.opCollect] rest
    else m.cont s [] rest
  | .endCollect =>
    if s.betCollection then m.raise .assertionError
    else
      let s? : Except Err State :=
        if s.streetIsLast cfg && s.streetReturnCount != 0 then
          match s.streetReturnIndex with
          | none => .error .assertionError
          | some ri => .ok { s with streetIndex := some (ri - 1), streetReturnCount := s.streetReturnCount - 1 }
        else .ok s
      match s? with
      | .error e => m.raise e
      | .ok s =>
        if s.liveCount == 1 then m.cont s [.beginPush] rest
        else if (s.street cfg).isNone then m.cont s [.beginBlind] rest
        else if s.streetIsLast cfg || s.allIn then m.cont s [.beginShow] rest
        else m.cont s [.beginDeal] rest
  | .opCollect =>
    match s.verifyBetCollection with
    | .error e => m.raise e
    | .ok () =>
      if !s.bets.any (· != 0) then m.raise .assertionError
      else
        let r := collectBets cfg s
        m.cont r.1 [.updCollect (some (.betCollection r.2))] rest
  /- ---------------- blinds / straddles ---------------- -/
  | .beginBlind =>
    if anyB s.blindPosting then m.raise .assertionError
    else
      let s := { s with blindPosting := (playerIndices cfg).map fun i => effectiveBlind cfg i > 0 }
      m.cont s [.updBlind none] rest
  | .updBlind op =>
    let s := log s op
    if !anyB s.blindPosting then m.cont s [.endBlind] rest
    else if cfg.auto .blindOrStraddlePosting then m.cont s [.kBlindLoop] rest
    else m.cont s [] rest
  | .kBlindLoop =>
    if anyB s.blindPosting then m.cont s [.opPostBlind none, .kBlindLoop] rest else m.cont s [] rest
  | .endBlind =>
    if anyB s.blindPosting then m.raise .assertionError else m.cont s [.beginDeal] rest
  | .opPostBlind i =>
    match s.verifyBlindPosting cfg i with
    | .error e => m.raise e
    | .ok p =>
      let amount := effectiveBlind cfg p
      if getI s.bets p != 0 then m.raise .assertionError
      else if !(0 < amount && amount ≤ getI s.stacks p) then m.raise .assertionError
      else
        let s := { s with
          blindPosting := s.blindPosting.set p false
          bets := s.bets.set p amount
          stacks := s.stacks.set p (getI s.stacks p - amount)
          payoffs := s.payoffs.set p (getI s.payoffs p - amount) }
        m.cont s [.updBlind (some (.blindOrStraddlePosting p amount))] rest
  /- ---------------- dealing ---------------- -/
  | .beginDeal =>
    if s.cardBurning || s.anyHoleDealing || s.anyBoardDealing || anyB s.standingPat then
      m.raise .assertionError
    else
      let s := { s with streetIndex := match s.streetIndex with
        | none => some 0
        | some i => some (i + 1) }
      match s.streetIndex, s.street cfg with
      | some si, some st =>
        if !(0 ≤ si && si < cfg.streets.length) then m.raise .assertionError
        else
          let s := dealSetup cfg env s st
          if !(s.anyHoleDealing || s.anyBoardDealing || anyB s.standingPat) then
            m.raise .assertionError
          else m.cont s [.updDeal none] rest
      | _, _ => m.raise .assertionError
  | .updDeal op =>
    let s := log s op
    if !s.cardBurning && !s.anyHoleDealing && !s.anyBoardDealing && !anyB s.standingPat then
      m.cont s [.endDeal] rest
    else if !anyB s.standingPat then
      if cfg.auto .cardBurning && s.cardBurning then
        m.cont s [.opBurn .none, .kDealAfterBurn] rest
      else m.cont s [.kDealAfterBurn] rest
    else m.cont s [] rest
  | .kDealAfterBurn =>
    if !s.cardBurning then
      if cfg.auto .holeDealing then m.cont s [.kHoleLoop, .kDealBoard] rest
      else m.cont s [.kDealBoard] rest
    else m.cont s [] rest
  | .kHoleLoop =>
    -- `while self.can_deal_hole(): self.deal_hole()`
    match canOf (s.verifyHoleDealing cfg env .none none) with
    | .error e => m.raise e
    | .ok true => m.cont s [.opDealHole .none none, .kHoleLoop] rest
    | .ok false => m.cont s [] rest
  | .kDealBoard =>
    -- `if Automation.BOARD_DEALING in self.automations and self.can_deal_board(): self.deal_board()`
    if cfg.auto .boardDealing then
      match canOf (s.verifyBoardDealing cfg env .none) with
      | .error e => m.raise e
      | .ok true => m.cont s [.opDealBoard .none] rest
      | .ok false => m.cont s [] rest
    else m.cont s [] rest
  | .endDeal =>
    if s.cardBurning || s.anyHoleDealing || s.anyBoardDealing || anyB s.standingPat then
      m.raise .assertionError
    else m.cont s [.beginBet] rest
  | .opBurn arg =>
    match s.verifyCardBurning cfg env arg with
    | .error e => m.raise e
    | .ok v =>
      match s.street cfg with
      | none => m.raise .assertionError
      | some st =>
        if !(s.anyHoleDealing || s.anyBoardDealing || st.draw) then m.raise .assertionError
        else
          let s := s.consumeCards env [v.val]
          let s := { s with cardBurning := false, burned := s.burned ++ [v.val] }
          { m.cont s [.updDeal (some (.cardBurning v.val))] rest with warned := m.warned || v.warned }
  | .opDealHole arg i =>
    match s.verifyHoleDealing cfg env arg i with
    | .error e => m.raise e
    | .ok v =>
      let (cards, p) := v.val
      let s := s.consumeCards env cards
      let q := s.holeDealing.getD p []
      let statuses := q.take cards.length
      let s := { s with
        holeDealing := s.holeDealing.set p (q.drop cards.length)
        hole := s.hole.set p (s.holeOf p ++ cards)
        holeStatuses := s.holeStatuses.set p (s.holeStatusesOf p ++ statuses) }
      { m.cont s [.updDeal (some (.holeDealing p cards statuses))] rest with
        warned := m.warned || v.warned }
  | .opDealBoard arg =>
    match s.verifyBoardDealing cfg env arg with
    | .error e => m.raise e
    | .ok v =>
      let cards := v.val
      match s.boardDealingCount, s.streetIndex, s.street cfg with
      | some bdc, some si, some st =>
        let s' := s.consumeCards env cards
        let index0 : Int := sumI ((cfg.streets.take si.toNat).map (·.board)) + max (st.board - bdc) 0
        let bi := (s'.boardDealing.idxOf bdc)
        let s' := { s' with boardDealing := s'.boardDealing.set bi (bdc - cards.length) }
        -- append each card to row `index`, creating the row when `index == len(board_cards)`
        let r := cards.foldl (fun (acc : Except Err (List (List Card) × Int)) c =>
          match acc with
          | .error e => .error e
          | .ok (b, idx) =>
            if idx < 0 then .error .indexError
            else if idx > b.length then .error .assertionError
            else
              let b := if idx == b.length then b ++ [[]] else b
              .ok (b.set idx.toNat (b.getD idx.toNat [] ++ [c]), idx + 1)) (.ok (s'.board, index0))
        match r with
        | .error e => { m with st := s', ctl := [], err := some e }
        | .ok (b, _) =>
          { m.cont { s' with board := b } [.updDeal (some (.boardDealing cards))] rest with
            warned := m.warned || v.warned }
      | _, _, _ => m.raise .assertionError
  | .opDraw cards =>
    match s.verifyStandingPat cards, s.standerPatIndex, s.streetIndex with
    | .error e, _, _ => m.raise e
    | .ok cards, some p, some si =>
      let s := { s with standingPat := s.standingPat.set p false }
      let s := cards.foldl (fun s c =>
        let own := s.holeOf p
        let idx := own.idxOf c
        { s with
          holeDealing := s.holeDealing.set p (s.holeDealing.getD p [] ++ [getB (s.holeStatusesOf p) idx])
          hole := s.hole.set p (own.eraseIdx idx)
          holeStatuses := s.holeStatuses.set p ((s.holeStatusesOf p).eraseIdx idx)
          discarded := s.discarded.set si.toNat (s.discarded.getD si.toNat [] ++ [c]) }) s
      m.cont s [.updDeal (some (.standingPatOrDiscarding p cards))] rest
    | .ok _, _, _ => m.raise .assertionError
  /- ---------------- betting ---------------- -/
  | .beginBet =>
    let s := { s with openerIndex := none }
    match openerOf cfg env s with
    | .error e => { m with st := s, ctl := [], err := some e }
    | .ok opener =>
      let s := { s with
        openerIndex := some opener
        bringInStatus := s.streetIsFirst && cfg.bringIn > 0 }
      let s := { s with completionStatus := s.bringInStatus }
      -- `for i: if not statuses[i] or not stacks[i] or not get_effective_stack(i): remove(i)`
      let r := (playerIndices cfg).foldl (fun (acc : List Nat × Option Err) i =>
        match acc with
        | (actors, some e) => (actors, some e)
        | (actors, none) =>
          if !getB s.statuses i || getI s.stacks i == 0 then (actors.erase i, none)
          else match s.effectiveStack cfg i with
            | .error e => (actors, some e)
            | .ok eff => if eff == 0 then (actors.erase i, none) else (actors, none))
        (rotatedRange n opener, none)
      match r with
      | (actors, some e) => { m with st := { s with actors := actors }, ctl := [], err := some e }
      | (actors, none) =>
        let s := { s with actors := actors, cbrAmount := 0, cbrCount := 0, acted := [], consecAllIn := [] }
        let status := match actors with
          | [a] => getI s.bets a ≥ maxI s.bets
          | _ => false
        m.cont s [.updBet none status] rest
  | .updBet op status =>
    let s := log s op
    if s.actors.isEmpty || s.liveCount ≤ 1 || status then m.cont s [.endBet] rest
    else m.cont s [] rest
  | .endBet =>
    let s := { s with actors := [] }
    match s.streetIndex with
    | none => m.raise .assertionError
    | some si =>
      let laterDraw := ((cfg.streets.drop (si + 1).toNat).any (·.draw))
      let s :=
        if s.liveCount > 1 && !laterDraw then
          let count := ((playerIndices cfg).filter fun i => getB s.statuses i && getI s.stacks i != 0).length
          if count ≤ 1 then { s with allIn := true } else s
        else s
      let s :=
        if s.stacks.any (· == 0) && si == (cfg.streets.length : Int) - 1 then { s with allIn := true } else s
      m.cont s [.beginCollect] rest
  | .opFold =>
    match s.verifyFolding cfg with
    | .error e => m.raise e
    | .ok v =>
      match s.actors with
      | [] => m.raise .indexError
      | p :: actors =>
        let s := { s with actors := actors, acted := insNat p s.acted }
        if getI s.stacks p == 0 then { m with st := s, ctl := [], err := some .assertionError }
        else match s.muckHoleCards p with
          | .error e => { m with st := s, ctl := [], err := some e }
          | .ok s =>
            { m.cont s [.updBet (some (.folding p)) false] rest with warned := m.warned || v.warned }
  | .opCall =>
    match s.verifyCheckingOrCalling with
    | .error e => m.raise e
    | .ok () =>
      match s.checkingOrCallingAmount, s.actors with
      | .ok (some amount), p :: actors =>
        let s := { s with
          actors := actors, acted := insNat p s.acted
          bets := s.bets.set p (getI s.bets p + amount)
          stacks := s.stacks.set p (getI s.stacks p - amount)
          payoffs := s.payoffs.set p (getI s.payoffs p - amount) }
        m.cont s [.updBet (some (.checkingOrCalling p amount)) false] rest
      | .error e, _ => m.raise e
      | _, _ => m.raise .assertionError
  | .opBringIn =>
    match s.verifyBringInPosting with
    | .error e => m.raise e
    | .ok () =>
      match s.effectiveBringInAmount cfg, s.actors with
      | .ok (some amount), p :: actors =>
        let s := { s with actors := actors, acted := insNat p s.acted }
        if s.bets.any (· != 0) || cfg.bringIn == 0 || !s.completionStatus || actors.isEmpty then
          { m with st := s, ctl := [], err := some .assertionError }
        else
          let s := { s with
            bets := s.bets.set p (getI s.bets p + amount)
            stacks := s.stacks.set p (getI s.stacks p - amount)
            payoffs := s.payoffs.set p (getI s.payoffs p - amount)
            bringInStatus := false }
          m.cont s [.updBet (some (.bringInPosting p amount)) false] rest
      | .error e, _ => m.raise e
      | _, _ => m.raise .assertionError
  | .opCbr amount =>
    match s.verifyCbr cfg amount with
    | .error e => m.raise e
    | .ok amount =>
      match s.actors with
      | [] => m.raise .indexError
      | p :: _ =>
        let inc := amount - maxI s.bets
        let delta := amount - getI s.bets p
        let s := { s with
          acted := insNat p s.acted
          bets := s.bets.set p amount
          stacks := s.stacks.set p (getI s.stacks p - delta)
          payoffs := s.payoffs.set p (getI s.payoffs p - delta)
          bringInStatus := false
          completionStatus := false }
        let actors := ((rotatedRange n p).drop 1).filter fun i =>
          getB s.statuses i && getI s.stacks i != 0
        let s := { s with actors := actors }
        if actors.isEmpty then { m with st := s, ctl := [], err := some .assertionError }
        else
          let s := { s with openerIndex := some p }
          let s := if inc ≥ s.cbrAmount then { s with acted := [p] } else s
          let s := { s with cbrAmount := max s.cbrAmount inc, cbrCount := s.cbrCount + 1 }
          let s := if getI s.stacks p != 0 then { s with consecAllIn := [] }
                   else { s with consecAllIn := s.consecAllIn ++ [inc] }
          m.cont s [.updBet (some (.completionBettingOrRaisingTo p amount)) false] rest
  /- ---------------- showdown ---------------- -/
  | .beginShow =>
    if anyB s.runoutSelectors || !s.showdown.isEmpty then m.raise .assertionError
    else match s.streetIndex with
      | none => m.raise .assertionError
      | some si =>
        let s :=
          if !s.runoutFlag && !cfg.tournament then
            if (cfg.streets.drop (si + 1).toNat).any (·.board != 0) then
              { s with runoutSelectors := (playerIndices cfg).map fun i =>
                  if getB s.statuses i then true else getB s.runoutSelectors i }
            else s
          else s
        let order := match s.openerIndex with
          | some o => rotatedRange n o
          | none => playerIndices cfg
        let sd := order.filter fun i => getB s.statuses i && !allB (s.holeStatusesOf i)
        m.cont { s with showdown := sd } [.updShow none] rest
  | .updShow op =>
    let s := log s op
    if (s.street cfg).isNone then m.cont s [] rest
    else if !anyB s.runoutSelectors && s.showdown.isEmpty then m.cont s [.endShow] rest
    else
      let fs := (if cfg.auto .runoutCountSelection then [Ctl.kRunoutLoop] else []) ++ [Ctl.kShowPart]
      m.cont s fs rest
  | .kRunoutLoop =>
    if anyB s.runoutSelectors then m.cont s [.opRunout none none, .kRunoutLoop] rest
    else m.cont s [] rest
  | .kShowPart =>
    if cfg.auto .holeCardsShowingOrMucking then m.cont s [.kShowLoop] rest else m.cont s [] rest
  | .kShowLoop =>
    if !s.showdown.isEmpty then m.cont s [.opShow .none none, .kShowLoop] rest else m.cont s [] rest
  | .endShow =>
    if anyB s.runoutSelectors || !s.showdown.isEmpty then m.raise .assertionError
    else match s.streetIndex with
      | none => m.raise .assertionError
      | some si =>
        let s :=
          if !s.runoutFlag then
            let s := { s with runoutFlag := true }
            match s.runoutCount with
            | some rc => { s with streetReturnIndex := some (si + 1), streetReturnCount := rc - 1 }
            | none => s
          else s
        if s.allIn && !s.streetIsLast cfg && s.liveCount > 1 then m.cont s [.beginDeal] rest
        else m.cont s [.beginKill] rest
  | .opRunout count i =>
    match s.verifyRunoutCountSelection cfg (runoutPlumb count i).1 (runoutPlumb count i).2 with
    | .error e => m.raise e
    | .ok p =>
      let s := { s with runoutSelectors := s.runoutSelectors.set p false }
      let s := match count with
        | none => s
        | some c => match s.runoutCount with
          | none => { s with runoutCount := some c }
          | some rc => if rc != c then { s with runoutCount := some 1 } else s
      m.cont s [.updShow (some (.runoutCountSelection p count))] rest
  | .opShow arg i =>
    match s.verifyShow cfg env arg i with
    | .error e => m.raise e
    | .ok v =>
      let plan := v.val
      let p := plan.player
      let s := if (s.street cfg).isSome then { s with showdown := s.showdown.erase p } else s
      let s? : Except Err State :=
        if plan.status then
          let s := s.produceCards (s.holeOf p)
          let s := s.consumeCards env (plan.holeCards.filter Card.known)
          .ok { s with hole := s.hole.set p plan.holeCards
                       holeStatuses := s.holeStatuses.set p plan.holeStatuses }
        else match s.muckHoleCards p with
          | .error e => .error e
          -- a player who mucks no longer has a say in the number of run-outs
          | .ok s' => .ok { s' with runoutSelectors := s'.runoutSelectors.set p false }
      match s? with
      | .error e => { m with st := s, ctl := [], err := some e }
      | .ok s =>
        { m.cont s [.updShow (some (.holeCardsShowingOrMucking p plan.cards))] rest with
          warned := m.warned || v.warned }
  /- ---------------- hand killing ---------------- -/
  | .beginKill =>
    if anyB s.handKilling then m.raise .assertionError
    else
      let r := (playerIndices cfg).foldl (killStep cfg env s) (.ok s.handKilling)
      match r with
      | .error e => m.raise e
      | .ok hk => m.cont { s with handKilling := hk } [.updKill none] rest
  | .updKill op =>
    let s := log s op
    if !anyB s.handKilling then m.cont s [.endKill] rest
    else if cfg.auto .handKilling then m.cont s [.kKillLoop] rest
    else m.cont s [] rest
  | .kKillLoop =>
    if anyB s.handKilling then m.cont s [.opKill none, .kKillLoop] rest else m.cont s [] rest
  | .endKill =>
    m.cont { s with handKilling := s.handKilling.map fun _ => false } [.beginPush] rest
  | .opKill i =>
    match s.verifyHandKilling cfg i with
    | .error e => m.raise e
    | .ok p =>
      let s := { s with handKilling := s.handKilling.set p false }
      match s.muckHoleCards p with
      | .error e => { m with st := s, ctl := [], err := some e }
      | .ok s => m.cont s [.updKill (some (.handKilling p))] rest
  /- ---------------- chips pushing ---------------- -/
  | .beginPush =>
    if s.pots_.isSome || !s.subPots.isEmpty then m.raise .assertionError
    else match freezePots cfg env s with
      | .error (s', e) => { m with st := s', ctl := [], err := some e }
      | .ok s' => m.cont s' [.updPush none] rest
  | .updPush op =>
    let s := log s op
    if s.subPots.isEmpty then m.cont s [.endPush] rest
    else if cfg.auto .chipsPushing then m.cont s [.kPushLoop] rest
    else m.cont s [] rest
  | .kPushLoop =>
    if !s.subPots.isEmpty then m.cont s [.opPush, .kPushLoop] rest else m.cont s [] rest
  | .endPush =>
    if s.pots_.isNone || !s.subPots.isEmpty then m.raise .assertionError
    else m.cont s [.beginPull] rest
  | .opPush =>
    match s.verifyChipsPushing, s.pots_, s.subPots with
    | .error e, _, _ => m.raise e
    | .ok (), some ps, sp :: sps =>
      match pushChips cfg env s ps sp sps with
      | .error (s', e) => { m with st := s', ctl := [], err := some e }
      | .ok (s', op) => m.cont s' [.updPush (some op)] rest
    | _, _, _ => m.raise .assertionError
  /- ---------------- chips pulling ---------------- -/
  | .beginPull =>
    if anyB s.chipsPulling then m.raise .assertionError
    else m.cont { s with chipsPulling := (playerIndices cfg).map fun i => getI s.bets i > 0 }
      [.updPull none] rest
  | .updPull op =>
    let s := log s op
    if !anyB s.chipsPulling then m.cont s [.endPull] rest
    else if cfg.auto .chipsPulling then m.cont s [.kPullLoop] rest
    else m.cont s [] rest
  | .kPullLoop =>
    if anyB s.chipsPulling then m.cont s [.opPull none, .kPullLoop] rest else m.cont s [] rest
  | .endPull =>
    m.cont { s with chipsPulling := s.chipsPulling.map fun _ => false } [.endHand] rest
  | .opPull i =>
    match s.verifyChipsPulling cfg i with
    | .error e => m.raise e
    | .ok p =>
      let amount := getI s.bets p
      let s := { s with
        stacks := s.stacks.set p (getI s.stacks p + amount)
        payoffs := s.payoffs.set p (getI s.payoffs p + amount)
        bets := s.bets.set p 0
        chipsPulling := s.chipsPulling.set p false }
      m.cont s [.updPull (some (.chipsPulling p amount))] rest
  | .endHand => m.cont { s with status := false } [] rest
  | .opNoOp => m.cont (log s (some .noOperation)) [] rest

/-- the `verify_*` call made first by each public operation (argument plumbing as in the code) -/
def verifyOp (s : State) : Ctl → Except Err Unit
  | .opPostAnte i => (s.verifyAntePosting cfg i).map fun _ => ()
  | .opCollect => s.verifyBetCollection
  | .opPostBlind i => (s.verifyBlindPosting cfg i).map fun _ => ()
  | .opBurn a => (s.verifyCardBurning cfg env a).map fun _ => ()
  | .opDealHole a i => (s.verifyHoleDealing cfg env a i).map fun _ => ()
  | .opDealBoard a => (s.verifyBoardDealing cfg env a).map fun _ => ()
  | .opDraw cs => (s.verifyStandingPat cs).map fun _ => ()
  | .opFold => (s.verifyFolding cfg).map fun _ => ()
  | .opCall => s.verifyCheckingOrCalling
  | .opBringIn => s.verifyBringInPosting
  | .opCbr a => (s.verifyCbr cfg a).map fun _ => ()
  | .opRunout c i =>
    (s.verifyRunoutCountSelection cfg (runoutPlumb c i).1 (runoutPlumb c i).2).map fun _ => ()
  | .opShow a i => (s.verifyShow cfg env a i).map fun _ => ()
  | .opKill i => (s.verifyHandKilling cfg i).map fun _ => ()
  | .opPush => s.verifyChipsPushing
  | .opPull i => (s.verifyChipsPulling cfg i).map fun _ => ()
  | .opNoOp => .ok ()
  | _ => .error .typeError

/-- the body of the python `can_*` methods: `try: verify(...) except (ValueError, UserWarning):
    return False; return True` — any other exception propagates. -/
def canOp (s : State) (op : Ctl) : Except Err Bool := canOf (verifyOp cfg env s op)

/-- run until the control stack is empty (or fuel runs out) -/
def run : Nat → M → M
  | 0, m => m
  | k + 1, m => match m.ctl with
    | [] => m
    | _ => run k (step cfg env m)

/-- `_setup` (1232-1256) -/
def setup : State :=
  let n := cfg.n
  { deck := env.shuffle cfg.deck
    statuses := List.replicate n true
    bets := List.replicate n 0
    stacks := (playerIndices cfg).map (getI cfg.startingStacks)
    payoffs := List.replicate n 0
    hole := List.replicate n []
    holeStatuses := List.replicate n []
    discarded := List.replicate cfg.streets.length []
    antePosting := List.replicate n false
    blindPosting := List.replicate n false
    holeDealing := List.replicate n []
    standingPat := List.replicate n false
    boardDealing := List.replicate cfg.startingBoardCount.toNat 0
    runoutSelectors := List.replicate n false
    handKilling := List.replicate n false
    chipsPulling := List.replicate n false }

/-- `State(...)`: validation, `_setup`, `_begin`.  `none` state = constructor refused. -/
def initM : M :=
  match cfg.validate with
  | some e => { st := {}, ctl := [], err := some e }
  | none => { st := setup cfg env, ctl := [.beginAnte] }

def defaultFuel : Nat := 100000

def init : M := run cfg env defaultFuel (initM cfg env)

/-- perform one public operation on a quiescent state -/
def apply (s : State) (op : Ctl) : M :=
  run cfg env defaultFuel { st := s, ctl := [op] }

end M
end PK
