/-
  PK.Model.Notation — model of the action layer of pokerkit/notation.py (PHH): how
  `HandHistory.from_game_state` writes each logged operation as an action line (including the
  merging of consecutive dealing operations), and how `parse_action` reads a line back.
  Commentaries (`# …`) and non-integral amounts are not modelled.  Core Lean only.
-/
import PK.Model.State
namespace PK

/-- the decimal digits of a natural number (`repr(int)` for a non-negative `int`) -/
def renderNat (n : Nat) : List Char :=
  if h : n < 10 then [Char.ofNat (48 + n)]
  else renderNat (n / 10) ++ [Char.ofNat (48 + n % 10)]
termination_by n
decreasing_by omega

/-- `int(text)` for a plain run of ASCII digits (`none`: ValueError) -/
def parseNat (cs : List Char) : Option Nat :=
  if cs.isEmpty then none
  else cs.foldl (fun acc c => match acc with
    | none => none
    | some v => if '0' ≤ c && c ≤ '9' then some (v * 10 + (c.toNat - 48)) else none) (some 0)

/-- what an action line says -/
inductive PAction where
  | dealBoard (cards : List Card)
  | dealHole (p : Nat) (cards : List Card)
  | standPat (p : Nat) (cards : List Card)       -- no cards: stand pat
  | bringIn (p : Nat)
  | fold (p : Nat)
  | call (p : Nat)
  | cbr (p : Nat) (amount : Nat)
  | muck (p : Nat)                               -- `pN sm`
  | showAll (p : Nat)                            -- `pN sm -`
  | showCards (p : Nat) (cards : List Card)      -- `pN sm <cards>`
  | noop
deriving DecidableEq, Repr

def cardsText (cs : List Card) : List Char := cs.flatMap Card.reprChars
def playerText (p : Nat) : List Char := 'p' :: renderNat (p + 1)

/-- the words of the action line `from_game_state` writes -/
def PAction.words : PAction → List (List Char)
  | .dealBoard cs => [['d'], ['d', 'b'], cardsText cs]
  | .dealHole p cs => [['d'], ['d', 'h'], playerText p, cardsText cs]
  | .standPat p cs => if cs.isEmpty then [playerText p, ['s', 'd']] else [playerText p, ['s', 'd'], cardsText cs]
  | .bringIn p => [playerText p, ['p', 'b']]
  | .fold p => [playerText p, ['f']]
  | .call p => [playerText p, ['c', 'c']]
  | .cbr p a => [playerText p, ['c', 'b', 'r'], renderNat a]
  | .muck p => [playerText p, ['s', 'm']]
  | .showAll p => [playerText p, ['s', 'm'], ['-']]
  | .showCards p cs => [playerText p, ['s', 'm'], cardsText cs]
  | .noop => []

/-- the action line: the words joined by single blanks (`.strip()`ped) -/
def PAction.line (a : PAction) : List Char := List.intercalate [' '] a.words

/-- `get_player_index()`: `pN` ↦ `N − 1` (`p0` and anything else: refused here) -/
def parsePlayer (w : List Char) : Option Nat :=
  match w with
  | 'p' :: rest => match parseNat rest with
    | some (k + 1) => some k
    | _ => none
  | _ => none

/-- `parse_action`: split on whitespace, then the `match words` ladder in order -/
def parseWords (ws : List (List Char)) : Option PAction :=
  match ws with
  | [['d'], ['d', 'b'], cards] => (Card.parseChars cards).map .dealBoard
  | [['d'], ['d', 'h'], player, cards] =>
    match parsePlayer player, Card.parseChars cards with
    | some p, some cs => some (.dealHole p cs)
    | _, _ => none
  | [player, ['s', 'd']] => (parsePlayer player).map fun p => .standPat p []
  | [player, ['s', 'd'], cards] =>
    match parsePlayer player, Card.parseChars cards with
    | some p, some cs => some (.standPat p cs)
    | _, _ => none
  | [player, ['p', 'b']] => (parsePlayer player).map .bringIn
  | [player, ['f']] => (parsePlayer player).map .fold
  | [player, ['c', 'c']] => (parsePlayer player).map .call
  | [player, ['c', 'b', 'r'], amount] =>
    match parsePlayer player, parseNat amount with
    | some p, some a => some (.cbr p a)
    | _, _ => none
  | [player, ['s', 'm']] => (parsePlayer player).map .muck
  | [player, ['s', 'm'], ['-']] => (parsePlayer player).map .showAll
  | [player, ['s', 'm'], cards] =>
    match parsePlayer player, Card.parseChars cards with
    | some p, some cs => some (.showCards p cs)
    | _, _ => none
  | [] => some .noop
  | _ => none

def parseActionLine (line : List Char) : Option PAction := parseWords (splitWs line)

/-! ### from the operation log to action lines -/

/-- the action a non-dealing logged operation is written as (`none`: not written — mechanical steps) -/
def opAction : Operation → Option PAction
  | .standingPatOrDiscarding p cs => some (.standPat p cs)
  | .bringInPosting p _ => some (.bringIn p)
  | .folding p => some (.fold p)
  | .checkingOrCalling p _ => some (.call p)
  | .completionBettingOrRaisingTo p a => some (.cbr p a.toNat)
  | .holeCardsShowingOrMucking p cs => some (if cs.isEmpty then .muck p else .showCards p cs)
  | _ => none

/-- dealt cards not written yet: the hole-dealing events in log order, and the board cards -/
structure Pending where
  hole : List (Nat × List Card) := []
  board : List Card := []
deriving Repr

def Pending.addHole (pd : Pending) (p : Nat) (cs : List Card) : Pending :=
  { pd with hole := pd.hole ++ [(p, cs)] }

/-- the cards pending for player `p`, in the order dealt (`hole_cards[p]`) -/
def Pending.holeOf (pd : Pending) (p : Nat) : List Card :=
  pd.hole.flatMap fun (q, cs) => if q = p then cs else []

/-- one more than the largest seat with a pending event -/
def Pending.bound (pd : Pending) : Nat := (pd.hole.map fun x => x.1 + 1).foldl max 0

/-- `append_dealing_actions()`: one `d dh` line per player with pending cards, in seat order
    (`sorted(hole_cards)`), then one `d db` line -/
def Pending.flush (pd : Pending) : List PAction :=
  ((List.range pd.bound).filterMap fun p =>
    if (pd.holeOf p).isEmpty then none else some (.dealHole p (pd.holeOf p))) ++
  (if pd.board.isEmpty then [] else [.dealBoard pd.board])

def optList : Option PAction → List PAction
  | some a => [a]
  | none => []

/-- the loop of `from_game_state` over `state.operations` -/
def fromLogGo (compress : Bool) : List Operation → Pending → List PAction
  | [], pd => pd.flush
  | op :: ops, pd =>
    let dealing := match op with
      | .holeDealing _ _ _ => true
      | .boardDealing _ => true
      | _ => false
    let (out, pd) := if !compress || !dealing then (pd.flush, ({} : Pending)) else ([], pd)
    match op with
    | .boardDealing cs => out ++ fromLogGo compress ops { pd with board := pd.board ++ cs }
    | .holeDealing p cs _ => out ++ fromLogGo compress ops (pd.addHole p cs)
    | _ => out ++ optList (opAction op) ++ fromLogGo compress ops pd

/-- `HandHistory.from_game_state(game, state, compression_status).actions` as parsed actions; the log
    is given oldest first -/
def fromLog (compress : Bool) (ops : List Operation) : List PAction := fromLogGo compress ops {}

end PK
