/-
  PK.Model.Card — model of pokerkit/utilities.py: Rank, Suit, RankOrder, Card,
  Deck, Card.parse / Card.clean (string branch), clean_values, divmod, rake, sign.
  Core Lean only.
-/
namespace PK

/-- `Rank` members in the definition order of the `StrEnum`
    (`A 2 3 4 5 6 7 8 9 T J Q K ?`), coded 0..13. -/
abbrev Rank := Nat
/-- `Suit` members in definition order (`c d h s ?`), coded 0..4. -/
abbrev Suit := Nat

def rankChars : List Char := ['A','2','3','4','5','6','7','8','9','T','J','Q','K','?']
def suitChars : List Char := ['c','d','h','s','?']

def Rank.unknown : Rank := 13
def Suit.unknown : Suit := 4

structure Card where
  rank : Rank
  suit : Suit
deriving DecidableEq, Repr, Hashable, Inhabited

namespace Card

def unknownCard : Card := ⟨Rank.unknown, Suit.unknown⟩

/-- `Card.unknown_status` -/
def isUnknown (c : Card) : Bool := c.rank == Rank.unknown || c.suit == Suit.unknown
/-- `Card.__bool__` -/
def known (c : Card) : Bool := !c.isUnknown

/-- `Card.__repr__` as characters -/
def reprChars (c : Card) : List Char := [rankChars.getD c.rank '!', suitChars.getD c.suit '!']

/-- `Card.__repr__` -/
def repr (c : Card) : String := String.ofList (reprChars c)

def reprs (cs : List Card) : String := String.join (cs.map repr)

/-- small integer code used by the deterministic shuffle and the driver -/
def code (c : Card) : Nat := c.rank * 5 + c.suit

end Card

/-- `Rank(ch)` : position in the enum, `none` = ValueError -/
def rankOfChar (ch : Char) : Option Rank :=
  let i := rankChars.idxOf ch
  if i < rankChars.length then some i else none
def suitOfChar (ch : Char) : Option Suit :=
  let i := suitChars.idxOf ch
  if i < suitChars.length then some i else none

/-! ### RankOrder -/
namespace RankOrder
def standard : List Rank := [1,2,3,4,5,6,7,8,9,10,11,12,0]
def shortDeck : List Rank := [5,6,7,8,9,10,11,12,0]
def regular : List Rank := [0,1,2,3,4,5,6,7,8,9,10,11,12]
def eightOrBetterLow : List Rank := [0,1,2,3,4,5,6,7]
def kuhn : List Rank := [10,11,12]
def royal : List Rank := [9,10,11,12,0]
end RankOrder

/-! ### Deck -/
def mkDeck (ranks : List Rank) (suits : List Suit) : List Card :=
  ranks.flatMap fun r => suits.map fun s => ⟨r, s⟩

namespace Deck
def standard : List Card := mkDeck RankOrder.standard [0,1,2,3]
def shortDeck : List Card := mkDeck RankOrder.shortDeck [0,1,2,3]
def regular : List Card := mkDeck RankOrder.regular [0,1,2,3]
def kuhn : List Card := mkDeck RankOrder.kuhn [3]
def royal : List Card := mkDeck RankOrder.royal [0,1,2,3]
end Deck

/-! ### Card.parse

`contents.replace('10','T').replace(',','')`, then `split()` on whitespace, each
chunk must have even length and is read two characters at a time. -/

def replace10 : List Char → List Char
  | '1' :: '0' :: rest => 'T' :: replace10 rest
  | c :: rest => c :: replace10 rest
  | [] => []

/-- `str.isspace()` for one character: the separators of `str.split()` -/
def isPyWhitespace (c : Char) : Bool :=
  c == ' ' || c == '\t' || c == '\n' || c == '\r' || c == '\x0b' || c == '\x0c' ||
  c == '\x1c' || c == '\x1d' || c == '\x1e' || c == '\x1f' || c == '\x85' || c == '\xa0' ||
  c == '\u1680' || ('\u2000' ≤ c && c ≤ '\u200a') || c == '\u2028' || c == '\u2029' ||
  c == '\u202f' || c == '\u205f' || c == '\u3000'

/-- python `str.split()` on a char list -/
def splitWs (cs : List Char) : List (List Char) :=
  let rec go (cs : List Char) (cur : List Char) (acc : List (List Char)) : List (List Char) :=
    match cs with
    | [] => (if cur.isEmpty then acc else cur.reverse :: acc).reverse
    | c :: rest =>
      if isPyWhitespace c then go rest [] (if cur.isEmpty then acc else cur.reverse :: acc)
      else go rest (c :: cur) acc
  go cs [] []

def parsePairs : List Char → Option (List Card)
  | [] => some []
  | [_] => none
  | r :: s :: rest =>
    match rankOfChar r, suitOfChar s, parsePairs rest with
    | some r, some s, some cs => some (⟨r, s⟩ :: cs)
    | _, _, _ => none

/-- one whitespace-separated chunk: even length, read two characters at a time -/
def parseChunk (acc : Option (List Card)) (chunk : List Char) : Option (List Card) :=
  match acc with
  | none => none
  | some l =>
    if chunk.length % 2 != 0 then none
    else match parsePairs chunk with
      | some cs => some (l ++ cs)
      | none => none

/-- `list(Card.parse(s))` on the characters of `s`; `none` = ValueError -/
def Card.parseChars (s : List Char) : Option (List Card) :=
  (splitWs ((replace10 s).filter (· != ','))).foldl parseChunk (some [])

/-- `list(Card.parse(s))`; `none` = ValueError -/
def Card.parse (s : String) : Option (List Card) := Card.parseChars s.toList

/-- `CardsLike`: a card object, text, or an iterable of card objects -/
inductive CardsLike where
  | card (c : Card)
  | text (s : String)
  | cards (l : List Card)

/-- `Card.clean(values)`; `none` = ValueError from the text branch -/
def Card.clean : CardsLike → Option (List Card)
  | .card c => some [c]
  | .text s => Card.parse s
  | .cards l => some l

/-! ### predicates on card lists -/
def dedup [BEq α] (l : List α) : List α :=
  l.foldl (fun acc x => if acc.contains x then acc else acc ++ [x]) []

def arePaired (cs : List Card) : Bool := (dedup (cs.map (·.rank))).length != cs.length
def areSuited (cs : List Card) : Bool := (dedup (cs.map (·.suit))).length ≤ 1
def areRainbow (cs : List Card) : Bool := (dedup (cs.map (·.suit))).length == cs.length

/-! ### clean_values -/
inductive ValuesLike where
  | num (v : Int)
  | seq (l : List Int)
  | map (m : List (Int × Int))     -- insertion-ordered mapping key ↦ value
deriving Repr

/-- python list index with negative wrap; `none` = IndexError -/
def pyIndex (n : Nat) (k : Int) : Option Nat :=
  if 0 ≤ k then (if k.toNat < n then some k.toNat else none)
  else (if (-k).toNat ≤ n then some (n - (-k).toNat) else none)

/-- `clean_values(values, count)`; `none` = IndexError for a mapping key out of range -/
def cleanValues (v : ValuesLike) (count : Nat) : Option (List Int) :=
  match v with
  | .num x => some (List.replicate count x)
  | .seq l => some ((l.take count) ++ List.replicate (count - (l.take count).length) 0)
  | .map m =>
    m.foldl (fun acc (k, x) =>
      match acc with
      | none => none
      | some l => match pyIndex count k with
        | none => none
        | some i => some (l.set i (l.getD i 0 + x))) (some (List.replicate count 0))

/-! ### divmod, rake, sign (integral chips) -/

/-- `utilities.divmod` for `Integral` dividends = python floor `divmod`;
    the divisor 0 raises ZeroDivisionError (`none`). -/
def pyDivmod (a : Int) (n : Int) : Option (Int × Int) :=
  if n = 0 then none else some (Int.fdiv a n, Int.fmod a n)

def sign (v : Int) : Int := if v > 0 then 1 else if v < 0 then -1 else 0

/-- python `round(p/q)` for a rational `num/den` (`den > 0`): half to even -/
def roundHalfEven (num : Int) (den : Int) : Int :=
  let q := Int.fdiv num den
  let r := Int.fmod num den      -- 0 ≤ r < den
  if 2 * r < den then q
  else if 2 * r > den then q + 1
  else if q % 2 = 0 then q else q + 1

/-- rake configuration: `functools.partial(rake, percentage=num/den, cap=…, no_flop_no_drop=…)`
    with the percentage an exact `Fraction`. -/
structure RakeCfg where
  num : Int := 0
  den : Int := 1
  cap : Option Int := none
  nfnd : Bool := false
deriving Repr, DecidableEq

/-- `utilities.rake(amount, state, …)` on integral amounts; `boardNonEmpty` = `any(state.board_cards)` -/
def pyRake (r : RakeCfg) (boardNonEmpty : Bool) (amount : Int) : Int × Int :=
  if r.nfnd && !boardNonEmpty then (0, amount)
  else
    let raked := roundHalfEven (amount * r.num) r.den
    let raked := match r.cap with | some c => min raked c | none => raked
    (raked, amount - raked)

end PK
