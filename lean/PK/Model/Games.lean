/-
  PK.Model.Games — model of pokerkit/games.py: the twelve predefined variants as the python class
  hierarchy composes them (structure mix-ins, street templates of the four families, per-variant
  class attributes), and `HandHistory.game_types` (notation.py:174-186).  Core Lean only.
-/
import PK.Model.State
namespace PK

/-- the twelve concrete game classes -/
inductive Variant where
  | fixedLimitTexasHoldem | noLimitTexasHoldem | noLimitShortDeckHoldem | noLimitRoyalHoldem
  | potLimitOmahaHoldem | fixedLimitOmahaHoldemHighLowSplitEightOrBetter
  | fixedLimitSevenCardStud | fixedLimitSevenCardStudHighLowSplitEightOrBetter | fixedLimitRazz
  | noLimitDeuceToSevenLowballSingleDraw | fixedLimitDeuceToSevenLowballTripleDraw | fixedLimitBadugi
deriving DecidableEq, Repr, Inhabited

namespace Variant

def all : List Variant :=
  [fixedLimitTexasHoldem, noLimitTexasHoldem, noLimitShortDeckHoldem, noLimitRoyalHoldem,
   potLimitOmahaHoldem, fixedLimitOmahaHoldemHighLowSplitEightOrBetter,
   fixedLimitSevenCardStud, fixedLimitSevenCardStudHighLowSplitEightOrBetter, fixedLimitRazz,
   noLimitDeuceToSevenLowballSingleDraw, fixedLimitDeuceToSevenLowballTripleDraw, fixedLimitBadugi]

def className : Variant → String
  | fixedLimitTexasHoldem => "FixedLimitTexasHoldem"
  | noLimitTexasHoldem => "NoLimitTexasHoldem"
  | noLimitShortDeckHoldem => "NoLimitShortDeckHoldem"
  | noLimitRoyalHoldem => "NoLimitRoyalHoldem"
  | potLimitOmahaHoldem => "PotLimitOmahaHoldem"
  | fixedLimitOmahaHoldemHighLowSplitEightOrBetter => "FixedLimitOmahaHoldemHighLowSplitEightOrBetter"
  | fixedLimitSevenCardStud => "FixedLimitSevenCardStud"
  | fixedLimitSevenCardStudHighLowSplitEightOrBetter => "FixedLimitSevenCardStudHighLowSplitEightOrBetter"
  | fixedLimitRazz => "FixedLimitRazz"
  | noLimitDeuceToSevenLowballSingleDraw => "NoLimitDeuceToSevenLowballSingleDraw"
  | fixedLimitDeuceToSevenLowballTripleDraw => "FixedLimitDeuceToSevenLowballTripleDraw"
  | fixedLimitBadugi => "FixedLimitBadugi"

/-- the structure mix-in first in the class's MRO -/
inductive Mixin where | fixedLimitPoker | potLimitPoker | noLimitPoker
deriving DecidableEq, Repr

def mixin : Variant → Mixin
  | fixedLimitTexasHoldem => .fixedLimitPoker
  | noLimitTexasHoldem => .noLimitPoker
  | noLimitShortDeckHoldem => .noLimitPoker
  | noLimitRoyalHoldem => .noLimitPoker          -- inherits from NoLimitTexasHoldem
  | potLimitOmahaHoldem => .potLimitPoker
  | fixedLimitOmahaHoldemHighLowSplitEightOrBetter => .fixedLimitPoker
  | fixedLimitSevenCardStud => .fixedLimitPoker
  | fixedLimitSevenCardStudHighLowSplitEightOrBetter => .fixedLimitPoker
  | fixedLimitRazz => .fixedLimitPoker
  | noLimitDeuceToSevenLowballSingleDraw => .noLimitPoker
  | fixedLimitDeuceToSevenLowballTripleDraw => .fixedLimitPoker
  | fixedLimitBadugi => .fixedLimitPoker

/-- `betting_structure` class attribute of the mix-in -/
def Mixin.structure : Mixin → BettingStructure
  | .fixedLimitPoker => .fixedLimit
  | .potLimitPoker => .potLimit
  | .noLimitPoker => .noLimit

/-- `max_completion_betting_or_raising_count`: from the mix-in, except that `UnfixedLimitHoldem`
    sets it to `None` itself (after the mix-in in the MRO, so the mix-in's value — also `None` for the
    pot/no-limit mix-ins — is the one seen) -/
def Mixin.maxCount : Mixin → Option Int
  | .fixedLimitPoker => some 4
  | .potLimitPoker => none
  | .noLimitPoker => none

/-- the abstract family that builds the street tuple -/
inductive Family where | holdem | unfixedLimitHoldem | sevenCardStud | singleDraw | tripleDraw
deriving DecidableEq, Repr

def family : Variant → Family
  | fixedLimitTexasHoldem => .holdem
  | noLimitTexasHoldem => .unfixedLimitHoldem
  | noLimitShortDeckHoldem => .unfixedLimitHoldem
  | noLimitRoyalHoldem => .unfixedLimitHoldem
  | potLimitOmahaHoldem => .unfixedLimitHoldem
  | fixedLimitOmahaHoldemHighLowSplitEightOrBetter => .holdem
  | fixedLimitSevenCardStud => .sevenCardStud
  | fixedLimitSevenCardStudHighLowSplitEightOrBetter => .sevenCardStud
  | fixedLimitRazz => .sevenCardStud
  | noLimitDeuceToSevenLowballSingleDraw => .singleDraw
  | fixedLimitDeuceToSevenLowballTripleDraw => .tripleDraw
  | fixedLimitBadugi => .tripleDraw

/-- `deck` class attribute -/
def deck : Variant → List Card
  | noLimitShortDeckHoldem => Deck.shortDeck
  | noLimitRoyalHoldem => Deck.royal
  | fixedLimitRazz => Deck.regular
  | fixedLimitBadugi => Deck.regular
  | _ => Deck.standard

/-- `hand_types` class attribute -/
def handTypes : Variant → List HandType
  | fixedLimitTexasHoldem | noLimitTexasHoldem | noLimitRoyalHoldem => [.standardHigh]
  | noLimitShortDeckHoldem => [.shortDeck]
  | potLimitOmahaHoldem => [.omaha]
  | fixedLimitOmahaHoldemHighLowSplitEightOrBetter => [.omaha, .omaha8]
  | fixedLimitSevenCardStud => [.standardHigh]
  | fixedLimitSevenCardStudHighLowSplitEightOrBetter => [.standardHigh, .eightOrBetterLow]
  | fixedLimitRazz => [.regularLow]
  | noLimitDeuceToSevenLowballSingleDraw | fixedLimitDeuceToSevenLowballTripleDraw => [.standardLow]
  | fixedLimitBadugi => [.badugi]

/-- `hole_dealing_count` class attribute (hold'em and draw families) -/
def holeDealingCount : Variant → Nat
  | potLimitOmahaHoldem | fixedLimitOmahaHoldemHighLowSplitEightOrBetter => 4
  | noLimitDeuceToSevenLowballSingleDraw | fixedLimitDeuceToSevenLowballTripleDraw => 5
  | fixedLimitBadugi => 4
  | _ => 2

/-- `low` class attribute of the stud family -/
def studLow : Variant → Bool
  | fixedLimitRazz => true
  | _ => false

/-- the `Street(...)` tuple built by the family's `__init__` from `(small_bet, big_bet)`;
    `UnfixedLimitHoldem`, `SingleDraw` receive one `min_bet` and pass it for both -/
def streets (v : Variant) (sb bb : Int) : List Street :=
  let cap := v.mixin.maxCount
  let mk (i : Nat) (burn : Bool) (hole : List Bool) (board : Int) (draw : Bool) (o : Opening) (m : Int) : Street :=
    ⟨i, burn, hole, board, draw, o, m, cap⟩
  match v.family with
  | .holdem | .unfixedLimitHoldem =>
    [ mk 0 false (List.replicate v.holeDealingCount false) 0 false .position sb,
      mk 1 true [] 3 false .position sb,
      mk 2 true [] 1 false .position bb,
      mk 3 true [] 1 false .position bb ]
  | .sevenCardStud =>
    let o1 := if v.studLow then Opening.highCard else Opening.lowCard
    let o2 := if v.studLow then Opening.lowHand else Opening.highHand
    [ mk 0 false [false, false, true] 0 false o1 sb,
      mk 1 true [true] 0 false o2 sb,
      mk 2 true [true] 0 false o2 bb,
      mk 3 true [true] 0 false o2 bb,
      mk 4 true [false] 0 false o2 bb ]
  | .singleDraw =>
    [ mk 0 false (List.replicate v.holeDealingCount false) 0 false .position sb,
      mk 1 true [] 0 true .position sb ]
  | .tripleDraw =>
    [ mk 0 false (List.replicate v.holeDealingCount false) 0 false .position sb,
      mk 1 true [] 0 true .position sb,
      mk 2 true [] 0 true .position bb,
      mk 3 true [] 0 true .position bb ]

/-- does the constructor take one `min_bet` (passed as both small and big bet)? -/
def singleBet (v : Variant) : Bool :=
  match v.family with
  | .unfixedLimitHoldem | .singleDraw => true
  | _ => false

/-- does the constructor take a bring-in (and no blinds)? -/
def usesBringIn (v : Variant) : Bool := v.family == .sevenCardStud

/-- the variant code of `HandHistory.game_types` (`none`: the class has no code) -/
def code : Variant → Option String
  | fixedLimitTexasHoldem => some "FT"
  | noLimitTexasHoldem => some "NT"
  | noLimitShortDeckHoldem => some "NS"
  | noLimitRoyalHoldem => none
  | potLimitOmahaHoldem => some "PO"
  | fixedLimitOmahaHoldemHighLowSplitEightOrBetter => some "FO/8"
  | fixedLimitSevenCardStud => some "F7S"
  | fixedLimitSevenCardStudHighLowSplitEightOrBetter => some "F7S/8"
  | fixedLimitRazz => some "FR"
  | noLimitDeuceToSevenLowballSingleDraw => some "N2L1D"
  | fixedLimitDeuceToSevenLowballTripleDraw => some "F2L3D"
  | fixedLimitBadugi => some "FB"

/-- the `Config` a game object of this class passes to `State` -/
def config (v : Variant) (autos : List Automation) (trim : Bool) (antes blinds : List Int) (bringIn : Int)
    (sb bb : Int) (stacks : List Int) (n : Nat) : Config :=
  { autos := autos, deck := v.deck, handTypes := v.handTypes,
    streets := v.streets sb (if v.singleBet then sb else bb),
    structure_ := v.mixin.structure, anteTrim := trim, antes := antes,
    blinds := if v.usesBringIn then List.replicate n 0 else blinds,
    bringIn := if v.usesBringIn then bringIn else 0,
    startingStacks := stacks, n := n }

end Variant
end PK
