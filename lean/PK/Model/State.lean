/-
  PK.Model.State — model of pokerkit/state.py, part 1: configuration, state record,
  pure queries (`pots`, `get_effective_stack`, `can_win_now`, dealable cards, …) and
  every `verify_*`.  Chips are `Int` (python `int`).  Line numbers refer to the pinned
  commit of /repo/pokerkit/state.py.
-/
import PK.Model.Hand
namespace PK

inductive Opening where | position | lowCard | highCard | lowHand | highHand
deriving DecidableEq, Repr, Inhabited

inductive BettingStructure where | fixedLimit | potLimit | noLimit
deriving DecidableEq, Repr, Inhabited

inductive Automation where
  | antePosting | betCollection | blindOrStraddlePosting | cardBurning | holeDealing
  | boardDealing | runoutCountSelection | holeCardsShowingOrMucking | handKilling
  | chipsPushing | chipsPulling
deriving DecidableEq, Repr, Inhabited

def Automation.all : List Automation :=
  [.antePosting, .betCollection, .blindOrStraddlePosting, .cardBurning, .holeDealing,
   .boardDealing, .runoutCountSelection, .holeCardsShowingOrMucking, .handKilling,
   .chipsPushing, .chipsPulling]

/-- `Street` (state.py:188-326).  `ident` is the object identity tag: `state.py`
    compares streets with `is`, so two equal `Street` values may or may not be the
    same object. -/
structure Street where
  ident : Nat
  burn : Bool
  hole : List Bool
  board : Int
  draw : Bool
  opening : Opening
  minBet : Int
  maxCount : Option Int
deriving DecidableEq, Repr, Inhabited

inductive Err where
  | valueError | userWarning | assertionError | zeroDivisionError | keyError | indexError
  | stopIteration | typeError
deriving DecidableEq, Repr, Inhabited

def Err.name : Err → String
  | .valueError => "ValueError" | .userWarning => "UserWarning"
  | .assertionError => "AssertionError" | .zeroDivisionError => "ZeroDivisionError"
  | .keyError => "KeyError" | .indexError => "IndexError"
  | .stopIteration => "StopIteration" | .typeError => "TypeError"

/-- `Street.__post_init__` : `none` = accepted -/
def Street.validate (s : Street) : Option Err :=
  if s.board < 0 then some .valueError
  else if s.hole.isEmpty && s.board == 0 && !s.draw then some .valueError
  else if !s.hole.isEmpty && s.draw then some .valueError
  else if s.minBet ≤ 0 then some .valueError
  else if (match s.maxCount with | some c => decide (c < 0) | none => false) then some .valueError
  else none

/-- The constructor arguments of `State` after `clean_values`. -/
structure Config where
  autos : List Automation
  deck : List Card
  handTypes : List HandType
  streets : List Street
  structure_ : BettingStructure
  anteTrim : Bool
  antes : List Int
  blinds : List Int
  bringIn : Int
  startingStacks : List Int
  n : Nat
  tournament : Bool := true
  startingBoardCount : Int := 1
  rake : RakeCfg := {}
  /-- user `divmod`: quotient rounded down to a multiple of `divChunk` chips, the rest is
      the remainder; `1` = the default `utilities.divmod` -/
  divChunk : Nat := 1
  /-- warnings are errors (`warnings.simplefilter('error')`) -/
  warnErr : Bool := false
deriving Repr, Inhabited

def Config.auto (c : Config) (a : Automation) : Bool := c.autos.contains a

/-- Environment: the pieces of behaviour the engine theorems are parametric in. -/
structure Env where
  /-- `hand_type.from_game(hole, board)` reduced to an integer strength (`Hand.__lt__` order) -/
  eval : HandType → List Card → List Card → Except EvalErr Int
  /-- `random.shuffle` (any permutation) -/
  shuffle : List Card → List Card
  /-- opening lookups: `get_entry_or_none(up_cards)` as an index -/
  openEntry : Bool → List Card → Except EvalErr (Option Nat)

/-- `Operation` records (state.py:496-701) -/
inductive Operation where
  | antePosting (p : Nat) (amount : Int)
  | betCollection (bets : List Int)
  | blindOrStraddlePosting (p : Nat) (amount : Int)
  | cardBurning (card : Card)
  | holeDealing (p : Nat) (cards : List Card) (statuses : List Bool)
  | boardDealing (cards : List Card)
  | standingPatOrDiscarding (p : Nat) (cards : List Card)
  | folding (p : Nat)
  | checkingOrCalling (p : Nat) (amount : Int)
  | bringInPosting (p : Nat) (amount : Int)
  | completionBettingOrRaisingTo (p : Nat) (amount : Int)
  | runoutCountSelection (p : Nat) (count : Option Int)
  | holeCardsShowingOrMucking (p : Nat) (cards : List Card)
  | handKilling (p : Nat)
  | chipsPushing (amounts : List Int) (pot : Nat) (board : Option Nat) (handType : Option Nat)
  | chipsPulling (p : Nat) (amount : Int)
  | noOperation
deriving DecidableEq, Repr, Inhabited

structure Pot where
  raked : Int
  unraked : Int
  players : List Nat
deriving DecidableEq, Repr, Inhabited

def Pot.amount (p : Pot) : Int := p.raked + p.unraked

structure SubPot where
  amount : Int
  pot : Nat
  board : Option Nat
  handType : Option Nat
deriving DecidableEq, Repr, Inhabited

/-- The mutable fields of `State` (state.py:1060-1165 and the per-phase fields). -/
structure State where
  deck : List Card := []
  board : List (List Card) := []
  mucked : List Card := []
  burned : List Card := []
  statuses : List Bool := []
  bets : List Int := []
  stacks : List Int := []
  payoffs : List Int := []
  hole : List (List Card) := []
  holeStatuses : List (List Bool) := []
  discarded : List (List Card) := []
  streetIndex : Option Int := none
  streetReturnIndex : Option Int := none
  streetReturnCount : Int := 0
  allIn : Bool := false
  status : Bool := true
  ops : List Operation := []          -- reversed log
  -- phases
  antePosting : List Bool := []
  betCollection : Bool := false
  blindPosting : List Bool := []
  cardBurning : Bool := false
  holeDealing : List (List Bool) := []
  boardDealing : List Int := []
  standingPat : List Bool := []
  openerIndex : Option Nat := none
  bringInStatus : Bool := false
  completionStatus : Bool := false
  actors : List Nat := []
  cbrAmount : Int := 0
  cbrCount : Int := 0
  acted : List Nat := []              -- set, kept sorted & duplicate-free
  consecAllIn : List Int := []
  runoutSelectors : List Bool := []
  runoutCount : Option Int := none
  runoutFlag : Bool := false
  showdown : List Nat := []
  handKilling : List Bool := []
  pots_ : Option (List Pot) := none
  subPots : List SubPot := []
  chipsPulling : List Bool := []
deriving Repr, Inhabited, DecidableEq

/-! ### small python helpers -/
def anyB (l : List Bool) : Bool := l.any id
def allB (l : List Bool) : Bool := l.all id
def sumI (l : List Int) : Int := l.foldl (· + ·) 0
def countTrue (l : List Bool) : Nat := (l.filter id).length
/-- `max(l)` on a non-empty list (0 for the empty list, which the callers exclude) -/
def maxI : List Int → Int
  | [] => 0
  | x :: xs => xs.foldl max x
def minI : List Int → Int
  | [] => 0
  | x :: xs => xs.foldl min x
def getI (l : List Int) (i : Nat) : Int := l.getD i 0
def getB (l : List Bool) (i : Nat) : Bool := l.getD i false
def insSorted (x : Int) : List Int → List Int
  | [] => [x]
  | y :: ys => if x ≤ y then x :: y :: ys else y :: insSorted x ys
/-- `sorted(l)` -/
def sortI (l : List Int) : List Int := l.foldr insSorted []
/-- `sorted(set(l))` -/
def sortedSet (l : List Int) : List Int := dedup (sortI l)
def insNat (x : Nat) : List Nat → List Nat
  | [] => [x]
  | y :: ys => if x < y then x :: y :: ys else if x = y then y :: ys else y :: insNat x ys
/-- `deque(range(n)); rotate(-k)` -/
def rotatedRange (n k : Nat) : List Nat := (List.range n).drop k ++ (List.range n).take k
/-- `list.index(x)` -/
def indexOf? [BEq α] (l : List α) (x : α) : Option Nat :=
  let i := l.idxOf x
  if i < l.length then some i else none
/-- python `l[:k]` for a possibly negative `k` -/
def pyTake (l : List α) (k : Int) : List α :=
  if 0 ≤ k then l.take k.toNat else l.take (l.length - (-k).toNat)

namespace State

variable (cfg : Config) (env : Env)

def playerIndices : List Nat := List.range cfg.n

/-- `street` property -/
def street (s : State) : Option Street :=
  match s.streetIndex with
  | none => none
  | some i =>
    -- python list indexing: negative indices wrap
    match pyIndex cfg.streets.length i with
    | some k => cfg.streets[k]?
    | none => none

def lastStreet : Option Street := cfg.streets.getLast?

/-- `self.street_index == self.street_count - 1` -/
def streetIsLast (s : State) : Bool :=
  s.streetIndex == some ((cfg.streets.length : Int) - 1)

/-- `self.street_index == 0` -/
def streetIsFirst (s : State) : Bool :=
  s.streetIndex == some 0

def liveCount (s : State) : Nat := countTrue s.statuses

/-- `board_count` (1625-1644); the assert on `runout_count` is modelled by `getD 1`
    being unreachable: `street_return_index` is only set when `runout_count` is. -/
def boardCount (s : State) : Int :=
  match s.streetReturnIndex with
  | some _ => cfg.startingBoardCount * s.runoutCount.getD 1
  | none => cfg.startingBoardCount

def boardIndices (s : State) : List Nat := List.range (s.boardCount cfg).toNat

/-- `get_board_cards(board_index)` for a valid board index (1654-1699) -/
def getBoardCards (s : State) (b : Nat) : List Card :=
  match s.streetReturnIndex with
  | some ri =>
    let mid : Int := sumI (((cfg.streets.take ri.toNat).map (·.board)))
    let rc := s.runoutCount.getD 1
    (s.board.zipIdx).filterMap fun (cards, i) =>
      let index : Int := if (i : Int) < mid then Int.fdiv (b : Int) rc else (b : Int)
      if index < cards.length then cards[index.toNat]? else none
  | none =>
    s.board.filterMap fun cards => if b < cards.length then cards[b]? else none

def holeOf (s : State) (i : Nat) : List Card := s.hole.getD i []
def holeStatusesOf (s : State) (i : Nat) : List Bool := s.holeStatuses.getD i []

/-- `get_up_cards(i)` -/
def upCards (s : State) (i : Nat) : List Card :=
  ((s.holeOf i).zip (s.holeStatusesOf i)).filterMap fun (c, st) => if st then some c else none

def downCards (s : State) (i : Nat) : List Card :=
  ((s.holeOf i).zip (s.holeStatusesOf i)).filterMap fun (c, st) => if st then none else some c

def evalErr : EvalErr → Err
  | .keyError => .keyError
  | .valueError => .valueError

/-- `get_hand(i, b, k)` : KeyError and ValueError both give None (1858-1981) -/
def getHand (s : State) (i b k : Nat) : Option Int :=
  if !getB s.statuses i then none
  else match cfg.handTypes[k]? with
    | none => none
    | some ht =>
      match env.eval ht ((s.holeOf i).filter Card.known) (s.getBoardCards cfg b) with
      | .ok v => some v
      | .error _ => none

/-- `get_up_hand(i, b, k)` : KeyError and ValueError both give None, as in `get_hand` (since the F30 repair;
    before it a KeyError - an unknown card among the up cards or on the board - escaped) (1983-2103) -/
def getUpHand (s : State) (i b k : Nat) : Except Err (Option Int) :=
  if !getB s.statuses i then .ok none
  else match cfg.handTypes[k]? with
    | none => .error .indexError
    | some ht =>
      match env.eval ht (s.upCards i) (s.getBoardCards cfg b) with
      | .ok v => .ok (some v)
      | .error .valueError => .ok none
      | .error .keyError => .ok none

def mapExcept (f : α → Except Err β) : List α → Except Err (List β)
  | [] => .ok []
  | x :: xs => match f x with
    | .error e => .error e
    | .ok y => match mapExcept f xs with
      | .error e => .error e
      | .ok ys => .ok (y :: ys)

/-- `tuple(get_up_hands(b, k))` -/
def getUpHands (s : State) (b k : Nat) : Except Err (List (Option Int)) :=
  mapExcept (fun i => s.getUpHand cfg env i b k) (playerIndices cfg)

/-- `max_or_none` over optional integers -/
def maxOrNone (l : List (Option Int)) : Option Int :=
  l.foldl (fun acc x => match acc, x with
    | none, x => x
    | some a, none => some a
    | some a, some b => some (max a b)) none

/-- `get_effective_ante(i)` (2920-2935) -/
def effectiveAnte (i : Nat) : Int :=
  let ante := if cfg.n == 2 then getI cfg.antes (if i == 0 then 1 else 0) else getI cfg.antes i
  min ante (getI cfg.startingStacks i)

/-- `get_effective_blind_or_straddle(i)` (3295-3315) -/
def effectiveBlind (i : Nat) : Int :=
  let b := if cfg.n == 2 then (getI cfg.blinds (if i == 0 then 1 else 0)).natAbs
           else (getI cfg.blinds i).natAbs
  min (b : Int) (getI cfg.startingStacks i - effectiveAnte cfg i)

/-- `any(self.board_cards)` -/
def boardNonEmpty (s : State) : Bool := s.board.any (fun l => !l.isEmpty)

/-- user `divmod` -/
def divmod (a : Int) (k : Int) : Except Err (Int × Int) :=
  if k = 0 then .error .zeroDivisionError
  else
    let q := Int.fdiv a k
    let q := if cfg.divChunk ≤ 1 then q else Int.fdiv q cfg.divChunk * cfg.divChunk
    .ok (q, a - q * k)

/-- `Pot(raked, unraked, players)` : `__post_init__` raises ValueError on negative amounts -/
def mkPot (raked unraked : Int) (players : List Nat) : Except Err Pot :=
  if raked < 0 then .error .valueError
  else if unraked < 0 then .error .valueError
  else .ok ⟨raked, unraked, players⟩

/-- `for i: if contributions[i] >= contribution: amount += contribution - previous` -/
def levelAmount (contributions : List Int) (amount prev v : Int) : Int :=
  (playerIndices cfg).foldl (fun a i =>
    if getI contributions i ≥ v then a + (v - prev) else a) amount

/-- `[i for i if pending_contributions[i] >= contribution and statuses[i]]` -/
def levelPlayers (s : State) (pending : List Int) (v : Int) : List Nat :=
  (playerIndices cfg).filter fun i => getI pending i ≥ v && getB s.statuses i

/-- `while pots and pots[-1].player_indices == players: amount += pots.pop().amount`
    (the pot list is kept reversed: its head is the last pot) -/
def popSame (players : List Nat) : List Pot → Int → List Pot × Int
  | p :: rest, amount =>
    if p.players == players then popSame players rest (amount + p.amount) else (p :: rest, amount)
  | [], amount => ([], amount)

/-- one round of the loop over `sorted(set(contributions))` in `pots` (2853-2877) -/
def potsStep (s : State) (contributions pending : List Int)
    (acc : Except Err (List Pot × Int × Int)) (v : Int) :
    Except Err (List Pot × Int × Int) :=
  match acc with
  | .error e => .error e
  | .ok (pots, amount, prev) =>
    let players := levelPlayers cfg s pending v
    let r := popSame players pots (levelAmount cfg contributions amount prev v)
    if r.2 != 0 then
      match mkPot (pyRake cfg.rake (s.boardNonEmpty) r.2).1 (pyRake cfg.rake (s.boardNonEmpty) r.2).2
          players with
      | .error e => .error e
      | .ok p => .ok (p :: r.1, 0, v)
    else .ok (r.1, 0, v)

/-- the initial amount and the two contribution vectors of `pots` (2831-2848): with ante
    trimming off the antes are put in up front and taken out of every contribution -/
def potsInputs (s : State) : Int × List Int × List Int :=
  let contributions := (playerIndices cfg).map fun i => - getI s.payoffs i - getI s.bets i
  let pending := (playerIndices cfg).map fun i => - getI s.payoffs i
  if !cfg.anteTrim then
    ( sumI ((playerIndices cfg).map (effectiveAnte cfg)),
      (playerIndices cfg).map (fun i => getI contributions i - effectiveAnte cfg i),
      (playerIndices cfg).map (fun i => getI pending i - effectiveAnte cfg i) )
  else (0, contributions, pending)

/-- `list(self.pots)` (2739-2879) -/
def pots (s : State) : Except Err (List Pot) :=
  match s.pots_ with
  | some ps => .ok ps
  | none =>
    if sumI s.payoffs == - sumI s.bets then .ok []
    else if (playerIndices cfg).any (fun i => getI s.payoffs i > 0) then .error .assertionError
    else
      match (sortedSet (potsInputs cfg s).2.1).foldl
          (potsStep cfg s (potsInputs cfg s).2.1 (potsInputs cfg s).2.2)
          (.ok ([], (potsInputs cfg s).1, 0)) with
      | .error e => .error e
      | .ok r => .ok r.1.reverse

/-- `total_pot_amount` -/
def totalPotAmount (s : State) : Except Err Int :=
  match s.pots cfg with
  | .error e => .error e
  | .ok ps => .ok (sumI s.bets + sumI (ps.map Pot.amount))

/-- `hand is not None and (max_hand is None or max_hand <= hand)` for one pot, `max_hand` being
    the best shown hand among the pot's eligible players -/
def winsPot (hands : List (Option Int)) (hand : Option Int) (pot : Pot) : Bool :=
  match hand with
  | none => false
  | some h => match maxOrNone (pot.players.map fun i => hands.getD i none) with
    | none => true
    | some m => decide (m ≤ h)

/-- `can_win_now(i)` (2197-2301).  Evaluation order: boards, hand types, `get_up_hands`,
    `get_hand`, then every pot. -/
def canWinNow (s : State) (p : Nat) : Except Err Bool :=
  let rec goTypes (b : Nat) (ks : List Nat) : Except Err Bool :=
    match ks with
    | [] => .ok false
    | k :: ks =>
      match s.getUpHands cfg env b k with
      | .error e => .error e
      | .ok hands =>
        let hand := s.getHand cfg env p b k
        match s.pots cfg with
        | .error e => .error e
        | .ok ps =>
          if ps.any (fun pot => winsPot hands hand pot) then .ok true
          else goTypes b ks
  let rec goBoards (bs : List Nat) : Except Err Bool :=
    match bs with
    | [] => .ok false
    | b :: bs =>
      match goTypes b (List.range cfg.handTypes.length) with
      | .error e => .error e
      | .ok true => .ok true
      | .ok false => goBoards bs
  goBoards (s.boardIndices cfg)

/-- `reserved_cards` : known cards of burn, muck, discards -/
def reservedCards (s : State) : List Card :=
  (s.burned ++ s.mucked ++ s.discarded.flatten).filter Card.known

/-- `tuple(get_dealable_cards(deal_count))` (2357-2390) -/
def dealableCards (s : State) (dealCount : Option Int) : List Card :=
  let more := match dealCount with
    | none => true
    | some k => decide (k > s.deck.length)
  if more then s.deck ++ env.shuffle s.reservedCards else s.deck

/-- result of a verification that may also emit a warning -/
structure Verdict (α : Type) where
  val : α
  warned : Bool := false

/-- `warn(...)` : raises `UserWarning` when warnings are errors -/
def warnOr (x : α) : Except Err (Verdict α) :=
  if cfg.warnErr then .error .userWarning else .ok ⟨x, true⟩

inductive CardsArg where
  | none
  | count (k : Int)
  | cards (l : List Card)
deriving Repr, DecidableEq, Inhabited

/-- the loop of `_verify_cards_consumption`: every known card of the request is taken out of the pool
    of dealable cards — a card that is not there (foreign, in play, or named once more than the pool
    holds it) draws the warning.  `none`: a warning; `some pool'`: what is left of the pool -/
def coverKnown (pool : List Card) : List Card → Option (List Card)
  | [] => some pool
  | c :: cs =>
    if !c.known then coverKnown pool cs
    else if pool.contains c then coverKnown (pool.erase c) cs
    else none

/-- `_verify_cards_consumption(cards)` (2407-2433) -/
def verifyCardsConsumption (s : State) : CardsArg → Except Err (Verdict (List Card))
  | .none => .error .typeError
  | .count k =>
    let dealable := s.dealableCards env (some k)
    if (dealable.length : Int) < k then .error .valueError
    else .ok ⟨pyTake dealable k, false⟩
  | .cards cs =>
    let dealable := s.dealableCards env (some cs.length)
    if (coverKnown dealable cs).isNone then warnOr cfg cs
    else .ok ⟨cs, false⟩

/-- `_produce_cards(cards)` (2402-2405): `deque.extend` consumes the lazy filter one
    element at a time, so a card appended earlier is seen by `__contains__`. -/
def produceCards (s : State) (cards : List Card) : State :=
  let deck' := (cards.filter Card.known).foldl
      (fun d c => if d.contains c then d else d ++ [c]) s.deck
  { s with deck := deck' }

/-- python `set(a) > set(b)` : strict superset -/
def strictSuperset (a b : List Card) : Bool :=
  b.all (a.contains ·) && a.any (fun c => !b.contains c)

/-- `_consume_cards(cards)` (2435-2457) -/
def consumeCards (s : State) (cards : List Card) : State :=
  let s :=
    if strictSuperset cards s.deck then
      let s' := s.produceCards (env.shuffle s.reservedCards)
      { s' with mucked := [], burned := [], discarded := s'.discarded.map fun _ => [] }
    else s
  cards.foldl (fun s c =>
    { s with
      deck := s.deck.erase c
      burned := s.burned.erase c
      mucked := s.mucked.erase c
      discarded := s.discarded.map (·.erase c) }) s

/-- `_muck_hole_cards(i)` (2392-2400) -/
def muckHoleCards (s : State) (i : Nat) : Except Err State :=
  if !getB s.statuses i then .error .assertionError
  else .ok { s with
    mucked := s.mucked ++ s.holeOf i
    statuses := s.statuses.set i false
    hole := s.hole.set i []
    holeStatuses := s.holeStatuses.set i [] }

/-- `get_effective_stack(i)` (2459-2487) -/
def effectiveStack (s : State) (i : Nat) : Except Err Int :=
  if s.streetIndex.isNone || !getB s.statuses i then .ok 0
  else
    let eff := (playerIndices cfg).filterMap fun j =>
      if getB s.statuses j then some (getI s.bets j + getI s.stacks j) else none
    if eff.length ≤ 1 then .error .assertionError
    else
      let sorted := sortI eff
      let second := sorted.getD (sorted.length - 2) 0
      .ok (min (getI s.stacks i) (max 0 (second - getI s.bets i)))

/-! ### verification of every operation -/

def firstTrue (l : List Bool) : Option Nat := indexOf? l true

/-- `verify_ante_posting(i)` (2992-3016) -/
def verifyAntePosting (s : State) (i : Option Nat) : Except Err Nat :=
  if !anyB s.antePosting then .error .valueError
  else
    let p := match i with
      | some p => p
      | none => (firstTrue s.antePosting).getD 0
    if p ≥ cfg.n then .error .indexError
    else if !getB s.antePosting p then .error .valueError
    else .ok p

/-- `verify_bet_collection()` -/
def verifyBetCollection (s : State) : Except Err Unit :=
  if !s.betCollection then .error .valueError else .ok ()

/-- `verify_blind_or_straddle_posting(i)` -/
def verifyBlindPosting (s : State) (i : Option Nat) : Except Err Nat :=
  if !anyB s.blindPosting then .error .valueError
  else
    let p := match i with
      | some p => p
      | none => (firstTrue s.blindPosting).getD 0
    if p ≥ cfg.n then .error .indexError
    else if !getB s.blindPosting p then .error .valueError
    else .ok p

def anyHoleDealing (s : State) : Bool := s.holeDealing.any (fun d => !d.isEmpty)
def anyBoardDealing (s : State) : Bool := s.boardDealing.any (· != 0)

/-- `verify_card_burning(card)` (3601-3637) -/
def verifyCardBurning (s : State) (arg : CardsArg) : Except Err (Verdict Card) :=
  match s.verifyCardsConsumption cfg env (match arg with | .none => .count 1 | a => a) with
  | .error e => .error e
  | .ok v =>
    if !s.cardBurning then .error .valueError
    else if anyB s.standingPat then .error .valueError
    else match v.val with
      | [c] => .ok ⟨c, v.warned⟩
      | _ => .error .valueError

/-- `_verify_hole_dealing()` (3729-3740) -/
def verifyHoleDealing0 (s : State) : Except Err Unit :=
  if s.cardBurning then .error .valueError
  else if !s.anyHoleDealing then .error .valueError
  else if anyB s.standingPat then .error .valueError
  else .ok ()

/-- `hole_dealee_index` (3696-3727) -/
def holeDealeeIndex (s : State) : Option Nat :=
  match s.verifyHoleDealing0 with
  | .error _ => none
  | .ok () =>
    match s.street cfg with
    | none => none
    | some st =>
      if !st.hole.isEmpty then
        -- max over players of (len(statuses[i]), -i): longest queue, lowest index on ties
        (playerIndices cfg).foldl (fun best i =>
          match best with
          | none => some i
          | some b => if (s.holeDealing.getD i []).length > (s.holeDealing.getD b []).length
                      then some i else some b) none
      else
        (playerIndices cfg).find? fun i => !(s.holeDealing.getD i []).isEmpty

/-- `verify_hole_dealing(cards, i)` (3742-3788) -/
def verifyHoleDealing (s : State) (arg : CardsArg) (i : Option Nat) :
    Except Err (Verdict (List Card × Nat)) :=
  match s.verifyHoleDealing0 with
  | .error e => .error e
  | .ok () =>
    match s.verifyCardsConsumption cfg env (match arg with | .none => .count 1 | a => a) with
    | .error e => .error e
    | .ok v =>
      let p? := match i with
        | some p => some p
        | none => s.holeDealeeIndex cfg
      match p? with
      | none => .error .assertionError
      | some p =>
        if p ≥ cfg.n then .error .indexError
        else
          let q := s.holeDealing.getD p []
          if q.isEmpty then .error .valueError
          else if !(1 ≤ v.val.length && v.val.length ≤ q.length) then .error .valueError
          else .ok ⟨(v.val, p), v.warned⟩

/-- `_verify_board_dealing()` -/
def verifyBoardDealing0 (s : State) : Except Err Unit :=
  if s.cardBurning then .error .valueError
  else if !s.anyBoardDealing then .error .valueError
  else if anyB s.standingPat then .error .valueError
  else .ok ()

/-- `board_dealing_count` property (3863-3876) -/
def boardDealingCount (s : State) : Option Int :=
  match s.verifyBoardDealing0 with
  | .error _ => none
  | .ok () => s.boardDealing.find? (· != 0)

/-- `verify_board_dealing(cards)` (3886-3916) -/
def verifyBoardDealing (s : State) (arg : CardsArg) : Except Err (Verdict (List Card)) :=
  match s.verifyBoardDealing0 with
  | .error e => .error e
  | .ok () =>
    match s.boardDealingCount with
    | none => .error .assertionError
    | some bdc =>
      match s.verifyCardsConsumption cfg env (match arg with | .none => .count bdc | a => a) with
      | .error e => .error e
      | .ok v =>
        if !(0 < v.val.length && (v.val.length : Int) ≤ bdc) then .error .valueError
        else .ok v

/-- `stander_pat_or_discarder_index` -/
def standerPatIndex (s : State) : Option Nat := firstTrue s.standingPat

/-- `verify_standing_pat_or_discarding(cards)` (4006-4035) -/
def verifyStandingPat (s : State) (cards : List Card) : Except Err (List Card) :=
  match s.standerPatIndex with
  | none => .error .valueError
  | some p =>
    -- `Counter(cards) <= Counter(hole_cards[p])`
    if cards.all (fun c => cards.count c ≤ (s.holeOf p).count c) then .ok cards else .error .valueError

/-- `actor_index` (4303-4317) -/
def actorIndex (s : State) : Except Err (Option Nat) :=
  match s.actors with
  | [] => .ok none
  | a :: _ => if getI s.stacks a == 0 then .error .assertionError else .ok (some a)

/-- `verify_folding()` (4319-4343) -/
def verifyFolding (s : State) : Except Err (Verdict Unit) :=
  if s.actors.isEmpty then .error .valueError
  else if s.bringInStatus then .error .valueError
  else match s.actorIndex with
    | .error e => .error e
    | .ok none => .error .assertionError
    | .ok (some p) =>
      if getI s.bets p ≥ maxI s.bets then
        if cfg.tournament then .error .valueError else warnOr cfg ()
      else .ok ⟨(), false⟩

/-- `verify_checking_or_calling()` -/
def verifyCheckingOrCalling (s : State) : Except Err Unit :=
  if s.actors.isEmpty then .error .valueError
  else if s.bringInStatus then .error .valueError
  else .ok ()

/-- `checking_or_calling_amount` -/
def checkingOrCallingAmount (s : State) : Except Err (Option Int) :=
  match s.verifyCheckingOrCalling with
  | .error _ => .ok none
  | .ok () => match s.actorIndex with
    | .error e => .error e
    | .ok none => .error .assertionError
    | .ok (some p) => .ok (some (min (getI s.stacks p) (maxI s.bets - getI s.bets p)))

/-- `verify_bring_in_posting()` -/
def verifyBringInPosting (s : State) : Except Err Unit :=
  if s.actors.isEmpty then .error .valueError
  else if !s.bringInStatus then .error .valueError
  else .ok ()

/-- `effective_bring_in_amount` -/
def effectiveBringInAmount (s : State) : Except Err (Option Int) :=
  match s.verifyBringInPosting with
  | .error _ => .ok none
  | .ok () => match s.actorIndex with
    | .error e => .error e
    | .ok none => .error .assertionError
    | .ok (some p) => .ok (some (min (getI s.stacks p) cfg.bringIn))

/-- `_verify_completion_betting_or_raising()` (4732-4795) -/
def verifyCbr0 (s : State) : Except Err Nat :=
  if s.actors.isEmpty then .error .valueError
  else match s.street cfg with
    | none => .error .assertionError
    | some st =>
      if (match st.maxCount with | some c => s.cbrCount == c | none => false) then .error .valueError
      else match s.actorIndex with
        | .error e => .error e
        | .ok none => .error .assertionError
        | .ok (some p) =>
          if !s.consecAllIn.isEmpty && sumI s.consecAllIn < s.cbrAmount && s.acted.contains p
          then .error .valueError
          else if getI s.stacks p ≤ maxI s.bets - getI s.bets p then .error .valueError
          else if !((playerIndices cfg).any fun i =>
              i != p && getB s.statuses i && getI s.stacks i + getI s.bets i > maxI s.bets)
          then .error .valueError
          else .ok p

/-- `min_completion_betting_or_raising_to_amount` (4640-4669) -/
def minCbrTo (s : State) : Except Err (Option Int) :=
  match s.verifyCbr0 cfg with
  | .error .assertionError => .error .assertionError
  | .error _ => .ok none
  | .ok p =>
    match s.street cfg with
    | none => .error .assertionError
    | some st =>
      let amount := max s.cbrAmount st.minBet
      let amount := if !s.completionStatus then amount + maxI s.bets else amount
      match s.effectiveStack cfg p with
      | .error e => .error e
      | .ok eff => .ok (some (min (eff + getI s.bets p) amount))

/-- `pot_completion_betting_or_raising_to_amount` (4671-4695) -/
def potCbrTo (s : State) : Except Err (Option Int) :=
  match s.verifyCbr0 cfg with
  | .error .assertionError => .error .assertionError
  | .error _ => .ok none
  | .ok p =>
    match s.minCbrTo cfg with
    | .error e => .error e
    | .ok none => .error .assertionError
    | .ok (some mn) =>
      match s.totalPotAmount cfg with
      | .error e => .error e
      | .ok tp =>
        .ok (some (min (getI s.stacks p + getI s.bets p)
          (max mn (2 * maxI s.bets - getI s.bets p + tp))))

/-- `max_completion_betting_or_raising_to_amount` (4697-4730) -/
def maxCbrTo (s : State) : Except Err (Option Int) :=
  match s.verifyCbr0 cfg with
  | .error .assertionError => .error .assertionError
  | .error _ => .ok none
  | .ok p =>
    let r := match cfg.structure_ with
      | .fixedLimit => s.minCbrTo cfg
      | .potLimit => s.potCbrTo cfg
      | .noLimit => .ok (some (getI s.stacks p + getI s.bets p))
    match r with
    | .error e => .error e
    | .ok none => .error .assertionError
    | .ok (some a) =>
      if a ≤ getI s.stacks p + getI s.bets p then .ok (some a) else .error .assertionError

/-- `verify_completion_betting_or_raising_to(amount)` (4797-4835) -/
def verifyCbr (s : State) (amount : Option Int) : Except Err Int :=
  match s.verifyCbr0 cfg with
  | .error e => .error e
  | .ok _ =>
    match s.minCbrTo cfg, s.maxCbrTo cfg with
    | .error e, _ => .error e
    | _, .error e => .error e
    | .ok none, _ => .error .assertionError
    | _, .ok none => .error .assertionError
    | .ok (some mn), .ok (some mx) =>
      let a := amount.getD mn
      if a < mn then .error .valueError
      else if a > mx then .error .valueError
      else .ok a

/-- `verify_runout_count_selection(runout_count, player_index)` (5160-5194) -/
def verifyRunoutCountSelection (s : State) (count : Option Int) (i : Option Nat) : Except Err Nat :=
  if !anyB s.runoutSelectors then .error .valueError
  else
    let p := match i with
      | some p => p
      | none => (firstTrue s.runoutSelectors).getD 0
    if p ≥ cfg.n then .error .indexError
    else if !getB s.runoutSelectors p then .error .valueError
    else if (match count with | some c => decide (c < 1) | none => false) then .error .valueError
    else .ok p

/-- `_verify_hole_cards_showing_or_mucking()` -/
def verifyShow0 (s : State) : Except Err Unit :=
  if s.showdown.isEmpty && (s.street cfg).isSome then .error .valueError else .ok ()

/-- `showdown_index` -/
def showdownIndex (s : State) : Option Nat :=
  match s.verifyShow0 cfg with
  | .error _ => none
  | .ok () => s.showdown.head?

inductive ShowArg where
  | none
  | status (b : Bool)
  | cards (l : List Card)
deriving Repr, DecidableEq, Inhabited

structure ShowPlan where
  status : Bool
  cards : List Card
  holeCards : List Card
  holeStatuses : List Bool
  player : Nat
deriving Repr, DecidableEq

/-- the player a show/muck refers to: the explicit one, else the head of the showdown queue
    (state.py:5411-5427) -/
def showPlayer (s : State) (i : Option Nat) : Except Err Nat :=
  let streetNone := (s.street cfg).isNone
  let p? : Except Err Nat := match i with
    | some p => .ok p
    | none =>
      if streetNone then .error .valueError
      else match s.showdownIndex cfg with
        | some p => .ok p
        | none => .error .assertionError
  match p? with
  | .error e => .error e
  | .ok p =>
    if p ≥ cfg.n then .error .indexError
    else if !getB s.statuses p then .error .valueError
    else if !streetNone && !s.showdown.contains p then .error .valueError
    else .ok p

/-- the three ways of calling `show_or_muck_hole_cards` (state.py:5429-5470): an explicit bool,
    nothing (the engine decides: show iff all-in or can win now), or explicit cards -/
def showExplicit (s : State) (arg : ShowArg) (p : Nat) :
    Except Err (Verdict (Bool × Option (List Card × List Card × List Bool))) :=
  let own := s.holeOf p
  match arg with
  | .status b => .ok ⟨(b, none), false⟩
  | .none =>
    if s.allIn then .ok ⟨(true, none), false⟩
    else match s.canWinNow cfg env p with
      | .error e => .error e
      | .ok b => .ok ⟨(b, none), false⟩
  | .cards cs =>
    if cs.length > own.length then .error .valueError
    else
      let cards := cs ++ List.replicate (own.length - cs.length) Card.unknownCard
      let hc := cards.filter Card.known
      let hs := List.replicate hc.length true
      let hc :=
        if !s.streetIsLast cfg then
          let count := own.length - hc.length
          hc ++ ((own.filter Card.known).filter (fun c => !hc.contains c)).take count
        else hc
      let hc := hc ++ List.replicate (own.length - hc.length) Card.unknownCard
      let hs := hs ++ List.replicate (own.length - hs.length) false
      -- each card the player already holds accounts for one mention of it (state.py, since the F23 repair)
      let extra := own.foldl (fun l c => l.erase c) (hc.filter Card.known)
      match s.verifyCardsConsumption cfg env (.cards extra) with
      | .error e => .error e
      | .ok v => .ok ⟨(true, some (cards, hc, hs)), v.warned⟩

/-- shown cards, new hole cards and their facings (state.py:5472-5486) -/
def showTriple (own : List Card) (status : Bool) (plan : Option (List Card × List Card × List Bool)) :
    List Card × List Card × List Bool :=
  match plan with
  | some x => x
  | none => if status then (own, own, List.replicate own.length true) else ([], [], [])

/-- the final checks (state.py:5488-5523): the tournament must-show rule (all three python
    branches raise ValueError), no unknown card shown, the length asserts, non-standard showdown -/
def showFinal (s : State) (p : Nat) (status : Bool) (t : List Card × List Card × List Bool)
    (warned : Bool) : Except Err (Verdict ShowPlan) :=
  let own := s.holeOf p
  if cfg.tournament && status && (t.1.filter Card.known).length < own.length then .error .valueError
  else if (t.2.1.zip t.2.2).any (fun (c, st) => !c.known && st) then .error .valueError
  else if status && !(t.1.length == t.2.1.length && t.2.1.length == own.length
        && own.length == t.2.2.length && t.2.2.length == (s.holeStatusesOf p).length) then
    .error .assertionError
  else if (s.street cfg).isNone && (!status || !allB t.2.2) then .error .valueError
  else .ok ⟨⟨status, t.1, t.2.1, t.2.2, p⟩, warned⟩

/-- `verify_hole_cards_showing_or_mucking(status_or_hole_cards, player_index)` (5385-5525) -/
def verifyShow (s : State) (arg : ShowArg) (i : Option Nat) : Except Err (Verdict ShowPlan) :=
  match s.verifyShow0 cfg with
  | .error e => .error e
  | .ok () =>
    match s.showPlayer cfg i with
    | .error e => .error e
    | .ok p =>
      match s.showExplicit cfg env arg p with
      | .error e => .error e
      | .ok v => s.showFinal cfg p v.val.1 (showTriple (s.holeOf p) v.val.1 v.val.2) v.warned

/-- `verify_hand_killing(i)` -/
def verifyHandKilling (s : State) (i : Option Nat) : Except Err Nat :=
  if !anyB s.handKilling then .error .valueError
  else
    let p := match i with
      | some p => p
      | none => (firstTrue s.handKilling).getD 0
    if p ≥ cfg.n then .error .indexError
    else if !getB s.handKilling p then .error .valueError
    else .ok p

/-- `verify_chips_pushing()` -/
def verifyChipsPushing (s : State) : Except Err Unit :=
  if s.subPots.isEmpty then .error .valueError else .ok ()

/-- `verify_chips_pulling(i)` -/
def verifyChipsPulling (s : State) (i : Option Nat) : Except Err Nat :=
  if !anyB s.chipsPulling then .error .valueError
  else
    let p := match i with
      | some p => p
      | none => (firstTrue s.chipsPulling).getD 0
    if p ≥ cfg.n then .error .indexError
    else if !getB s.chipsPulling p then .error .valueError
    else .ok p

/-- `turn_index` (1598-1623) -/
def turnIndex (s : State) : Except Err (Option Nat) :=
  match s.standerPatIndex with
  | some p => .ok (some p)
  | none => match s.actorIndex with
    | .error e => .error e
    | .ok (some p) => .ok (some p)
    | .ok none => .ok (s.showdownIndex cfg)

end State

/-- `State.__post_init__` validation (1183-1227), in the order of the `elif` chain -/
def Config.validate (c : Config) : Option Err :=
  match c.streets with
  | [] => some .valueError
  | st0 :: _ =>
    if st0.hole.isEmpty then some .valueError
    else if c.n == 0 then some .valueError          -- `min(())` raises ValueError
    else if minI c.antes < 0 || c.bringIn < 0 then some .valueError
    else if !c.antes.any (· != 0) && !c.blinds.any (· != 0) && c.bringIn == 0 then some .valueError
    else if minI c.startingStacks ≤ 0 then some .valueError
    else if c.blinds.any (· != 0) && c.bringIn != 0 then some .valueError
    else if c.bringIn ≥ st0.minBet then some .valueError
    else if c.n < 2 then some .valueError
    else if c.startingBoardCount ≤ 0 then some .valueError
    else none

end PK
