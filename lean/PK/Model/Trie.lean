/-
  PK.Model.Trie — a Nat-keyed binary radix trie (least significant bit first), the dictionary the
  lookup tables are kept in.  Everything is structurally recursive (on the trie or on an explicit
  fuel), so the kernel can evaluate table construction and look-ups; it replaces the hash maps of
  the python code (dict semantics: last write wins).  Core Lean only.
-/
namespace PK

inductive Trie (α : Type) where
  | leaf : Trie α
  | node : Option α → Trie α → Trie α → Trie α
deriving Repr, Inhabited

namespace Trie

/-- look-up: structural on the trie -/
def get? : Trie α → Nat → Option α
  | leaf, _ => none
  | node v l r, k => if k = 0 then v else if k % 2 = 0 then get? l (k / 2) else get? r (k / 2)

/-- insertion with explicit fuel (one unit per bit of the key) -/
def insertAux : Nat → Trie α → Nat → α → Trie α
  | 0, t, _, _ => t
  | f + 1, leaf, k, v =>
    if k = 0 then node (some v) leaf leaf
    else if k % 2 = 0 then node none (insertAux f leaf (k / 2) v) leaf
    else node none leaf (insertAux f leaf (k / 2) v)
  | f + 1, node x l r, k, v =>
    if k = 0 then node (some v) l r
    else if k % 2 = 0 then node x (insertAux f l (k / 2) v) r
    else node x l (insertAux f r (k / 2) v)

/-- keys below 2^64 -/
def insert (t : Trie α) (k : Nat) (v : α) : Trie α := insertAux 65 t k v

def contains (t : Trie α) (k : Nat) : Bool := (t.get? k).isSome

def empty : Trie α := leaf

end Trie
end PK
