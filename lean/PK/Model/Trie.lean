/-
  PK.Model.Trie — a Nat-keyed binary radix trie (least significant bit first) with single-key
  subtrees collapsed into a tip; the dictionary the lookup tables are kept in.  Everything is
  structurally recursive (on the trie, or on an explicit fuel where two keys are split apart), so the
  kernel can evaluate table construction and look-ups; it replaces the hash maps of the python code
  (dict semantics: last write wins).  Core Lean only.
-/
namespace PK

inductive Trie (α : Type) where
  | empty : Trie α
  | tip : Nat → α → Trie α            -- the only key of this subtree (its remaining bits) and its value
  | node : Trie α → Trie α → Trie α   -- remaining key even / odd
deriving Repr, Inhabited

namespace Trie

/-- look-up: structural on the trie -/
def get? : Trie α → Nat → Option α
  | empty, _ => none
  | tip k' v, k => if k = k' then some v else none
  | node l r, k => if k % 2 = 0 then get? l (k / 2) else get? r (k / 2)

/-- the trie holding two different keys (fuel: one unit per bit in which they may agree) -/
def two : Nat → Nat → α → Nat → α → Trie α
  | 0, k1, v1, _, _ => tip k1 v1
  | f + 1, k1, v1, k2, v2 =>
    if k1 % 2 = k2 % 2 then
      (if k1 % 2 = 0 then node (two f (k1 / 2) v1 (k2 / 2) v2) empty
       else node empty (two f (k1 / 2) v1 (k2 / 2) v2))
    else if k1 % 2 = 0 then node (tip (k1 / 2) v1) (tip (k2 / 2) v2)
    else node (tip (k2 / 2) v2) (tip (k1 / 2) v1)

/-- insertion (keys below 2^64): structural on the trie; an existing key gets the new value -/
def insert : Trie α → Nat → α → Trie α
  | empty, k, v => tip k v
  | tip k' v', k, v => if k = k' then tip k v else two 64 k' v' k v
  | node l r, k, v => if k % 2 = 0 then node (insert l (k / 2) v) r else node l (insert r (k / 2) v)

def contains (t : Trie α) (k : Nat) : Bool := (t.get? k).isSome

/-- fold over the values (in trie order) -/
def fold (f : β → α → β) : β → Trie α → β
  | b, empty => b
  | b, tip _ v => f b v
  | b, node l r => fold f (fold f b l) r

end Trie
end PK
