/-
  PK.Model.Lookup — model of pokerkit/lookups.py (and the two opening lookups of state.py).
  Entries are generated with the same loops, in the same order, with the same
  last-write-wins dictionary semantics and the same dense re-indexing.
-/
import PK.Model.Card
import PK.Model.Trie
namespace PK

/-- `Label` members in definition order, coded 0..8 -/
abbrev Label := Nat
namespace Label
def highCard : Label := 0
def onePair : Label := 1
def twoPair : Label := 2
def threeOfAKind : Label := 3
def straight : Label := 4
def flush : Label := 5
def fullHouse : Label := 6
def fourOfAKind : Label := 7
def straightFlush : Label := 8
def names : List String := ["High card","One pair","Two pair","Three of a kind","Straight",
  "Flush","Full house","Four of a kind","Straight flush"]
end Label

/-- `Lookup.__primes`, zipped with `Rank` (the unknown rank has no multiplier → KeyError) -/
def primes : List Nat := [2,3,5,7,11,13,17,19,23,29,31,37,41]

/-- `__multipliers[rank]`; `none` = KeyError -/
def multiplier (r : Rank) : Option Nat := primes[r]?

/-- `Lookup.__hash(ranks)`; `none` = KeyError -/
def hashRanks : List Rank → Option Nat
  | [] => some 1
  | r :: rs => match multiplier r, hashRanks rs with
    | some p, some h => some (p * h)
    | _, _ => none

/-- hash of known ranks (total version, used during table generation where all ranks are known) -/
def hashRanks! (rs : List Rank) : Nat := rs.foldl (fun acc r => acc * primes.getD r 1) 1

/-- `itertools.combinations(l, k)` in lexicographic position order -/
def combinations : List α → Nat → List (List α)
  | _, 0 => [[]]
  | [], _ + 1 => []
  | x :: xs, k + 1 => (combinations xs k).map (x :: ·) ++ combinations xs (k + 1)

/-- `Lookup.__hash_multisets(ranks, counter)`; `counter` is given as the list of
    `(multiplicity, count)` pairs in **descending multiplicity** (`max(counter)` first).
    Fuel = length of the counter (structural). -/
def hashMultisets (ranks : List Rank) : List (Nat × Nat) → List Nat
  | [] => [1]
  | (mult, count) :: rest =>
    (combinations ranks.reverse count).flatMap fun samples =>
      let h := (hashRanks! samples) ^ mult
      (hashMultisets (ranks.filter (fun r => !samples.contains r)) rest).map (h * ·)

/-- raw insertion: `(hash, suitedness) ↦ (entry_count, label)` in insertion order -/
structure RawEntry where
  hash : Nat
  suited : Bool
  index : Nat
  label : Label
deriving Repr, DecidableEq, Inhabited

structure Builder where
  raw : List RawEntry := []      -- reversed insertion order
  count : Nat := 0

/-- `Lookup.__add_entry` -/
def Builder.addEntry (b : Builder) (h : Nat) (suits : List Bool) (label : Label) : Builder :=
  { raw := (suits.map fun s => (⟨h, s, b.count, label⟩ : RawEntry)).reverse ++ b.raw
    count := b.count + 1 }

/-- `Lookup._add_multisets` -/
def Builder.addMultisets (b : Builder) (rankOrder : List Rank) (counter : List (Nat × Nat))
    (suits : List Bool) (label : Label) : Builder :=
  (hashMultisets rankOrder counter).reverse.foldl (fun b h => b.addEntry h suits label) b

/-- `Lookup._add_straights` -/
def Builder.addStraights (b : Builder) (rankOrder : List Rank) (count : Nat)
    (suits : List Bool) (label : Label) : Builder :=
  let wheel := rankOrder.drop (rankOrder.length - 1) ++ rankOrder.take (count - 1)
  let b := b.addEntry (hashRanks! wheel) suits label
  (List.range (rankOrder.length - count + 1)).foldl
    (fun b i => b.addEntry (hashRanks! ((rankOrder.drop i).take count)) suits label) b

/-- final table entry -/
structure Entry where
  index : Nat
  label : Label
deriving Repr, DecidableEq, Inhabited, BEq

abbrev Key := Nat × Bool

/-- the trie key of a table key `(hash, suitedness)` -/
def Key.code (k : Key) : Nat := 2 * k.1 + (if k.2 then 1 else 0)

/-- A finished lookup.  `dict`: the dictionary `(hash, suitedness) ↦ (raw index, label)` after all
    insertions (last write wins); `rankArr`: the re-ranking of `__reset_ranks` — 16-bit cell `i` holds
    the number of surviving raw indices below the surviving raw index `i`; `entries`: the table in
    python's dictionary order (first insertion), used only to print it. -/
structure Lookup where
  dict : Trie (Nat × Label)
  rankArr : Nat
  entries : List (Key × Entry)

/-- cell `i` of an array of 16-bit cells kept in a natural number -/
def cell16 (arr i : Nat) : Nat := (arr >>> (16 * i)) % 65536

def Lookup.get? (t : Lookup) (k : Key) : Option Entry :=
  match t.dict.get? k.code with
  | none => none
  | some (i, label) => some ⟨cell16 t.rankArr i, label⟩
def Lookup.contains (t : Lookup) (k : Key) : Bool := t.dict.contains k.code

def Lookup.empty : Lookup := { dict := Trie.empty, rankArr := 0, entries := [] }

/-- last-write-wins dictionary + dense re-indexing -/
def Builder.finish (b : Builder) : Lookup :=
  let ins := b.raw.reverse
  let dict : Trie (Nat × Label) :=
    ins.foldl (fun m e => m.insert (Key.code (e.hash, e.suited)) (e.index, e.label)) Trie.empty
  -- `__reset_ranks`: the surviving raw indices (a bit set), ranked densely in increasing order.  Raw
  -- indices are 0 .. count-1, so the dense rank of `i` is the number of surviving indices below it.
  let alive : Nat := dict.fold (fun mask v => mask ||| (1 <<< v.1)) 0
  let rankArr : Nat :=
    ((List.range b.count).foldl (fun (acc : Nat × Nat) i =>
      if alive.testBit i then (acc.1 ||| (acc.2 <<< (16 * i)), acc.2 + 1) else acc) (0, 0)).1
  -- python's dictionary order: keys in order of first insertion
  let keys : List Key :=
    (ins.foldl (fun (acc : List Key × Trie Unit) e =>
      let k : Key := (e.hash, e.suited)
      if acc.2.contains k.code then acc else (k :: acc.1, acc.2.insert k.code ())) ([], Trie.empty)).1.reverse
  let t0 : Lookup := { dict := dict, rankArr := rankArr, entries := [] }
  { t0 with entries := keys.map fun k => (k, (t0.get? k).getD default) }

open Label in
def standardBuilder (ro : List Rank) : Builder :=
  let b : Builder := {}
  let b := b.addMultisets ro [(1,5)] [false] highCard
  let b := b.addMultisets ro [(2,1),(1,3)] [false] onePair
  let b := b.addMultisets ro [(2,2),(1,1)] [false] twoPair
  let b := b.addMultisets ro [(3,1),(1,2)] [false] threeOfAKind
  let b := b.addStraights ro 5 [false] straight
  let b := b.addMultisets ro [(1,5)] [true] flush
  let b := b.addMultisets ro [(3,1),(2,1)] [false] fullHouse
  let b := b.addMultisets ro [(4,1),(1,1)] [false] fourOfAKind
  b.addStraights ro 5 [true] straightFlush

open Label in
def shortDeckBuilder (ro : List Rank) : Builder :=
  let b : Builder := {}
  let b := b.addMultisets ro [(1,5)] [false] highCard
  let b := b.addMultisets ro [(2,1),(1,3)] [false] onePair
  let b := b.addMultisets ro [(2,2),(1,1)] [false] twoPair
  let b := b.addMultisets ro [(3,1),(1,2)] [false] threeOfAKind
  let b := b.addStraights ro 5 [false] straight
  let b := b.addMultisets ro [(3,1),(2,1)] [false] fullHouse
  let b := b.addMultisets ro [(1,5)] [true] flush
  let b := b.addMultisets ro [(4,1),(1,1)] [false] fourOfAKind
  b.addStraights ro 5 [true] straightFlush

open Label in
def eightOrBetterBuilder (ro : List Rank) : Builder :=
  ({} : Builder).addMultisets ro [(1,5)] [false, true] highCard

open Label in
def regularBuilder (ro : List Rank) : Builder :=
  let b : Builder := {}
  let b := b.addMultisets ro [(1,5)] [false, true] highCard
  let b := b.addMultisets ro [(2,1),(1,3)] [false] onePair
  let b := b.addMultisets ro [(2,2),(1,1)] [false] twoPair
  let b := b.addMultisets ro [(3,1),(1,2)] [false] threeOfAKind
  let b := b.addMultisets ro [(3,1),(2,1)] [false] fullHouse
  b.addMultisets ro [(4,1),(1,1)] [false] fourOfAKind

open Label in
def badugiBuilder (ro : List Rank) : Builder :=
  [4,3,2,1].foldl (fun b i => b.addMultisets ro [(1,i)] [i == 1] highCard) {}

open Label in
def kuhnBuilder (ro : List Rank) : Builder :=
  ({} : Builder).addMultisets ro [(1,1)] [true] highCard

/-- `_LowHandOpeningLookup` / `_HighHandOpeningLookup` (state.py:126-185): same code, different rank order -/
def openingBuilder (ro : List Rank) : Builder :=
  open Label in
  let b : Builder := {}
  let b := [1,2,3,4].foldl (fun b i => b.addMultisets ro [(1,i)] [false, true] highCard) b
  let b := [0,1,2].foldl (fun b i => b.addMultisets ro [(2,1),(1,i)] [false] onePair) b
  let b := b.addMultisets ro [(2,2)] [false] twoPair
  let b := [0,1].foldl (fun b i => b.addMultisets ro [(3,1),(1,i)] [false] threeOfAKind) b
  b.addMultisets ro [(4,1)] [false] fourOfAKind

inductive LookupId where
  | standard | shortDeck | eightOrBetter | regular | badugi | standardBadugi | kuhn
  | lowOpening | highOpening
deriving DecidableEq, Repr, Inhabited

def LookupId.all : List LookupId :=
  [.standard, .shortDeck, .eightOrBetter, .regular, .badugi, .standardBadugi, .kuhn,
   .lowOpening, .highOpening]

def LookupId.name : LookupId → String
  | .standard => "StandardLookup" | .shortDeck => "ShortDeckHoldemLookup"
  | .eightOrBetter => "EightOrBetterLookup" | .regular => "RegularLookup"
  | .badugi => "BadugiLookup" | .standardBadugi => "StandardBadugiLookup"
  | .kuhn => "KuhnPokerLookup" | .lowOpening => "_LowHandOpeningLookup"
  | .highOpening => "_HighHandOpeningLookup"

def LookupId.rankOrder : LookupId → List Rank
  | .standard => RankOrder.standard | .shortDeck => RankOrder.shortDeck
  | .eightOrBetter => RankOrder.eightOrBetterLow | .regular => RankOrder.regular
  | .badugi => RankOrder.regular | .standardBadugi => RankOrder.standard
  | .kuhn => RankOrder.kuhn | .lowOpening => RankOrder.regular
  | .highOpening => RankOrder.standard

def LookupId.builder (l : LookupId) : Builder :=
  match l with
  | .standard => standardBuilder l.rankOrder
  | .shortDeck => shortDeckBuilder l.rankOrder
  | .eightOrBetter => eightOrBetterBuilder l.rankOrder
  | .regular => regularBuilder l.rankOrder
  | .badugi | .standardBadugi => badugiBuilder l.rankOrder
  | .kuhn => kuhnBuilder l.rankOrder
  | .lowOpening | .highOpening => openingBuilder l.rankOrder

/-- is the rainbow test of `BadugiLookup._get_key` in force -/
def LookupId.rainbow : LookupId → Bool
  | .badugi | .standardBadugi => true
  | _ => false

/-- all nine finished tables (built once) -/
structure Tables where
  tbl : LookupId → Lookup

def Tables.build : Tables :=
  let ts := LookupId.all.map fun l => (l, l.builder.finish)
  { tbl := fun l => match ts.find? (·.1 == l) with
      | some (_, t) => t
      | none => Lookup.empty }

/-- errors of evaluation -/
inductive EvalErr where | keyError | valueError
deriving DecidableEq, Repr

/-- `Lookup._get_key(cards)` -/
def getKey (l : LookupId) (cs : List Card) : Except EvalErr Key :=
  if l.rainbow && !areRainbow cs then .error .valueError
  else match hashRanks (cs.map (·.rank)) with
    | none => .error .keyError
    | some h => .ok (h, areSuited cs)

/-- `Lookup.has_entry(cards)` (ValueError from `_get_key` is caught, KeyError is not) -/
def hasEntry (T : Tables) (l : LookupId) (cs : List Card) : Except EvalErr Bool :=
  match getKey l cs with
  | .error .valueError => .ok false
  | .error .keyError => .error .keyError
  | .ok k => .ok ((T.tbl l).contains k)

/-- `Lookup.get_entry(cards)` -/
def getEntry (T : Tables) (l : LookupId) (cs : List Card) : Except EvalErr Entry :=
  match getKey l cs with
  | .error e => .error e
  | .ok k => match (T.tbl l).get? k with
    | some e => .ok e
    | none => .error .valueError

/-- `Lookup.get_entry_or_none(cards)` -/
def getEntryOrNone (T : Tables) (l : LookupId) (cs : List Card) : Except EvalErr (Option Entry) :=
  match getKey l cs with
  | .error e => .error e
  | .ok k => .ok ((T.tbl l).get? k)

/-- `get_entry_or_none` of the two stud-opening lookups, as an index: what `_begin_betting` compares
    the players' exposed cards by (the environment's `openEntry`) -/
def openEntryOf (T : Tables) (low : Bool) (cs : List Card) : Except EvalErr (Option Nat) :=
  match getEntryOrNone T (if low then .lowOpening else .highOpening) cs with
  | .ok e => .ok (e.map (·.index))
  | .error e => .error e

end PK
