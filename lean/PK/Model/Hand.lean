/-
  PK.Model.Hand — model of pokerkit/hands.py: Hand.__init__, ordering, the five
  `from_game` implementations (iteration order and strict `>` kept), `from_game_or_none`.
-/
import PK.Model.Lookup
namespace PK

inductive HandType where
  | standardHigh | standardLow | shortDeck | eightOrBetterLow | regularLow
  | greek | omaha | omaha8 | badugi | standardBadugi | kuhn
deriving DecidableEq, Repr, Inhabited

namespace HandType

def all : List HandType :=
  [standardHigh, standardLow, shortDeck, eightOrBetterLow, regularLow,
   greek, omaha, omaha8, badugi, standardBadugi, kuhn]

def name : HandType → String
  | standardHigh => "StandardHighHand" | standardLow => "StandardLowHand"
  | shortDeck => "ShortDeckHoldemHand" | eightOrBetterLow => "EightOrBetterLowHand"
  | regularLow => "RegularLowHand" | greek => "GreekHoldemHand"
  | omaha => "OmahaHoldemHand" | omaha8 => "OmahaEightOrBetterLowHand"
  | badugi => "BadugiHand" | standardBadugi => "StandardBadugiHand"
  | kuhn => "KuhnPokerHand"

def ofName (s : String) : Option HandType := all.find? (·.name == s)

def lookup : HandType → LookupId
  | standardHigh | standardLow | greek | omaha => .standard
  | shortDeck => .shortDeck
  | eightOrBetterLow | omaha8 => .eightOrBetter
  | regularLow => .regular
  | badugi => .badugi
  | standardBadugi => .standardBadugi
  | kuhn => .kuhn

def low : HandType → Bool
  | standardLow | eightOrBetterLow | regularLow | omaha8 | badugi | standardBadugi => true
  | _ => false

/-- `card_count` of the CombinationHand family -/
def cardCount : HandType → Nat
  | badugi | standardBadugi | kuhn => 0
  | _ => 5

inductive Kind where | combination | board | holeBoard | badugi | kuhn
deriving DecidableEq

def kind : HandType → Kind
  | standardHigh | standardLow | shortDeck | eightOrBetterLow | regularLow => .combination
  | greek => .board
  | omaha | omaha8 => .holeBoard
  | badugi | standardBadugi => .badugi
  | kuhn => .kuhn

def boardCardCount : HandType → Nat := fun _ => 3
def holeCardCount : HandType → Nat := fun _ => 2

end HandType

structure Hand where
  cards : List Card
  entry : Entry
deriving Repr, DecidableEq, Inhabited

/-- `Hand.__init__` : ValueError when the lookup has no entry or a card is not a real card (unknown suit;
    since the F25 repair); KeyError (unknown rank) propagates from the lookup first -/
def mkHand (T : Tables) (ht : HandType) (cs : List Card) : Except EvalErr Hand :=
  match hasEntry T ht.lookup cs with
  | .error e => .error e
  | .ok false => .error .valueError
  | .ok true =>
    if !cs.all Card.known then .error .valueError
    else match getEntry T ht.lookup cs with
      | .ok e => .ok ⟨cs, e⟩
      | .error e => .error e

/-- strength as an integer: `a < b` (python `Hand.__lt__`) iff `score a < score b` -/
def score (ht : HandType) (h : Hand) : Int :=
  if ht.low then - (h.entry.index : Int) else (h.entry.index : Int)

/-- one round of the `max_hand` loops: `try: hand = f(c) except ValueError: pass
    else: if max_hand is None or hand > max_hand: max_hand = hand` -/
def bestStep (ht : HandType) (acc : Except EvalErr (Option Hand)) (r : Except EvalErr Hand) :
    Except EvalErr (Option Hand) :=
  match acc with
  | .error e => .error e
  | .ok cur => match r with
    | .error .keyError => .error .keyError
    | .error .valueError => .ok cur
    | .ok h => match cur with
      | none => .ok (some h)
      | some m => if score ht h > score ht m then .ok (some h) else .ok (some m)

def bestOfResults (ht : HandType) (rs : List (Except EvalErr Hand)) : Except EvalErr (Option Hand) :=
  rs.foldl (bestStep ht) (.ok none)

def orValueError : Except EvalErr (Option Hand) → Except EvalErr Hand
  | .error e => .error e
  | .ok none => .error .valueError
  | .ok (some h) => .ok h

/-- `CombinationHand.from_game` -/
def fromGameCombination (T : Tables) (ht : HandType) (hole board : List Card) : Except EvalErr Hand :=
  orValueError <| bestOfResults ht ((combinations (hole ++ board) ht.cardCount).map (mkHand T ht))

/-- `BoardCombinationHand.from_game` -/
def fromGameBoard (T : Tables) (ht : HandType) (hole board : List Card) : Except EvalErr Hand :=
  orValueError <| bestOfResults ht
    ((combinations board ht.boardCardCount).map fun c => fromGameCombination T ht hole c)

/-- `HoleBoardCombinationHand.from_game` -/
def fromGameHoleBoard (T : Tables) (ht : HandType) (hole board : List Card) : Except EvalErr Hand :=
  orValueError <| bestOfResults ht
    ((combinations hole ht.holeCardCount).map fun c => fromGameBoard T ht c board)

/-- `BadugiHand.from_game` : sizes 4,3,2,1, stop at the first size with a valid hand -/
def fromGameBadugi (T : Tables) (ht : HandType) (hole board : List Card) : Except EvalErr Hand :=
  let cards := hole ++ board
  orValueError <| [4,3,2,1].foldl (fun acc count =>
    match acc with
    | .error e => .error e
    | .ok (some h) => .ok (some h)
    | .ok none => bestOfResults ht ((combinations cards count).map (mkHand T ht))) (.ok none)

/-- `KuhnPokerHand.from_game` : `max(map(cls, cards))`; the first failing constructor raises -/
def fromGameKuhn (T : Tables) (ht : HandType) (hole board : List Card) : Except EvalErr Hand :=
  let rec go (cs : List Card) (cur : Option Hand) : Except EvalErr Hand :=
    match cs with
    | [] => match cur with | some h => .ok h | none => .error .valueError
    | c :: rest => match mkHand T ht [c] with
      | .error e => .error e
      | .ok h => match cur with
        | none => go rest (some h)
        | some m => go rest (some (if score ht h > score ht m then h else m))
  go (hole ++ board) none

/-- `HandType.from_game(hole, board)` -/
def fromGame (T : Tables) (ht : HandType) (hole board : List Card) : Except EvalErr Hand :=
  match ht.kind with
  | .combination => fromGameCombination T ht hole board
  | .board => fromGameBoard T ht hole board
  | .holeBoard => fromGameHoleBoard T ht hole board
  | .badugi => fromGameBadugi T ht hole board
  | .kuhn => fromGameKuhn T ht hole board

/-- `Hand.from_game_or_none` : only ValueError is turned into None -/
def fromGameOrNone (T : Tables) (ht : HandType) (hole board : List Card) : Except EvalErr (Option Hand) :=
  match fromGame T ht hole board with
  | .ok h => .ok (some h)
  | .error .valueError => .ok none
  | .error .keyError => .error .keyError

/-- the strength function the engine is run with: `hand_type.from_game(hole, board)` reduced to the
    integer `Hand.__lt__` compares by (the environment's `eval`) -/
def tableEval (T : Tables) (ht : HandType) (hole board : List Card) : Except EvalErr Int :=
  match fromGame T ht hole board with
  | .ok h => .ok (score ht h)
  | .error e => .error e

end PK
