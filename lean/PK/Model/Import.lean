/-
  PK.Model.Import — event-level model of the poker-site importers of pokerkit/notation.py
  (`REParser._parse`, `_get_ordered_players`, `_parse_actions` and the six
  `_get_completion_betting_or_raising_to_amount` conventions).  The input is the list of events a log
  yields (the regular-expression layer that extracts them from text is not modelled).  Core Lean only.
-/
import PK.Model.Notation
namespace PK

inductive Site where
  | pokerStars | fullTilt | partyPoker | iPoker | ongame | absolute
deriving DecidableEq, Repr

/-- how a bet / raise line is worded, where the site's convention depends on it: Ongame `bets` vs
    `raises`, iPoker action type 6 (`incremental`) vs types 5 / 23 -/
inductive Wording where | total | incremental
deriving DecidableEq, Repr

/-- `_get_completion_betting_or_raising_to_amount`: the "raise to" amount from the amount on the line,
    the biggest bet of the street so far and the player's own bet -/
def toAmount (site : Site) (w : Wording) (maxBet own raw : Nat) : Nat :=
  match site with
  | .pokerStars => maxBet + raw
  | .fullTilt => raw
  | .partyPoker => own + raw
  | .absolute => own + raw
  | .iPoker => match w with | .incremental => own + raw | .total => raw
  | .ongame => match w with | .total => raw | .incremental => own + raw

/-- what a site writes on the line for a raise to `t` (the inverse convention) -/
def rawAmount (site : Site) (w : Wording) (maxBet own t : Nat) : Nat :=
  match site with
  | .pokerStars => t - maxBet
  | .fullTilt => t
  | .partyPoker => t - own
  | .absolute => t - own
  | .iPoker => match w with | .incremental => t - own | .total => t
  | .ongame => match w with | .total => t | .incremental => t - own

/-- the events of the betting part of a log, players already numbered in position order -/
inductive LogEvent where
  | post (p : Nat) (amount : Nat)
  | hole (p : Nat) (cards : List Card)
  | board (cards : List Card)
  | fold (p : Nat)
  | call (p : Nat)
  | raise (p : Nat) (raw : Nat) (w : Wording)
  | shows (p : Nat) (cards : List Card)
deriving Repr

def maxN : List Nat → Nat
  | [] => 0
  | x :: xs => max x (maxN xs)

def getN (l : List Nat) (i : Nat) : Nat := l.getD i 0

/-- `bets[p] = v` on a list long enough for every player -/
def setN (l : List Nat) (i : Nat) (v : Nat) : List Nat :=
  if i < l.length then l.set i v else l ++ List.replicate (i - l.length) 0 ++ [v]

/-- `_parse_actions`: the per-street bet table and the PHH actions -/
def importStep (site : Site) (bets : List Nat) : LogEvent → List Nat × Option PAction
  | .post p a => (setN bets p a, none)
  | .hole p cs => (bets, some (.dealHole p cs))
  | .board cs => (bets.map fun _ => 0, some (.dealBoard cs))
  | .fold p => (bets, some (.fold p))
  | .call p => (setN bets p (maxN bets), some (.call p))
  | .raise p raw w =>
    let mx := maxN bets
    let t := toAmount site w mx (getN bets p) raw
    (setN bets p t, some (if t ≤ mx then .call p else .cbr p t))
  | .shows p cs => (bets, some (.showCards p cs))

def importEvents (site : Site) : List Nat → List LogEvent → List PAction
  | _, [] => []
  | bets, e :: es =>
    let r := importStep site bets e
    (match r.2 with | some a => [a] | none => []) ++ importEvents site r.1 es

/-! ### what a site would print for a hand played with "raise to" amounts -/

/-- a betting event of the hand as played -/
inductive TrueEvent where
  | post (p : Nat) (amount : Nat)
  | hole (p : Nat) (cards : List Card)
  | board (cards : List Card)
  | fold (p : Nat)
  | call (p : Nat)
  | raiseTo (p : Nat) (t : Nat) (w : Wording)
  | shows (p : Nat) (cards : List Card)
deriving Repr

def renderStep (site : Site) (bets : List Nat) : TrueEvent → List Nat × LogEvent
  | .post p a => (setN bets p a, .post p a)
  | .hole p cs => (bets, .hole p cs)
  | .board cs => (bets.map fun _ => 0, .board cs)
  | .fold p => (bets, .fold p)
  | .call p => (setN bets p (maxN bets), .call p)
  | .raiseTo p t w => (setN bets p t, .raise p (rawAmount site w (maxN bets) (getN bets p) t) w)
  | .shows p cs => (bets, .shows p cs)

def renderEvents (site : Site) : List Nat → List TrueEvent → List LogEvent
  | _, [] => []
  | bets, e :: es =>
    let r := renderStep site bets e
    r.2 :: renderEvents site r.1 es

def trueAction : TrueEvent → Option PAction
  | .post _ _ => none
  | .hole p cs => some (.dealHole p cs)
  | .board cs => some (.dealBoard cs)
  | .fold p => some (.fold p)
  | .call p => some (.call p)
  | .raiseTo p t _ => some (.cbr p t)
  | .shows p cs => some (.showCards p cs)

/-! ### who sits where -/

/-- `_get_ordered_players` (base class): the players sorted by seat, rotated so that the seat after the
    button comes first and the button last.  `buttonIdx`: index of the button among the sorted seats
    (`none`: the button seat is empty; then the first blind poster decides) -/
def orderedPlayers (players : List Nat) (buttonIdx : Option Nat) (firstPoster : Option Nat) : Option (List Nat) :=
  let final : Option Int :=
    match buttonIdx with
    | some i => some i
    | none => match firstPoster with
      | some q =>
        let i := players.idxOf q
        if players.length == 2 then some i else some ((i : Int) - 1)
      | none => none
  final.map fun f =>
    -- `rotated(players, -f - 1)`: rotate left by f + 1 (python's deque.rotate with a negative count)
    let k := ((f + 1) % (players.length : Int)).toNat
    players.drop k ++ players.take k

/-- the blinds layout of the imported history: the first two players in position order keep what they
    posted, posts by anybody else are marked as late posts (negative); heads-up the two entries are
    swapped (pokerkit's heads-up convention) -/
def blindsLayout (posted : List Nat) : List Int :=
  let l := posted.zipIdx.map fun (a, i) => if i < 2 then (a : Int) else -(a : Int)
  if posted.length == 2 then l.reverse else l

end PK
