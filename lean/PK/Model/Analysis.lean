/-
  PK.Model.Analysis — model of pokerkit/analysis.py: range notation (`parse_range`), the
  fully-specified branch of `calculate_equities` (no card left to sample) and `calculate_icm`.
  Chips / probabilities are exact rationals (`Rat`); the python code computes the last two in
  binary floating point — that rounding is not modelled (correspondence with a tolerance).
  Core Lean only.
-/
import PK.Model.Card
namespace PK

inductive AErr where | valueError | zeroDivisionError
deriving DecidableEq, Repr

/-! ### range notation -/

/-- `__SUITS` -/
def rangeSuits : List Suit := [0, 1, 2, 3]

/-- `itertools.combinations(__SUITS, 2)` -/
def suitCombinations : List (Suit × Suit) :=
  rangeSuits.zipIdx.flatMap fun (a, i) => (rangeSuits.drop (i + 1)).map fun b => (a, b)
/-- `itertools.product(__SUITS, repeat=2)` -/
def suitProduct : List (Suit × Suit) := rangeSuits.flatMap fun a => rangeSuits.map fun b => (a, b)
/-- `zip(__SUITS, __SUITS)` -/
def suitZip : List (Suit × Suit) := rangeSuits.map fun a => (a, a)
/-- `itertools.permutations(__SUITS, 2)` -/
def suitPermutations : List (Suit × Suit) :=
  rangeSuits.flatMap fun a => (rangeSuits.filter (· != a)).map fun b => (a, b)

def insCard (c : Card) : List Card → List Card
  | [] => [c]
  | d :: ds => if c.code < d.code then c :: d :: ds else if c.code = d.code then d :: ds else d :: insCard c ds

/-- a `frozenset` of cards, kept as the duplicate-free list sorted by card code -/
def cardSet (cs : List Card) : List Card := cs.foldr insCard []

/-- `iterate(ss)` for two ranks: `frozenset(Card.parse(f'{r0}{s0}{r1}{s1}'))` for every suit pair -/
def iterateSuitsR (a b : Rank) (ss : List (Suit × Suit)) : List (List Card) :=
  ss.map fun (s0, s1) => cardSet [⟨a, s0⟩, ⟨b, s1⟩]

inductive RangeSuffix where | plain | suited | offsuit
deriving DecidableEq, Repr

/-- the three basic forms `XY`, `XYs`, `XYo` for two ranks -/
def basicRangeR (a b : Rank) : RangeSuffix → List (List Card)
  | .plain => if a == b then iterateSuitsR a b suitCombinations else iterateSuitsR a b suitProduct
  | .suited => if a != b then iterateSuitsR a b suitZip else []
  | .offsuit => if a == b then iterateSuitsR a b suitCombinations else iterateSuitsR a b suitPermutations

/-- the three basic forms for two rank characters: the characters are compared first (`XXs` is empty
    whatever `X` is), then parsed (`Rank(ch)`: ValueError for anything that is not a rank) -/
def basicRange (r0 r1 : Char) (sfx : RangeSuffix) : Except AErr (List (List Card)) :=
  if sfx == .suited && r0 == r1 then .ok []
  else match rankOfChar r0, rankOfChar r1 with
    | some a, some b => .ok (basicRangeR a b sfx)
    | _, _ => .error .valueError

/-- `rank_order.index(r)` for a rank character -/
def rankIndex (ro : List Rank) (r : Char) : Except AErr Nat :=
  match rankOfChar r with
  | none => .error .valueError
  | some k => if ro.contains k then .ok (ro.idxOf k) else .error .valueError

/-- `iterate_interval(s)` on positions of the rank order (`none`: the two ends are not a shifted copy
    of each other, ValueError) -/
def intervalRangeI (ro : List Rank) (i0 i1 i2 i3 : Nat) (sfx : RangeSuffix) : Option (List (List Card)) :=
  if (i1 : Int) - i0 != (i3 : Int) - i2 then none
  else
    let (i0, i1, i2, i3) := if i0 > i2 then (i2, i3, i0, i1) else (i0, i1, i2, i3)
    -- zip(rank_order[i0:i2+1], rank_order[i1:i3+1])
    let a := (ro.drop i0).take (i2 + 1 - i0)
    let b := (ro.drop i1).take (i3 + 1 - i1)
    some ((a.zip b).flatMap fun (ra, rb) => basicRangeR ra rb sfx)

/-- `iterate_interval(s)`: `r0r1 - r2r3` -/
def intervalRange (ro : List Rank) (r0 r1 r2 r3 : Char) (sfx : RangeSuffix) : Except AErr (List (List Card)) :=
  match rankIndex ro r0, rankIndex ro r1, rankIndex ro r2, rankIndex ro r3 with
  | .ok i0, .ok i1, .ok i2, .ok i3 =>
    match intervalRangeI ro i0 i1 i2 i3 sfx with
    | some l => .ok l
    | none => .error .valueError
  | _, _, _, _ => .error .valueError

/-- `iterate_plus(s)` for two different ranks at positions `i0`, `i1` -/
def plusRangeI (ro : List Rank) (i0 i1 : Nat) (sfx : RangeSuffix) : List (List Card) :=
  let lo := min i0 i1
  let hi := max i0 i1
  ((ro.drop lo).take (hi - lo)).flatMap fun r => basicRangeR (ro.getD hi 13) r sfx

/-- `iterate_plus(s)` -/
def plusRange (ro : List Rank) (r0 r1 : Char) (sfx : RangeSuffix) : Except AErr (List (List Card)) :=
  if r0 == r1 then
    match ro.getLast? with
    | none => .error .valueError                -- `rank_order[-1]` on an empty order
    | some top =>
      let r := rankChars.getD top '?'
      intervalRange ro r0 r1 r r sfx
  else
    match rankIndex ro r0, rankIndex ro r1 with
    | .ok i0, .ok i1 => .ok (plusRangeI ro i0 i1 sfx)
    | _, _ => .error .valueError

/-- explicit cards: `frozenset(Card.parse(raw_range))` -/
def explicitRange (tok : List Char) : Except AErr (List (List Card)) :=
  match Card.parseChars tok with
  | some cs => .ok [cardSet cs]
  | none => .error .valueError

/-- `__parse_range(raw_range, rank_order)`: the `match tuple(raw_range)` ladder, in order -/
def parseRangeToken (ro : List Rank) (tok : List Char) : Except AErr (List (List Card)) :=
  match tok with
  | [r0, r1] => basicRange r0 r1 .plain
  | [r0, r1, 's'] => basicRange r0 r1 .suited
  | [r0, r1, 'o'] => basicRange r0 r1 .offsuit
  | [r0, r1, '+'] => plusRange ro r0 r1 .plain
  | [r0, r1, 's', '+'] => plusRange ro r0 r1 .suited
  | [r0, r1, 'o', '+'] => plusRange ro r0 r1 .offsuit
  | [r0, r1, '-', r2, r3] => intervalRange ro r0 r1 r2 r3 .plain
  | [r0, r1, 's', '-', r2, r3, 's'] => intervalRange ro r0 r1 r2 r3 .suited
  | [r0, r1, 'o', '-', r2, r3, 'o'] => intervalRange ro r0 r1 r2 r3 .offsuit
  | _ => explicitRange tok

/-- `' '.join(raw_ranges).replace(',', ' ').replace(';', ' ').split()` -/
def rangeTokens (text : List Char) : List (List Char) :=
  splitWs (text.map fun c => if c == ',' || c == ';' then ' ' else c)

def lexLt : List Nat → List Nat → Bool
  | [], [] => false
  | [], _ :: _ => true
  | _ :: _, [] => false
  | a :: as, b :: bs => a < b || (a == b && lexLt as bs)

def insSet (x : List Card) : List (List Card) → List (List Card)
  | [] => [x]
  | y :: ys =>
    if lexLt (x.map Card.code) (y.map Card.code) then x :: y :: ys
    else if x == y then y :: ys else y :: insSet x ys

/-- a python `set` of frozensets, kept sorted and duplicate-free -/
def rangeSet (l : List (List Card)) : List (List Card) := l.foldr insSet []

def concatRanges (l : List (Except AErr (List (List Card)))) : Except AErr (List (List Card)) :=
  l.foldr (fun x acc => match x, acc with
    | .ok a, .ok b => .ok (a ++ b)
    | .error e, _ => .error e
    | _, .error e => .error e) (.ok [])

/-- `parse_range(text, rank_order=ro)` as a canonical (sorted, duplicate-free) list of card sets -/
def parseRange (ro : List Rank) (text : List Char) : Except AErr (List (List Card)) :=
  match concatRanges ((rangeTokens text).map (parseRangeToken ro)) with
  | .ok l => .ok (rangeSet l)
  | .error e => .error e

/-! ### equities when every card is given -/

/-- `max_or_none(hands)` on optional strengths -/
def maxOpt (l : List (Option Int)) : Option Int :=
  l.foldl (fun acc x => match acc, x with
    | none, x => x
    | some a, none => some a
    | some a, some b => some (max a b)) none

/-- the hand types some player holds a hand of (the others are not in play: no share is set aside
    for them) — `__calculate_equities_0` after the F8 repair -/
def typesInPlay (hands : List (List (Option Int))) : List (List (Option Int)) :=
  hands.filter fun hs => hs.any Option.isSome

/-- one hand type's contribution to player `i`: `1 / (#types in play * #winners)` if he holds the
    best hand of that type -/
def typeShare (k : Nat) (hs : List (Option Int)) (i : Nat) : Rat :=
  let best := maxOpt hs
  let winners := (hs.filter fun h => h.isSome && h == best).length
  if (hs.getD i none).isSome && hs.getD i none == best then 1 / ((k : Rat) * (winners : Rat)) else 0

/-- `__calculate_equities_0` with nothing to sample: `hands[t][i]` = strength of player `i`'s hand of
    type `t` (`none`: no such hand).  Result: one share per player. -/
def equitiesGiven (n : Nat) (hands : List (List (Option Int))) : List Rat :=
  let inPlay := typesInPlay hands
  (List.range n).map fun i => (inPlay.map fun hs => typeShare inPlay.length hs i).foldl (· + ·) 0

/-! ### ICM -/

/-- `itertools.permutations(l, k)` in python's order -/
def permsK : Nat → List Nat → List (List Nat)
  | 0, _ => [[]]
  | k + 1, l => l.flatMap fun x => (permsK k (l.erase x)).map (x :: ·)

/-- the probability python computes for one finishing order: `∏ pct[j] / (1 − Σ earlier pct)` -/
def orderProbability (pct : List Rat) : List Nat → Rat → Rat
  | [], _ => 1
  | j :: rest, denom => (pct.getD j 0 / denom) * orderProbability pct rest (denom - pct.getD j 0)

/-- `calculate_icm(payouts, chips)` over exact rationals -/
def icm (payouts chips : List Rat) : List Rat :=
  let total := chips.foldl (· + ·) 0
  let pct := chips.map (· / total)
  -- `permutations(range(len(chips)), min(len(payouts), len(chips)))`: with more paid places than players the
  -- places nobody can reach are left out (since the F26 repair; before, there were no orders at all)
  let orders := permsK (min payouts.length chips.length) (List.range chips.length)
  (List.range chips.length).map fun i =>
    (orders.map fun o =>
      let p := orderProbability pct o 1
      ((payouts.zip o).map fun (pay, j) => if j == i then pay * p else 0).foldl (· + ·) 0).foldl (· + ·) 0

end PK
