/-
  C04, kernel evaluation (ace-to-five low table) — see PK.Properties.C04Kernel.  Each theorem is the kernel's evaluation
  of the model's table construction and of the specification on a whole family of signatures.
-/
import PK.Proofs.TableCheck
namespace PK
open PK.Spec PK.TableCheck

set_option maxRecDepth 100000 in
set_option maxHeartbeats 4000000 in
/-- the `RegularLookup` (razz) on every five-card signature -/
theorem regular_table_ok :
    tableOk LookupId.regular.builder.finish regularLowKey regularLowLabel signatures5 = true := by decide +kernel

end PK
