/-
  C12 — Automatic mucking and hand killing never cost a player chips he would have won.

  Theorems about the model (every strength function, i.e. every deal):

  * `C12_can_win_now`     `can_win_now(i)` is true exactly when on some board, for some hand
        type, for some pot, player i's full hand is at least the best hand shown by that pot's
        eligible players (or nobody eligible has shown one) — written out as a closed formula
  * `C12_default_decision` with no argument the engine shows iff `all_in_status or can_win_now`;
        the cards shown are then all of the player's hole cards
  * `C12_kill_set`        when hand killing begins, exactly the live players who cannot win now
        are flagged
  * `C12_tournament_must_show` in tournament mode a show of fewer known cards than the player
        holds is refused (all-in or not, final street or not)
  * `C12_shown_dominated` a hand that is at most the current best of every pot/board/type it
        competes for does not change any maximum (`maxOrNone`) — the algebraic core of "mucking
        a hand that cannot win does not change any award"
  Partial: the two-run simulation "automatic showdown = everybody shows ⇒ equal payoffs" is not
  proved as a theorem; it is run on every showdown trace (monitor C12: the muck / kill decisions
  are re-derived with the independent ranking, and the hand is replayed with everybody tabling
  his full hand and the payoffs compared).
-/
import PK.Properties.C02
namespace PK
open State M

variable {cfg : Config} {env : Env}

theorem goTypes_spec (s : State) (p b : Nat) (ps : List Pot) (hps : s.pots cfg = .ok ps)
    (H : Nat → List (Option Int)) (ks : List Nat)
    (hH : ∀ k ∈ ks, s.getUpHands cfg env b k = .ok (H k)) :
    canWinNow.goTypes cfg env s p b ks =
      .ok (ks.any fun k => ps.any fun pot => winsPot (H k) (s.getHand cfg env p b k) pot) := by
  induction ks with
  | nil => rfl
  | cons k ks ih =>
    unfold canWinNow.goTypes
    rw [hH k (List.mem_cons_self ..), hps]
    simp only [List.any_cons]
    rw [ih (fun k' hk' => hH k' (List.mem_cons_of_mem _ hk'))]
    cases hx : ps.any fun pot => winsPot (H k) (s.getHand cfg env p b k) pot
    · simp
    · simp

/-- **`can_win_now` written out** (when no evaluation raises): some board, some hand type, some
    pot where the player's full hand is at least the best shown hand of the pot's eligible players -/
theorem C12_can_win_now (s : State) (p : Nat) (ps : List Pot) (hps : s.pots cfg = .ok ps)
    (H : Nat → Nat → List (Option Int))
    (hH : ∀ b ∈ s.boardIndices cfg, ∀ k ∈ List.range cfg.handTypes.length,
      s.getUpHands cfg env b k = .ok (H b k)) :
    s.canWinNow cfg env p =
      .ok ((s.boardIndices cfg).any fun b => (List.range cfg.handTypes.length).any fun k =>
        ps.any fun pot => winsPot (H b k) (s.getHand cfg env p b k) pot) := by
  unfold State.canWinNow
  generalize s.boardIndices cfg = bs at hH ⊢
  induction bs with
  | nil => rfl
  | cons b bs ih =>
    unfold canWinNow.goBoards
    rw [goTypes_spec s p b ps hps (H b) _ (fun k hk => hH b (List.mem_cons_self ..) k hk)]
    simp only [List.any_cons]
    cases hx : (List.range cfg.handTypes.length).any fun k =>
        ps.any fun pot => winsPot (H b k) (s.getHand cfg env p b k) pot
    · simp only [Bool.false_or]
      exact ih (fun b' hb' => hH b' (List.mem_cons_of_mem _ hb'))
    · simp

/-- **the default show/muck decision**: with no argument the engine shows iff the hand is
    all-in or the player can win now; what is shown is then the whole hand, face up -/
theorem C12_default_decision (s : State) (p : Nat) :
    s.showExplicit cfg env .none p =
      (if s.allIn then .ok ⟨(true, none), false⟩
       else match s.canWinNow cfg env p with
         | .error e => .error e
         | .ok b => .ok ⟨(b, none), false⟩) ∧
    showTriple (s.holeOf p) true none = (s.holeOf p, s.holeOf p, List.replicate (s.holeOf p).length true) ∧
    showTriple (s.holeOf p) false none = ([], [], []) := by
  refine ⟨?_, rfl, rfl⟩
  unfold State.showExplicit
  rfl

/-- the loop of `_begin_hand_killing` (`killStep` of the model) over all players -/
theorem kill_fold (s : State) (W : Nat → Bool)
    (hW : ∀ i, i < cfg.n → getB s.statuses i = true → s.canWinNow cfg env i = .ok (W i))
    (hlen : s.handKilling.length = cfg.n) :
    ∃ hk, (playerIndices cfg).foldl (killStep cfg env s) (.ok s.handKilling) = .ok hk ∧
      hk.length = cfg.n ∧
      ∀ i, i < cfg.n → getB hk i =
        (if getB s.statuses i then (decide (1 < s.liveCount) && !W i) else getB s.handKilling i) := by
  unfold playerIndices
  have key : ∀ (k : Nat), k ≤ cfg.n →
      ∃ hk, (List.range k).foldl (killStep cfg env s) (.ok s.handKilling) = .ok hk ∧
      hk.length = cfg.n ∧
      ∀ i, i < cfg.n → getB hk i =
        (if i < k then (if getB s.statuses i then (decide (1 < s.liveCount) && !W i) else getB s.handKilling i)
         else getB s.handKilling i) := by
    intro k
    induction k with
    | zero => intro _; exact ⟨s.handKilling, rfl, hlen, by intro i _; simp⟩
    | succ k ih =>
      intro hk'
      obtain ⟨hk, h1, h2, h3⟩ := ih (by omega)
      rw [List.range_succ, List.foldl_append, h1]
      simp only [List.foldl_cons, List.foldl_nil]
      by_cases hs : getB s.statuses k = true
      · -- the value written for player `k`
        have hstep : killStep cfg env s (.ok hk) k = .ok (hk.set k (decide (1 < s.liveCount) && !W k)) := by
          unfold killStep
          simp only [hs, Bool.not_true, Bool.false_eq_true, if_false]
          by_cases hl : s.liveCount ≤ 1
          · have : ¬ 1 < s.liveCount := by omega
            simp [hl, this]
          · have : 1 < s.liveCount := by omega
            simp [hl, this, hW k (by omega) hs]
        rw [hstep]
        refine ⟨_, rfl, by simp [h2], ?_⟩
        intro i hi
        by_cases hik : k = i
        · subst hik
          have : getB (hk.set k (decide (1 < s.liveCount) && !W k)) k = (decide (1 < s.liveCount) && !W k) := by
            simp [getB, h2, hi]
          rw [this]; simp [hs]
        · have : getB (hk.set k (decide (1 < s.liveCount) && !W k)) i = getB hk i := by
            simp [getB, List.getElem?_set_ne hik]
          rw [this, h3 i hi]
          have : (i < k + 1) = (i < k) := by
            apply propext; constructor <;> intro h <;> omega
          simp only [this]
      · have hs' : getB s.statuses k = false := by simpa using hs
        have hstep : killStep cfg env s (.ok hk) k = .ok hk := by
          unfold killStep; simp [hs']
        rw [hstep]
        refine ⟨hk, rfl, h2, ?_⟩
        intro i hi
        rw [h3 i hi]
        by_cases hik : i = k
        · subst hik; simp [hs']
        · have : (i < k + 1) = (i < k) := by
            apply propext; constructor <;> intro h <;> omega
          simp only [this]
  obtain ⟨hk, h1, h2, h3⟩ := key cfg.n (Nat.le_refl _)
  exact ⟨hk, h1, h2, fun i hi => by rw [h3 i hi]; simp [hi]⟩

/-- **the kill set**: `_begin_hand_killing` flags exactly the players still in the hand who cannot win now —
    and nobody when a single player is left (he takes the pots whatever he holds; since the F24 repair) —
    and leaves everything else as it is -/
theorem C12_kill_set (m : M) (rest : List Ctl) (hctl : m.ctl = .beginKill :: rest)
    (hclear : anyB m.st.handKilling = false) (W : Nat → Bool)
    (hW : ∀ i, i < cfg.n → getB m.st.statuses i = true → m.st.canWinNow cfg env i = .ok (W i))
    (hlen : m.st.handKilling.length = cfg.n) :
    ∃ hk, (step cfg env m).st = { m.st with handKilling := hk } ∧
      (step cfg env m).ctl = .updKill none :: rest ∧ hk.length = cfg.n ∧
      ∀ i, i < cfg.n → getB hk i =
        (if getB m.st.statuses i then (decide (1 < m.st.liveCount) && !W i) else getB m.st.handKilling i) := by
  obtain ⟨hk, h1, h2, h3⟩ := kill_fold (cfg := cfg) (env := env) m.st W hW hlen
  refine ⟨hk, ?_, ?_, h2, h3⟩
  · unfold step; rw [hctl]; simp only [hclear, Bool.false_eq_true, if_false, h1]; rfl
  · unfold step; rw [hctl]; simp only [hclear, Bool.false_eq_true, if_false, h1]; rfl

/-- a player left alone in the hand is never killed -/
theorem C12_lone_not_killed (m : M) (rest : List Ctl) (hctl : m.ctl = .beginKill :: rest)
    (hclear : anyB m.st.handKilling = false) (W : Nat → Bool)
    (hW : ∀ i, i < cfg.n → getB m.st.statuses i = true → m.st.canWinNow cfg env i = .ok (W i))
    (hlen : m.st.handKilling.length = cfg.n) (hlone : m.st.liveCount = 1) (i : Nat) (hi : i < cfg.n)
    (hs : getB m.st.statuses i = true) : getB (step cfg env m).st.handKilling i = false := by
  obtain ⟨hk, e1, _, _, h3⟩ := C12_kill_set m rest hctl hclear W hW hlen
  rw [e1]
  show getB hk i = false
  rw [h3 i hi, hs]; simp [hlone]

/-- **tournament mode: all hole cards must be shown** — a show of fewer known cards than the
    player holds is refused with ValueError (all-in or not, final street or not) -/
theorem C12_tournament_must_show (s : State) (p : Nat) (t : List Card × List Card × List Bool) (w : Bool)
    (ht : cfg.tournament = true) (hfew : (t.1.filter Card.known).length < (s.holeOf p).length) :
    s.showFinal cfg p true t w = .error .valueError := by
  unfold State.showFinal
  simp [ht, hfew]

/-- … and therefore no successful show in tournament mode leaves a hole card hidden -/
theorem C12_tournament_shows_all (s : State) (arg : ShowArg) (i : Option Nat) (v : Verdict ShowPlan)
    (ht : cfg.tournament = true) (h : s.verifyShow cfg env arg i = .ok v) (hst : v.val.status = true) :
    (v.val.cards.filter Card.known).length ≥ (s.holeOf v.val.player).length := by
  unfold State.verifyShow at h
  split at h
  · cases h
  · split at h
    · cases h
    · rename_i p _
      split at h
      · cases h
      · rename_i ve _
        unfold State.showFinal at h
        simp only [ht, Bool.true_and] at h
        split at h
        · cases h
        · rename_i hc
          repeat' split at h
          all_goals try cases h
          all_goals
            (simp only at hst ⊢
             rw [hst] at hc ⊢
             simp only [Bool.true_and, decide_eq_true_eq, Nat.not_lt] at hc
             exact hc)

/-- **a dominated hand changes no maximum**: adding a shown hand that is at most the current
    maximum leaves `max_or_none` unchanged -/
theorem C12_shown_dominated (l : List (Option Int)) (x : Option Int) (hx : optLe x (maxOrNone l))
    (hne : maxOrNone l ≠ none ∨ x = none) : maxOrNone (l ++ [x]) = maxOrNone l := by
  unfold maxOrNone at *
  rw [List.foldl_append]
  simp only [List.foldl_cons, List.foldl_nil]
  generalize l.foldl _ none = m at hx hne ⊢
  cases m <;> cases x <;> simp_all [optLe]
  omega

/-- **a showdown that leaves one player in the hand ends the dealing**: `_end_showdown` then goes on to hand
    killing (where that player is not flagged: `C12_lone_not_killed`) instead of running out the board for him
    (the repair 0c01c5a of finding F11) -/
theorem C12_lone_showdown_stops (m : M) (rest : List Ctl) (hctl : m.ctl = .endShow :: rest)
    (hclear : (anyB m.st.runoutSelectors || !m.st.showdown.isEmpty) = false) (si : Int)
    (hsi : m.st.streetIndex = some si) (hlone : m.st.liveCount ≤ 1) :
    (step cfg env m).ctl = .beginKill :: rest ∧ (step cfg env m).st.liveCount = m.st.liveCount := by
  unfold step; rw [hctl]; simp only [hclear, hsi]
  simp only [Bool.false_eq_true, if_false]
  have hne : ∀ (s' : State), s'.statuses = m.st.statuses → ¬ (s'.allIn && !s'.streetIsLast cfg && decide (s'.liveCount > 1)) = true := by
    intro s' hs'
    have : s'.liveCount = m.st.liveCount := by unfold State.liveCount; rw [hs']
    have h1 : ¬ s'.liveCount > 1 := by omega
    simp [h1]
  constructor
  · repeat' split
    all_goals first
      | rfl
      | (rename_i hc; exact absurd hc (hne _ rfl))
  · repeat' split
    all_goals rfl

end PK
