/-
  C04, kernel evaluation — the one expensive step of `PK.Properties.C04Table`, in a module of its own
  so that it is checked once per build: the kernel evaluates the model's construction of the standard
  lookup (`Lookup.__init__` of lookups.py as modelled in PK.Model.Lookup) and the specification
  `PK.Spec.standardKey` on all 7 462 signatures, and compares them (`PK.TableCheck.tableOk`).
  About three minutes and 13 GB; `decide +kernel` adds no axiom.
-/
import PK.Proofs.TableCheck
namespace PK
open PK.Spec PK.TableCheck

set_option maxRecDepth 100000 in
set_option maxHeartbeats 4000000 in
/-- the kernel's evaluation of the whole standard table against the specification -/
theorem standard_table_ok :
    tableOk LookupId.standard.builder.finish standardKey categoryLabel signatures5 = true := by decide +kernel

end PK
