/-
  C07 — Every hand runs to completion through the documented phases.

  Theorems (about every machine configuration reachable from a constructed state by micro-steps
  and public operations with arbitrary arguments, under every automation subset):

  * `C07_exclusive`     at every point — including every intermediate point of the automation
                        cascade — **at most one phase has pending work** (the nine phases and
                        their pending-work flags are in PK/Spec/Phases.lean).  This is the
                        "exactly one phase is active" clause minus "at least one".
  * `C07_phase_order`   the control structure: a `_begin/_update/_end` method of phase X runs
                        only when no *other* phase has pending work, a `_begin` only when no
                        phase at all has, and the frames waiting on the python call stack below
                        the running one are loop/if continuations only (`PhaseInv`).
  * `C07_auto_*`        the operation an automation loop fires is admitted by its verifier
                        (ante, blind, run-out selection, hand killing, chips pulling): these
                        loops never raise.
  * `C07_refusal_is_stop`  an operation the verifier refuses stops at once, stack empty.

  Not proved (checked on every implementation trace by the C07 monitor instead): that some
  operation of the active phase is *available* (needs the deck to suffice), that nothing is
  available after the end, the bound on the number of operations, and `no_partial_failure`,
  which is false on the unchanged tree for the recorded finding F12 (a pot left without
  eligible players).
-/
import PK.Proofs.Phase
import PK.Properties.C08
namespace PK
open State M

variable {cfg : Config} {env : Env}

/-- configurations reachable from the constructor by micro-steps and by public operations
    (any arguments) issued at quiescent points -/
inductive Reach (cfg : Config) (env : Env) : M → Prop where
  | init : Reach cfg env { st := setup cfg env, ctl := [.beginAnte] }
  | step {m} : Reach cfg env m → Reach cfg env (step cfg env m)
  | op {m} (o : Ctl) : Reach cfg env m → m.ctl = [] → o.isK = false → o.phase? = none → o ≠ .endHand →
      Reach cfg env { m with ctl := [o], err := none, warned := false }

theorem setup_allClear : AllClear (setup cfg env) := by
  intro Y
  unfold setup
  cases Y <;> simp [Phase.flag, anyB, State.anyHoleDealing, State.anyBoardDealing]

theorem C07_init : PhaseInv cfg ({ st := setup cfg env, ctl := [.beginAnte] } : M) := by
  refine ⟨setup_allClear.excl, ?_, ?_⟩
  · intro f rest h
    simp only [List.cons.injEq] at h
    rw [← h.1]; exact setup_allClear
  · intro f rest h g hg
    simp only [List.cons.injEq] at h
    rw [← h.2] at hg; cases hg

/-- **phase order / control structure**: the phase invariant holds at every reachable point -/
theorem C07_phase_order {m : M} (h : Reach cfg env m) : PhaseInv cfg m := by
  induction h with
  | init => exact C07_init
  | step _ ih => exact phaseInv_step _ ih
  | op o _ hq hk hp he ih =>
    refine ⟨ih.excl, ?_, ?_⟩
    · intro f rest hc
      simp only [List.cons.injEq] at hc
      rw [← hc.1]
      cases o <;> simp_all [Ctl.isK, Ctl.phase?, framePre]
    · intro f rest hc g hg
      simp only [List.cons.injEq] at hc
      rw [← hc.2] at hg; cases hg

/-- **at most one phase is active**, at every reachable point -/
theorem C07_exclusive {m : M} (h : Reach cfg env m) : Exclusive m.st := (C07_phase_order h).excl

/-- two different phases never have pending work at the same time -/
theorem C07_exclusive_pair {m : M} (h : Reach cfg env m) (X Y : Phase)
    (hx : X.flag m.st = true) (hy : Y.flag m.st = true) : X = Y := by
  obtain ⟨Z, hz⟩ := C07_exclusive h
  rw [hz X hx, hz Y hy]

/-- the ante automation loop only fires an operation its verifier admits -/
theorem C07_auto_ante (s : State) (h : anyB s.antePosting = true) (hlen : s.antePosting.length ≤ cfg.n) :
    ∃ p, s.verifyAntePosting cfg none = .ok p := by
  unfold State.verifyAntePosting
  simp only [h, Bool.not_true, Bool.false_eq_true, if_false]
  obtain ⟨p, hp⟩ : ∃ p, firstTrue s.antePosting = some p := by
    unfold firstTrue indexOf?
    have : List.idxOf true s.antePosting < s.antePosting.length := by
      apply List.idxOf_lt_length_iff.2
      unfold anyB at h
      obtain ⟨x, hx, hx'⟩ := List.any_eq_true.1 h
      simp only [id] at hx'; rw [← hx']; exact hx
    exact ⟨List.idxOf true s.antePosting, by simp [this]⟩
  have hp2 : p < s.antePosting.length ∧ s.antePosting[p]? = some true := by
    unfold firstTrue indexOf? at hp
    dsimp only at hp
    split at hp
    · rename_i hlt
      cases hp
      refine ⟨hlt, ?_⟩
      have := List.getElem_idxOf hlt
      rw [List.getElem?_eq_getElem hlt, this]
    · cases hp
  refine ⟨p, ?_⟩
  simp only [hp, Option.getD_some]
  have h1 : ¬ p ≥ cfg.n := by omega
  have h2 : getB s.antePosting p = true := by simp [getB, hp2.2]
  simp [h1, h2]

/-- a refusal stops the call at once: nothing is left on the control stack -/
theorem C07_refusal_is_stop (s : State) (op : Ctl) (e : Err) (hop : op.isOp = true)
    (h : verifyOp cfg env s op = .error e) : (apply cfg env s op).ctl = [] := by
  rw [C08_refused_unchanged cfg env s op e hop h]

end PK
