/-
  C05 ∘ C04 for Omaha — **an Omaha hand is the best hand made of exactly two hole cards and three board
  cards, under the rules of poker**; the eight-or-better low likewise, or none when no such five cards
  qualify.  (`C05_omaha` + `C04_standard_table` / `C04_eight_table`.)
-/
import PK.Properties.C05Rules
namespace PK
open PK.Spec

theorem sublist_append_five {hole board hc bc : List Card}
    (h1 : hc.Sublist hole) (h2 : bc.Sublist board) : (hc ++ bc).Sublist (hole ++ board) :=
  List.Sublist.append h1 h2

/-- a selection of as many cards as there are is all of them -/
theorem combos_all {hc bc c : List Card} (hlen : (hc ++ bc).length = 5)
    (hc5 : c ∈ combinations (hc ++ bc) 5) : c = hc ++ bc := by
  obtain ⟨hs, hl⟩ := C05_combos _ _ c hc5
  exact hs.eq_of_length (by rw [hl, hlen])

theorem omaha_by_rules (ht : HandType) (hkind : ht.cardCount = 5) (key : List Card → List Nat)
    (P : List Card → Prop)
    (hacc : ∀ a b, FiveCards a → FiveCards b → P a → P b →
      ∃ x y, mkHand Tables.build ht a = .ok x ∧ mkHand Tables.build ht b = .ok y ∧
        (x.entry.index < y.entry.index ↔ lexLt (key a) (key b) = true))
    (hrej : ∀ a, FiveCards a → ¬ P a → mkHand Tables.build ht a = .error .valueError)
    (hole board : List Card) (hd : DeckCards (hole ++ board)) :
    (fromGameHoleBoard Tables.build ht hole board = .error .valueError ↔
      ∀ hc bc : List Card, hc.Sublist hole → hc.length = 2 → bc.Sublist board → bc.length = 3 →
        ¬ P (hc ++ bc)) ∧
    (∀ h, fromGameHoleBoard Tables.build ht hole board = .ok h →
      (∃ hc bc : List Card, hc.Sublist hole ∧ hc.length = 2 ∧ bc.Sublist board ∧ bc.length = 3 ∧
        h.cards = hc ++ bc ∧ P (hc ++ bc)) ∧
      ∀ hc bc : List Card, hc.Sublist hole → hc.length = 2 → bc.Sublist board → bc.length = 3 →
        P (hc ++ bc) →
        (if ht.low then lexLt (key (hc ++ bc)) (key h.cards) else lexLt (key h.cards) (key (hc ++ bc))) = false) ∧
    fromGameHoleBoard Tables.build ht hole board ≠ .error .keyError := by
  have hk : Known (hole ++ board) := fun c hc => (hd.known c hc).1
  obtain ⟨hbest, hnone, hnk⟩ := C05_omaha ht Tables.build hole board hk
  simp only [HandType.holeCardCount, HandType.boardCardCount, hkind] at hbest hnone
  have five_of : ∀ hc bc : List Card, hc.Sublist hole → hc.length = 2 → bc.Sublist board → bc.length = 3 →
      FiveCards (hc ++ bc) := by
    intro hc bc h1 l1 h2 l2
    exact hd.five (sublist_append_five h1 h2) (by simp [l1, l2])
  have mem2 : ∀ hc : List Card, hc.Sublist hole → hc.length = 2 → hc ∈ combinations hole 2 := by
    intro hc h1 l1; have := C05_combos_complete _ _ h1; rw [l1] at this; exact this
  have mem3 : ∀ bc : List Card, bc.Sublist board → bc.length = 3 → bc ∈ combinations board 3 := by
    intro bc h2 l2; have := C05_combos_complete _ _ h2; rw [l2] at this; exact this
  have self5 : ∀ hc bc : List Card, hc.length = 2 → bc.length = 3 → hc ++ bc ∈ combinations (hc ++ bc) 5 := by
    intro hc bc l1 l2
    have := C05_combos_complete (hc ++ bc) (hc ++ bc) (List.Sublist.refl _)
    rw [show (hc ++ bc).length = 5 by simp [l1, l2]] at this; exact this
  refine ⟨?_, ?_, hnk⟩
  · rw [hnone]
    constructor
    · intro hall hc bc h1 l1 h2 l2 hp
      have herr := hall hc (mem2 hc h1 l1) bc (mem3 bc h2 l2) (hc ++ bc) (self5 hc bc l1 l2)
      have f := five_of hc bc h1 l1 h2 l2
      obtain ⟨x, _, hx, _⟩ := hacc _ _ f f hp hp
      rw [herr] at hx; cases hx
    · intro hall hc hhc bc hbc c hc5
      obtain ⟨h1, l1⟩ := C05_combos _ _ hc hhc
      obtain ⟨h2, l2⟩ := C05_combos _ _ bc hbc
      have := combos_all (by simp [l1, l2]) hc5
      subst this
      exact hrej _ (five_of hc bc h1 l1 h2 l2) (hall hc bc h1 l1 h2 l2)
  · intro h hres
    obtain ⟨⟨hc, hhc, bc, hbc, c, hc5, hmk⟩, hmax⟩ := hbest h hres
    obtain ⟨h1, l1⟩ := C05_combos _ _ hc hhc
    obtain ⟨h2, l2⟩ := C05_combos _ _ bc hbc
    have := combos_all (by simp [l1, l2]) hc5
    subst this
    have hcards := mkHand_cards hmk
    have f := five_of hc bc h1 l1 h2 l2
    have hP : P (hc ++ bc) := by
      by_contra hn
      rw [hrej _ f hn] at hmk; cases hmk
    refine ⟨⟨hc, bc, h1, l1, h2, l2, hcards, hP⟩, ?_⟩
    intro hc' bc' h1' l1' h2' l2' hP'
    have f' := five_of hc' bc' h1' l1' h2' l2'
    rw [hcards]
    cases hlow : ht.low with
    | false =>
      simp only [Bool.false_eq_true, if_false]
      obtain ⟨x, y, hx, hy, hlt⟩ := hacc _ _ f f' hP hP'
      rw [hmk] at hx; cases hx
      have hle := hmax hc' (mem2 hc' h1' l1') bc' (mem3 bc' h2' l2') _ (self5 hc' bc' l1' l2') y hy
      cases hl2 : lexLt (key (hc ++ bc)) (key (hc' ++ bc')) with
      | false => rfl
      | true =>
        have := hlt.2 hl2
        simp only [score, hlow, Bool.false_eq_true, if_false] at hle
        omega
    | true =>
      simp only [if_true]
      obtain ⟨y, x, hy, hx, hlt⟩ := hacc _ _ f' f hP' hP
      rw [hmk] at hx; cases hx
      have hle := hmax hc' (mem2 hc' h1' l1') bc' (mem3 bc' h2' l2') _ (self5 hc' bc' l1' l2') y hy
      cases hl2 : lexLt (key (hc' ++ bc')) (key (hc ++ bc)) with
      | false => rfl
      | true =>
        have := hlt.2 hl2
        simp only [score, hlow, if_true] at hle
        omega

/-- **Omaha hold'em, high hand** -/
theorem C05_omaha_by_rules (hole board : List Card) (hd : DeckCards (hole ++ board)) :
    (fromGameHoleBoard Tables.build .omaha hole board = .error .valueError ↔
      ∀ hc bc : List Card, hc.Sublist hole → hc.length = 2 → bc.Sublist board → bc.length = 3 → ¬ True) ∧
    (∀ h, fromGameHoleBoard Tables.build .omaha hole board = .ok h →
      (∃ hc bc : List Card, hc.Sublist hole ∧ hc.length = 2 ∧ bc.Sublist board ∧ bc.length = 3 ∧
        h.cards = hc ++ bc ∧ True) ∧
      ∀ hc bc : List Card, hc.Sublist hole → hc.length = 2 → bc.Sublist board → bc.length = 3 → True →
        lexLt (standardKeyOf h.cards) (standardKeyOf (hc ++ bc)) = false) ∧
    fromGameHoleBoard Tables.build .omaha hole board ≠ .error .keyError :=
  omaha_by_rules .omaha rfl standardKeyOf (fun _ => True)
    (fun a b ha hb _ _ => by
      obtain ⟨x, y, hx, hy, _, hlt, _⟩ := C04_standard_table .omaha rfl a b ha hb
      exact ⟨x, y, hx, hy, hlt⟩)
    (fun a _ hn => absurd trivial hn) hole board hd

/-- **Omaha eight-or-better, low hand** -/
theorem C05_omaha8_by_rules (hole board : List Card) (hd : DeckCards (hole ++ board)) :
    (fromGameHoleBoard Tables.build .omaha8 hole board = .error .valueError ↔
      ∀ hc bc : List Card, hc.Sublist hole → hc.length = 2 → bc.Sublist board → bc.length = 3 →
        ¬ QualifiesEight (hc ++ bc)) ∧
    (∀ h, fromGameHoleBoard Tables.build .omaha8 hole board = .ok h →
      (∃ hc bc : List Card, hc.Sublist hole ∧ hc.length = 2 ∧ bc.Sublist board ∧ bc.length = 3 ∧
        h.cards = hc ++ bc ∧ QualifiesEight (hc ++ bc)) ∧
      ∀ hc bc : List Card, hc.Sublist hole → hc.length = 2 → bc.Sublist board → bc.length = 3 →
        QualifiesEight (hc ++ bc) →
        lexLt (eightKeyOf (hc ++ bc)) (eightKeyOf h.cards) = false) ∧
    fromGameHoleBoard Tables.build .omaha8 hole board ≠ .error .keyError :=
  omaha_by_rules .omaha8 rfl eightKeyOf QualifiesEight
    (fun a b ha hb pa pb => by
      obtain ⟨x, y, hx, hy, hlt, _⟩ := C04_eight_table .omaha8 rfl a b ha hb pa pb
      exact ⟨x, y, hx, hy, hlt⟩)
    (fun a ha hn => C04_eight_rejects .omaha8 rfl a ha hn) hole board hd

end PK
