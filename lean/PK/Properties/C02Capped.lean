/-
  C02, capped winnings — **nobody wins from an opponent more than he himself put in**.

  `C02_capped`: when `pots` succeeds, the pots a player still in the hand is eligible for add up to at most what
  was carried into the first pot (the antes, when they are not trimmed) plus, from every player `j`, the part of
  `j`'s contribution that does not exceed the player's own: `min(c_j, P_i)`.  What a player wins comes out of pots
  he is eligible for only (`C02_only_winners_paid`: a push changes the bet of nobody outside the pot's eligible
  players; `C02_split`: the shares of a push add up to the sub-pot; `C01_push_step`: the sub-pots of a pot add up
  to it), so this bounds his winnings.

  How: `fold_prefix` — along the loop over the contribution levels a player is eligible for exactly the pots of
  the levels up to what he put in (merging of pots with the same eligible players does not change that:
  `popSame_elig`), and `layers_prefix` — those layers add up, over all contributors, to every contribution counted
  up to the last such level.
-/
import PK.Properties.C02
namespace PK
open State M

variable (cfg : Config)

/-- the pots (in a reversed pot list) that player `i` is eligible for, added up -/
def elig (i : Nat) (rp : List Pot) : Int := potsTotal (rp.filter fun p => p.players.contains i)

theorem elig_nil (i : Nat) : elig i [] = 0 := rfl

theorem elig_cons (i : Nat) (p : Pot) (rp : List Pot) :
    elig i (p :: rp) = (if p.players.contains i then p.amount else 0) + elig i rp := by
  unfold elig
  simp only [List.filter_cons]
  split
  · rw [potsTotal_cons]
  · simp

/-- merging the trailing pots that have the same eligible players keeps every player's eligible total -/
theorem popSame_elig (i : Nat) (players : List Nat) (rp : List Pot) (amount : Int) :
    (players.contains i = true →
      elig i (popSame players rp amount).1 + (popSame players rp amount).2 = elig i rp + amount) ∧
    (players.contains i = false → elig i (popSame players rp amount).1 = elig i rp) := by
  induction rp generalizing amount with
  | nil => simp [popSame]
  | cons p rest ih =>
    simp only [popSame]
    split
    · rename_i heq
      have hp : p.players = players := by simpa using heq
      obtain ⟨ih1, ih2⟩ := ih (amount + p.amount)
      constructor
      · intro hc
        rw [ih1 hc, elig_cons, hp, hc]; simp only [if_true]; omega
      · intro hc
        rw [ih2 hc, elig_cons, hp, hc]; simp
    · exact ⟨fun _ => rfl, fun _ => rfl⟩

theorem mem_levelPlayers (s : State) (pending : List Int) (v : Int) (i : Nat) :
    (levelPlayers cfg s pending v).contains i = true ↔ i < cfg.n ∧ getI pending i ≥ v ∧ getB s.statuses i = true := by
  unfold levelPlayers playerIndices
  simp [List.mem_filter, List.mem_range]

/-- one level of the loop, seen by player `i` -/
theorem potsStep_elig (s : State) (cs pending : List Int) (hcs : cs.length = cfg.n) (i : Nat)
    (rp : List Pot) (amount prev v : Int) (rp' : List Pot) (amount' prev' : Int)
    (h : potsStep cfg s cs pending (.ok (rp, amount, prev)) v = .ok (rp', amount', prev')) :
    ((levelPlayers cfg s pending v).contains i = true →
      elig i rp' = elig i rp + amount + layer cs v prev) ∧
    ((levelPlayers cfg s pending v).contains i = false → elig i rp' = elig i rp) := by
  unfold potsStep at h
  simp only [levelAmount_eq cfg cs hcs] at h
  obtain ⟨e1, e2⟩ := popSame_elig i (levelPlayers cfg s pending v) rp (amount + layer cs v prev)
  generalize popSame (levelPlayers cfg s pending v) rp (amount + layer cs v prev) = pr at h e1 e2
  obtain ⟨rq, am⟩ := pr
  simp only at h e1 e2
  split at h
  · split at h
    · cases h
    · rename_i p hp
      cases h
      obtain ⟨rfl, _, _⟩ := mkPot_ok hp
      have hsum := pyRake_sum cfg.rake s.boardNonEmpty am
      constructor
      · intro hc
        rw [elig_cons]; simp only [hc, if_true, Pot.amount]
        have := e1 hc; omega
      · intro hc
        rw [elig_cons]; simp only [hc, Bool.false_eq_true, if_false]
        have := e2 hc; omega
  · rename_i hz
    cases h
    have : am = 0 := by simpa using hz
    constructor
    · intro hc; have := e1 hc; omega
    · intro hc; exact e2 hc

theorem potsStep_shape (s : State) (cs pending : List Int) (rp : List Pot) (amount prev v : Int)
    (rp' : List Pot) (amount' prev' : Int)
    (h : potsStep cfg s cs pending (.ok (rp, amount, prev)) v = .ok (rp', amount', prev')) :
    amount' = 0 ∧ prev' = v := by
  unfold potsStep at h
  simp only [] at h
  split at h
  · split at h
    · cases h
    · cases h; exact ⟨rfl, rfl⟩
  · cases h; exact ⟨rfl, rfl⟩

/-- levels above what the player put in do not concern him -/
theorem fold_above (s : State) (cs pending : List Int) (hcs : cs.length = cfg.n) (i : Nat) :
    ∀ (vs : List Int) (rp : List Pot) (amount prev : Int) (rp' : List Pot) (amount' prev' : Int),
    (∀ v ∈ vs, getI pending i < v) →
    vs.foldl (potsStep cfg s cs pending) (.ok (rp, amount, prev)) = .ok (rp', amount', prev') →
    elig i rp' = elig i rp
  | [], rp, amount, prev, rp', amount', prev', _, h => by
    simp only [List.foldl_nil] at h; cases h; rfl
  | v :: vs, rp, amount, prev, rp', amount', prev', hv, h => by
    simp only [List.foldl_cons] at h
    cases hstep : potsStep cfg s cs pending (.ok (rp, amount, prev)) v with
    | error e => rw [hstep, foldl_potsStep_error] at h; cases h
    | ok r =>
      obtain ⟨rq, am, pv⟩ := r
      rw [hstep] at h
      have hnot : (levelPlayers cfg s pending v).contains i = false := by
        cases hc : (levelPlayers cfg s pending v).contains i with
        | false => rfl
        | true =>
          have := ((mem_levelPlayers cfg s pending v i).1 hc).2.1
          have := hv v List.mem_cons_self
          omega
      have e := (potsStep_elig cfg s cs pending hcs i rp amount prev v rq am pv hstep).2 hnot
      rw [fold_above s cs pending hcs i vs rq am pv rp' amount' prev'
        (fun w hw => hv w (List.mem_cons_of_mem _ hw)) h, e]

/-- **the pots a player is eligible for**: exactly the layers up to what he put in (plus what was carried
    into the first of them) -/
theorem fold_prefix (s : State) (cs pending : List Int) (hcs : cs.length = cfg.n) (i : Nat)
    (hi : i < cfg.n) (hlive : getB s.statuses i = true) :
    ∀ (vs : List Int), StrictSorted vs → ∀ (rp : List Pot) (amount prev : Int) (rp' : List Pot)
      (amount' prev' : Int),
    vs.foldl (potsStep cfg s cs pending) (.ok (rp, amount, prev)) = .ok (rp', amount', prev') →
    (vs.filter (fun v => decide (v ≤ getI pending i)) = [] → elig i rp' = elig i rp) ∧
    (vs.filter (fun v => decide (v ≤ getI pending i)) ≠ [] →
      elig i rp' = elig i rp + amount + layers cs prev (vs.filter (fun v => decide (v ≤ getI pending i))))
  | [], _, rp, amount, prev, rp', amount', prev', h => by
    simp only [List.foldl_nil] at h; cases h
    exact ⟨fun _ => rfl, fun hne => absurd rfl hne⟩
  | v :: vs, hs, rp, amount, prev, rp', amount', prev', h => by
    simp only [List.foldl_cons] at h
    have hs' : StrictSorted vs := (List.pairwise_cons.1 hs).2
    have hlt : ∀ w ∈ vs, v < w := (List.pairwise_cons.1 hs).1
    cases hstep : potsStep cfg s cs pending (.ok (rp, amount, prev)) v with
    | error e => rw [hstep, foldl_potsStep_error] at h; cases h
    | ok r =>
      obtain ⟨rq, am, pv⟩ := r
      rw [hstep] at h
      obtain ⟨ham, hpv⟩ := potsStep_shape cfg s cs pending rp amount prev v rq am pv hstep
      rw [ham, hpv] at hstep h
      by_cases hv : v ≤ getI pending i
      · have hin : (levelPlayers cfg s pending v).contains i = true :=
          (mem_levelPlayers cfg s pending v i).2 ⟨hi, hv, hlive⟩
        have e := (potsStep_elig cfg s cs pending hcs i rp amount prev v rq 0 v hstep).1 hin
        obtain ⟨ih1, ih2⟩ := fold_prefix s cs pending hcs i hi hlive vs hs' rq 0 v rp' amount' prev' h
        have htw : (v :: vs).filter (fun v => decide (v ≤ getI pending i)) =
            v :: vs.filter (fun v => decide (v ≤ getI pending i)) := by
          simp [List.filter_cons, hv]
        rw [htw]
        refine ⟨fun hnil => (by cases hnil), fun _ => ?_⟩
        by_cases hnil : vs.filter (fun v => decide (v ≤ getI pending i)) = []
        · rw [ih1 hnil, e, hnil]; simp [layers]
        · rw [ih2 hnil, e]; simp only [layers]; omega
      · have hall : ∀ w ∈ v :: vs, getI pending i < w := by
          intro w hw
          rcases List.mem_cons.1 hw with rfl | hw
          · omega
          · have := hlt w hw; omega
        have htw : (v :: vs).filter (fun v => decide (v ≤ getI pending i)) = [] := by
          apply List.filter_eq_nil_iff.2
          intro w hw
          have := hall w hw
          simp only [decide_eq_true_eq]; omega
        rw [htw]
        refine ⟨fun _ => ?_, fun hne => absurd rfl hne⟩
        have hfold : (v :: vs).foldl (potsStep cfg s cs pending) (.ok (rp, amount, prev)) =
            .ok (rp', amount', prev') := by
          simp only [List.foldl_cons, hstep]; exact h
        exact fold_above cfg s cs pending hcs i (v :: vs) rp amount prev rp' amount' prev' hall hfold

theorem sumI_map_zero (l : List Int) : sumI (l.map fun _ => (0 : Int)) = 0 := by
  induction l with
  | nil => simp
  | cons x xs ih => simp [ih]

theorem getLastD_ge : ∀ (ws : List Int) (d : Int), (∀ w ∈ ws, d ≤ w) → StrictSorted ws → d ≤ ws.getLastD d
  | [], d, _, _ => by simp
  | w :: ws, d, h, hs => by
    rw [List.getLastD_cons]
    have hw : d ≤ w := h w List.mem_cons_self
    have := getLastD_ge ws w (fun x hx => Int.le_of_lt ((List.pairwise_cons.1 hs).1 x hx)) (List.pairwise_cons.1 hs).2
    omega

theorem getLastD_mem_or : ∀ (ws : List Int) (d : Int), ws.getLastD d = d ∨ ws.getLastD d ∈ ws
  | [], d => Or.inl rfl
  | w :: ws, d => by
    rw [List.getLastD_cons]
    rcases getLastD_mem_or ws w with h | h
    · right; rw [h]; exact List.mem_cons_self
    · right; exact List.mem_cons_of_mem _ h

/-- the layers up to a level `L`: every contribution counted up to `L` -/
theorem layers_prefix (cs : List Int) : ∀ (ws : List Int) (prev : Int), (∀ w ∈ ws, prev ≤ w) → StrictSorted ws →
    (∀ c ∈ cs, c ≤ prev ∨ c ∈ ws ∨ ∀ w ∈ ws, w < c) →
    layers cs prev ws = sumI (cs.map fun c => max (min c (ws.getLastD prev) - prev) 0)
  | [], prev, _, _, _ => by
    simp only [layers, List.getLastD_nil]
    symm
    rw [sumI_map_congr cs _ (fun _ => 0) (by intro c _; omega)]
    exact sumI_map_zero cs
  | w :: ws, prev, hge, hs, hc => by
    have hw : prev ≤ w := hge w List.mem_cons_self
    have hs' : StrictSorted ws := (List.pairwise_cons.1 hs).2
    have hlt : ∀ x ∈ ws, w < x := (List.pairwise_cons.1 hs).1
    have hL : w ≤ ws.getLastD w := getLastD_ge ws w (fun x hx => Int.le_of_lt (hlt x hx)) hs'
    simp only [layers, List.getLastD_cons]
    rw [layers_prefix cs ws w (fun x hx => Int.le_of_lt (hlt x hx)) hs', layer, ← sumI_map_add]
    · apply sumI_map_congr
      intro c hcm
      by_cases hcw : c ≥ w
      · simp only [hcw, if_true]; omega
      · have : c ≤ prev := by
          rcases hc c hcm with h | h | h
          · exact h
          · rcases List.mem_cons.1 h with rfl | h
            · omega
            · have := hlt c h; omega
          · have := h w List.mem_cons_self; omega
        simp only [hcw, if_false]; omega
    · intro c hcm
      rcases hc c hcm with h | h | h
      · left; omega
      · rcases List.mem_cons.1 h with rfl | h
        · left; omega
        · right; left; exact h
      · right; right; intro x hx; exact h x (List.mem_cons_of_mem _ hx)

theorem sumI_map_le (l : List Int) (f g : Int → Int) (h : ∀ x ∈ l, f x ≤ g x) :
    sumI (l.map f) ≤ sumI (l.map g) := by
  induction l with
  | nil => simp
  | cons x xs ih =>
    simp only [List.map_cons, sumI_cons]
    have := h x List.mem_cons_self
    have := ih (fun y hy => h y (List.mem_cons_of_mem _ hy))
    omega

theorem cap_mono (l : List Int) (L P : Int) (h : L ≤ P) :
    sumI (l.map fun c => max (min c L - 0) 0) ≤ sumI (l.map fun c => max (min c P) 0) :=
  sumI_map_le l _ _ (fun c _ => by omega)

theorem elig_reverse (i : Nat) (rp : List Pot) : elig i rp.reverse = elig i rp := by
  unfold elig
  rw [List.filter_reverse, potsTotal_reverse]

/-- **nobody wins from an opponent more than he himself put in**: the pots a player still in the hand is
    eligible for add up to at most what was carried into the first pot (the antes, when they are not
    trimmed) plus, from every player, the part of his contribution that does not exceed the player's own -/
theorem C02_capped (s : State) (ps : List Pot) (hp : s.payoffs.length = cfg.n) (hb : s.bets.length = cfg.n)
    (hnone : s.pots_ = none) (h : s.pots cfg = .ok ps) (i : Nat) (hi : i < cfg.n)
    (hlive : getB s.statuses i = true) (hnn : ∀ c ∈ (potsInputs cfg s).2.1, 0 ≤ c)
    (hdead : 0 ≤ (potsInputs cfg s).1) :
    elig i ps ≤ (potsInputs cfg s).1 +
      sumI ((potsInputs cfg s).2.1.map fun c => max (min c (getI (potsInputs cfg s).2.2 i)) 0) := by
  have hsum0 : 0 ≤ sumI ((potsInputs cfg s).2.1.map fun c => max (min c (getI (potsInputs cfg s).2.2 i)) 0) := by
    have := sumI_map_le (potsInputs cfg s).2.1 (fun _ => 0)
      (fun c => max (min c (getI (potsInputs cfg s).2.2 i)) 0) (by intro x _; omega)
    have h0 := sumI_map_zero (potsInputs cfg s).2.1
    omega
  unfold State.pots at h
  rw [hnone] at h
  simp only at h
  split at h
  · cases h; rw [elig_nil]; omega
  · split at h
    · cases h
    · split at h
      · cases h
      · rename_i r hfold
        cases h
        obtain ⟨rp, a, pv⟩ := r
        obtain ⟨hlen, _⟩ := potsInputs_ok cfg s hp hb
        rw [elig_reverse]
        obtain ⟨f1, f2⟩ := fold_prefix cfg s _ _ hlen i hi hlive _ (strictSorted_sortedSet _) [] _ 0 rp a pv hfold
        by_cases hnil : (sortedSet (potsInputs cfg s).2.1).filter
            (fun v => decide (v ≤ getI (potsInputs cfg s).2.2 i)) = []
        · rw [f1 hnil, elig_nil]; omega
        · rw [f2 hnil, elig_nil]
          have hsub : ∀ w ∈ (sortedSet (potsInputs cfg s).2.1).filter
              (fun v => decide (v ≤ getI (potsInputs cfg s).2.2 i)),
              w ∈ (potsInputs cfg s).2.1 ∧ w ≤ getI (potsInputs cfg s).2.2 i := by
            intro w hw
            obtain ⟨a1, a2⟩ := List.mem_filter.1 hw
            exact ⟨(mem_sortedSet _ w).1 a1, by simpa using a2⟩
          rw [layers_prefix _ _ 0 (fun w hw => hnn w (hsub w hw).1)
            ((strictSorted_sortedSet _).sublist List.filter_sublist)]
          · have hL : ((sortedSet (potsInputs cfg s).2.1).filter
                (fun v => decide (v ≤ getI (potsInputs cfg s).2.2 i))).getLastD 0 ≤ getI (potsInputs cfg s).2.2 i := by
              rcases getLastD_mem_or ((sortedSet (potsInputs cfg s).2.1).filter
                (fun v => decide (v ≤ getI (potsInputs cfg s).2.2 i))) 0 with h0 | hm
              · obtain ⟨w, hwm⟩ := List.exists_mem_of_ne_nil _ hnil
                have hw := hsub w hwm
                have := hnn w hw.1
                rw [h0]; omega
              · exact (hsub _ hm).2
            have := cap_mono (potsInputs cfg s).2.1 _ _ hL
            omega
          · intro c hc
            by_cases hcp : c ≤ getI (potsInputs cfg s).2.2 i
            · right; left
              exact List.mem_filter.2 ⟨(mem_sortedSet _ c).2 hc, by simpa using hcp⟩
            · right; right
              intro w hw
              have := (hsub w hw).2
              omega

variable {cfg} {env : Env}

/-- **a push pays eligible players only**: whoever is not among the pot's eligible players has exactly the chips
    in front of him that he had before -/
theorem C02_push_eligible_only {s s' : State} {ps : List Pot} {sp : SubPot} {sps : List SubPot} {op : Operation}
    (hpush : pushChips cfg env s ps sp sps = .ok (s', op)) (pot : Pot) (hpot : ps[sp.pot]? = some pot)
    (hok : PotOk cfg.n pot) (hlen : s.bets.length = cfg.n) (j : Nat) (hj : j ∉ pot.players) :
    getI s'.bets j = getI s.bets j := by
  by_cases hlone : s.liveCount = 1
  · obtain ⟨pot', w, hpot', hw, hb⟩ := C02_lone hlone hpush
    rw [hpot] at hpot'; cases hpot'
    rw [hb]
    have : j ≠ w := by intro e; rw [hw] at hj; exact hj (by simp [e])
    unfold getI
    simp [List.getD_eq_getElem?_getD, List.getElem?_set_ne (Ne.symm this)]
  · obtain ⟨pot', b, k, hands, q, r, hpot', _, _, _, hdm, hb, hw⟩ := C02_winners_best hlone hpush
    rw [hpot] at hpot'; cases hpot'
    rw [hb]
    apply C02_only_winners_paid
    · exact hok.2.2.1.filter _
    · intro i hi
      rw [hlen]; exact hok.2.2.2 i (List.mem_filter.1 hi).1
    · intro hmem; exact hj (List.mem_filter.1 hmem).1

end PK
