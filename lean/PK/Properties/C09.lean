/-
  C09 — Automation is only a convenience: it changes who performs a step, not the hand.

  Theorems (every state, every configuration, every automation subset `A`):

  * `C09_ops_ignore_automation`  what a public operation does — verification, state change, the
        record it logs — does not depend on the automation subset: the only place `automations`
        is read is the `_update_*` methods.
  * `C09_loop_*`  every automation loop, when it fires, performs exactly the public operation
        with default arguments (the frame a user call with no arguments would run), changes
        nothing itself, and re-tests its condition afterwards; when its condition is false it
        does nothing.
  * `C09_update_*` an `_update_*` step with the automation off differs from the same step
        with it on only in *not* starting the loop: the state is identical.
  Together: an automated run executes the same operation frames as a run in which a driver
  issues the default operation whenever the loop would have.  The remaining step — that the
  order in which nested loops resume equals the order in which the twin's driver looks for
  work (one phase at a time, C07_exclusive) — is the global simulation `C09_twin` of DESIGN §6;
  it is NOT proved.  It is checked on every trace: each automated run is replayed on an
  un-automated twin with a default driver and the two operation logs and stacks are compared
  (monitor C09), on the implementation and — the twin being just another case — on the model.
-/
import PK.Proofs.Phase
namespace PK
open State M

variable {cfg : Config} {env : Env}

theorem canWinNow_autos (A : List Automation) (s : State) (p : Nat) :
    s.canWinNow { cfg with autos := A } env p = s.canWinNow cfg env p := by
  have hT : ∀ (b : Nat) (ks : List Nat),
      canWinNow.goTypes { cfg with autos := A } env s p b ks = canWinNow.goTypes cfg env s p b ks := by
    intro b ks
    induction ks with
    | nil => rfl
    | cons k ks ih =>
      unfold canWinNow.goTypes
      rw [ih] <;> rfl
  have hB : ∀ (bs : List Nat),
      canWinNow.goBoards { cfg with autos := A } env s p bs = canWinNow.goBoards cfg env s p bs := by
    intro bs
    induction bs with
    | nil => rfl
    | cons b bs ih =>
      unfold canWinNow.goBoards
      rw [ih, hT] <;> rfl
  unfold State.canWinNow
  rw [hB] <;> rfl

theorem verifyShow_autos (A : List Automation) (s : State) (a : ShowArg) (i : Option Nat) :
    s.verifyShow { cfg with autos := A } env a i = s.verifyShow cfg env a i := by
  unfold State.verifyShow State.showExplicit
  simp only [canWinNow_autos]
  rfl

/-- public operations do not read `automations` -/
theorem C09_ops_ignore_automation (A : List Automation) (s : State) (op : Ctl) (rest : List Ctl)
    (hop : op.isOp = true) (w : Bool) (e : Option Err) :
    step { cfg with autos := A } env { st := s, ctl := op :: rest, err := e, warned := w } =
    step cfg env { st := s, ctl := op :: rest, err := e, warned := w } := by
  cases op
  case opShow a i =>
    unfold step
    simp only [verifyShow_autos]
    rfl
  all_goals first | rfl | (simp [Ctl.isOp] at hop)

/-- the verifiers and queries do not read `automations` either -/
theorem C09_queries_ignore_automation (A : List Automation) (s : State) (op : Ctl) (hop : op.isOp = true) :
    verifyOp { cfg with autos := A } env s op = verifyOp cfg env s op := by
  cases op
  case opShow a i =>
    show Except.map (fun _ => ()) (s.verifyShow { cfg with autos := A } env a i) = _
    rw [verifyShow_autos]; rfl
  all_goals first | rfl | (simp [Ctl.isOp] at hop)

/-! ### the loops perform the default operation and nothing else -/
theorem C09_loop_ante (m : M) (rest : List Ctl) (h : m.ctl = .kAnteLoop :: rest) :
    step cfg env m = if anyB m.st.antePosting then { m with ctl := .opPostAnte none :: .kAnteLoop :: rest }
                     else { m with ctl := rest } := by
  unfold step; rw [h]; simp only []; split <;> rfl

theorem C09_loop_blind (m : M) (rest : List Ctl) (h : m.ctl = .kBlindLoop :: rest) :
    step cfg env m = if anyB m.st.blindPosting then { m with ctl := .opPostBlind none :: .kBlindLoop :: rest }
                     else { m with ctl := rest } := by
  unfold step; rw [h]; simp only []; split <;> rfl

theorem C09_loop_hole (m : M) (rest : List Ctl) (h : m.ctl = .kHoleLoop :: rest)
    (b : Bool) (hc : canOp cfg env m.st (.opDealHole .none none) = .ok b) :
    step cfg env m = if b then { m with ctl := .opDealHole .none none :: .kHoleLoop :: rest }
                     else { m with ctl := rest } := by
  unfold step; rw [h]; simp only []
  have : canOf (m.st.verifyHoleDealing cfg env .none none) = .ok b := by
    simp only [canOp, verifyOp] at hc
    cases hv : m.st.verifyHoleDealing cfg env .none none with
    | ok v => rw [hv] at hc; simpa [canOf, Except.map] using hc
    | error e => rw [hv] at hc; cases e <;> simpa [canOf, Except.map] using hc
  rw [this]; cases b <;> rfl

theorem C09_loop_board (m : M) (rest : List Ctl) (h : m.ctl = .kDealBoard :: rest)
    (b : Bool) (hc : canOp cfg env m.st (.opDealBoard .none) = .ok b) :
    step cfg env m = if cfg.auto .boardDealing && b then { m with ctl := .opDealBoard .none :: rest }
                     else { m with ctl := rest } := by
  unfold step; rw [h]; simp only []
  have : canOf (m.st.verifyBoardDealing cfg env .none) = .ok b := by
    simp only [canOp, verifyOp] at hc
    cases hv : m.st.verifyBoardDealing cfg env .none with
    | ok v => rw [hv] at hc; simpa [canOf, Except.map] using hc
    | error e => rw [hv] at hc; cases e <;> simpa [canOf, Except.map] using hc
  rw [this]
  cases cfg.auto .boardDealing <;> cases b <;> rfl

theorem C09_loop_runout (m : M) (rest : List Ctl) (h : m.ctl = .kRunoutLoop :: rest) :
    step cfg env m = if anyB m.st.runoutSelectors then { m with ctl := .opRunout none none :: .kRunoutLoop :: rest }
                     else { m with ctl := rest } := by
  unfold step; rw [h]; simp only []; split <;> rfl

theorem C09_loop_show (m : M) (rest : List Ctl) (h : m.ctl = .kShowLoop :: rest) :
    step cfg env m = if !m.st.showdown.isEmpty then { m with ctl := .opShow .none none :: .kShowLoop :: rest }
                     else { m with ctl := rest } := by
  unfold step; rw [h]; simp only []; split <;> rfl

theorem C09_loop_kill (m : M) (rest : List Ctl) (h : m.ctl = .kKillLoop :: rest) :
    step cfg env m = if anyB m.st.handKilling then { m with ctl := .opKill none :: .kKillLoop :: rest }
                     else { m with ctl := rest } := by
  unfold step; rw [h]; simp only []; split <;> rfl

theorem C09_loop_push (m : M) (rest : List Ctl) (h : m.ctl = .kPushLoop :: rest) :
    step cfg env m = if !m.st.subPots.isEmpty then { m with ctl := .opPush :: .kPushLoop :: rest }
                     else { m with ctl := rest } := by
  unfold step; rw [h]; simp only []; split <;> rfl

theorem C09_loop_pull (m : M) (rest : List Ctl) (h : m.ctl = .kPullLoop :: rest) :
    step cfg env m = if anyB m.st.chipsPulling then { m with ctl := .opPull none :: .kPullLoop :: rest }
                     else { m with ctl := rest } := by
  unfold step; rw [h]; simp only []; split <;> rfl

/-! ### an `_update_*` step: with the automation off the state is the same, only no loop starts -/
theorem C09_update_ante (A : List Automation) (m : M) (op) (rest : List Ctl) (h : m.ctl = .updAnte op :: rest) :
    (step { cfg with autos := A } env m).st = (step cfg env m).st ∧
    (step cfg env m).st = M.log m.st op := by
  unfold step; rw [h]; simp only []
  constructor <;> (repeat' split) <;> rfl

theorem C09_update_deal (A : List Automation) (m : M) (op) (rest : List Ctl) (h : m.ctl = .updDeal op :: rest) :
    (step { cfg with autos := A } env m).st = (step cfg env m).st ∧
    (step cfg env m).st = M.log m.st op := by
  unfold step; rw [h]; simp only []
  constructor <;> (repeat' split) <;> rfl

theorem C09_update_show (A : List Automation) (m : M) (op) (rest : List Ctl) (h : m.ctl = .updShow op :: rest) :
    (step { cfg with autos := A } env m).st = (step cfg env m).st ∧
    (step cfg env m).st = M.log m.st op := by
  unfold step; rw [h]; simp only []
  constructor <;> (repeat' split) <;> rfl

theorem C09_update_push (A : List Automation) (m : M) (op) (rest : List Ctl) (h : m.ctl = .updPush op :: rest) :
    (step { cfg with autos := A } env m).st = (step cfg env m).st ∧
    (step cfg env m).st = M.log m.st op := by
  unfold step; rw [h]; simp only []
  constructor <;> (repeat' split) <;> rfl

end PK
