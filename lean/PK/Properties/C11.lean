/-
  C11 — each predefined variant plays the game its name and documentation say.

  * `C11_table`        the twelve game classes as games.py composes them (structure mix-in, family
                        street template, class attributes — `PK.Model.Games`, compared with the live
                        classes attribute by attribute on every run) ARE the documented table
                        `PK.Spec.Variants`: deck, hand type(s), cards per street with facing, board
                        cards per street, draw rounds, opening rule, structure, small/big-bet streets,
                        raise cap — for every small and big bet.
  * `C11_codes`        the eleven hand-history codes name the classes their letters say.
  * behaviour, for every state of a game built from a table row (corollaries of C03/C02):
      `C11_fixed_limit_amount`   a fixed-limit game accepts exactly one bet/raise size;
      `C11_fixed_limit_size`     … which is the street's bet (small on the early streets, big on the
                                 late ones) on top of the bet to match, unless the stack is shorter;
      `C11_cap_four`             … and refuses the fifth bet/raise of a round;
      `C11_no_cap`               pot- and no-limit games never refuse a raise for the count;
      `C11_no_limit_to_stack`    a no-limit game accepts up to the whole stack;
      `C11_pot_limit_to_pot`     a pot-limit game up to the pot-sized raise;
      `C11_split_two_halves`     exactly the two hi-lo games have two hand types, so every board's
                                 share of a pot is halved between them (when both are in play).
-/
import PK.Spec.Variants
import PK.Properties.C03
namespace PK
open State M Spec

variable {cfg : Config} {env : Env}

/-- **the table**: model of games.py = documented table, for all bet sizes -/
theorem C11_table (v : Variant) (sb bb : Int) :
    v.deck = (variantSpec v).deck ∧ v.handTypes = (variantSpec v).handTypes ∧
    v.mixin.structure = (variantSpec v).structure_ ∧
    v.streets sb bb = streetsOf (variantSpec v) sb bb := by
  cases v <;> exact ⟨rfl, rfl, rfl, rfl⟩

/-- single-bet games (no-limit, pot-limit, single draw) play one bet size on every street -/
theorem C11_single_bet (v : Variant) (h : v.singleBet = true) (m : Int) :
    ∀ st ∈ v.streets m m, st.minBet = m := by
  cases v <;> simp [Variant.singleBet, Variant.family] at h <;>
    (intro st hst; simp [Variant.streets, Variant.family] at hst; rcases hst with h | h | h | h <;> (try subst h) <;> rfl)

/-- hand-history codes: structure letter, then game letters -/
theorem C11_codes :
    (Variant.all.filterMap fun v => v.code.map fun c => (c, v.className)) =
    [("FT", "FixedLimitTexasHoldem"), ("NT", "NoLimitTexasHoldem"), ("NS", "NoLimitShortDeckHoldem"),
     ("PO", "PotLimitOmahaHoldem"), ("FO/8", "FixedLimitOmahaHoldemHighLowSplitEightOrBetter"),
     ("F7S", "FixedLimitSevenCardStud"), ("F7S/8", "FixedLimitSevenCardStudHighLowSplitEightOrBetter"),
     ("FR", "FixedLimitRazz"), ("N2L1D", "NoLimitDeuceToSevenLowballSingleDraw"),
     ("F2L3D", "FixedLimitDeuceToSevenLowballTripleDraw"), ("FB", "FixedLimitBadugi")] := by
  decide

/-- a code starting with `F` / `P` / `N` names a fixed- / pot- / no-limit game -/
theorem C11_code_structure (v : Variant) (c : String) (h : v.code = some c) :
    (c.front = 'F' → (variantSpec v).structure_ = .fixedLimit) ∧
    (c.front = 'P' → (variantSpec v).structure_ = .potLimit) ∧
    (c.front = 'N' → (variantSpec v).structure_ = .noLimit) := by
  cases v <;> simp [Variant.code] at h <;> subst h <;> decide

/-- a configuration built from a table row -/
def IsVariant (cfg : Config) (v : Variant) (sb bb : Int) : Prop :=
  cfg.streets = streetsOf (variantSpec v) sb bb ∧ cfg.structure_ = (variantSpec v).structure_ ∧
  cfg.handTypes = (variantSpec v).handTypes ∧ cfg.deck = (variantSpec v).deck

theorem config_isVariant (v : Variant) (autos trim antes blinds bringIn sb bb stacks n) :
    IsVariant (v.config autos trim antes blinds bringIn sb bb stacks n) v sb
      (if v.singleBet then sb else bb) := by
  obtain ⟨h1, h2, h3, h4⟩ := C11_table v sb (if v.singleBet then sb else bb)
  exact ⟨h4, h3, h2, h1⟩

theorem street_of_variant {v : Variant} {sb bb : Int} (hv : IsVariant cfg v sb bb) {s : State} {st : Street}
    (hst : s.street cfg = some st) : st ∈ streetsOf (variantSpec v) sb bb := by
  rw [← hv.1]; exact street_mem hst

/-- every street of a table row carries the cap of its structure, and the small or the big bet -/
theorem street_facts (v : Variant) (sb bb : Int) (st : Street) (h : st ∈ streetsOf (variantSpec v) sb bb) :
    st.maxCount = capOf (variantSpec v).structure_ ∧ (st.minBet = sb ∨ st.minBet = bb) := by
  unfold streetsOf at h
  obtain ⟨⟨r, i⟩, _, rfl⟩ := List.mem_map.mp h
  refine ⟨rfl, ?_⟩
  show (if r.big then bb else sb) = sb ∨ (if r.big then bb else sb) = bb
  cases r.big <;> simp

/-- **fixed limit: one bet size.**  In a fixed-limit variant the largest raise-to amount is the
    smallest one. -/
theorem C11_fixed_limit_amount {v : Variant} {sb bb : Int} (hv : IsVariant cfg v sb bb)
    (hfl : (variantSpec v).structure_ = .fixedLimit) {s : State} {p : Nat} {mn : Int}
    (hok : s.verifyCbr0 cfg = .ok p) (hm : s.minCbrTo cfg = .ok (some mn))
    (hle : mn ≤ getI s.stacks p + getI s.bets p) : s.maxCbrTo cfg = .ok (some mn) :=
  C03_fixed_limit (hv.2.1.trans hfl) hok hm hle

/-- **fixed limit: the size is the street's bet** — the small or the big bet of the table row on top of
    the bet to match (or the largest raise so far, if larger; a completion of the bring-in is to the
    bet itself), cut down to what the player and his opponents have -/
theorem C11_fixed_limit_size {v : Variant} {sb bb : Int} (hv : IsVariant cfg v sb bb)
    {s : State} {p : Nat} {st : Street} {eff : Int}
    (hok : s.verifyCbr0 cfg = .ok p) (hst : s.street cfg = some st)
    (he : s.effectiveStack cfg p = .ok eff) :
    (st.minBet = sb ∨ st.minBet = bb) ∧
    s.minCbrTo cfg = .ok (some (min (eff + getI s.bets p)
      (max s.cbrAmount st.minBet + (if s.completionStatus then 0 else maxI s.bets)))) :=
  ⟨(street_facts v sb bb st (street_of_variant hv hst)).2, C03_min_amount hok hst he⟩

/-- **fixed limit: at most four bets/raises per round** -/
theorem C11_cap_four {v : Variant} {sb bb : Int} (hv : IsVariant cfg v sb bb)
    (hfl : (variantSpec v).structure_ = .fixedLimit) {s : State} {p : Nat} {rest : List Nat} {st : Street}
    (ha : s.actors = p :: rest) (hs : getI s.stacks p ≠ 0) (hst : s.street cfg = some st)
    (hcount : s.cbrCount = 4) (a : Option Int) : s.verifyCbr cfg a = .error .valueError := by
  have hcap := (street_facts v sb bb st (street_of_variant hv hst)).1
  rw [hfl] at hcap
  exact C03_refuses_all (C03_cap ha hs hst hcap hcount) a

/-- **pot- and no-limit: no cap** — the count of bets/raises never refuses a raise -/
theorem C11_no_cap {v : Variant} {sb bb : Int} (hv : IsVariant cfg v sb bb)
    (hnf : (variantSpec v).structure_ ≠ .fixedLimit) {s : State} {st : Street}
    (hst : s.street cfg = some st) : st.maxCount = none := by
  have hcap := (street_facts v sb bb st (street_of_variant hv hst)).1
  rw [hcap]
  cases h : (variantSpec v).structure_ <;> simp_all [capOf]

/-- **no limit: up to the stack** -/
theorem C11_no_limit_to_stack {v : Variant} {sb bb : Int} (hv : IsVariant cfg v sb bb)
    (hnl : (variantSpec v).structure_ = .noLimit) {s : State} {p : Nat}
    (hok : s.verifyCbr0 cfg = .ok p) :
    s.maxCbrTo cfg = .ok (some (getI s.stacks p + getI s.bets p)) :=
  C03_no_limit (hv.2.1.trans hnl) hok

/-- **pot limit: up to the pot** -/
theorem C11_pot_limit_to_pot {v : Variant} {sb bb : Int} (hv : IsVariant cfg v sb bb)
    (hpl : (variantSpec v).structure_ = .potLimit) {s : State} {p : Nat} {mn tp : Int}
    (hok : s.verifyCbr0 cfg = .ok p) (hm : s.minCbrTo cfg = .ok (some mn))
    (ht : s.totalPotAmount cfg = .ok tp) :
    s.maxCbrTo cfg = .ok (some (min (getI s.stacks p + getI s.bets p)
      (max mn (2 * maxI s.bets - getI s.bets p + tp)))) :=
  C03_pot_limit (hv.2.1.trans hpl) hok hm ht

/-- which structure each name promises -/
theorem C11_structures :
    (Variant.all.map fun v => (variantSpec v).structure_) =
    [.fixedLimit, .noLimit, .noLimit, .noLimit, .potLimit, .fixedLimit, .fixedLimit, .fixedLimit,
     .fixedLimit, .noLimit, .fixedLimit, .fixedLimit] := by decide

/-- **split games**: exactly the two "high-low split eight or better" games rank two hand types (a
    high and an eight-or-better low); every other game one -/
theorem C11_split_two_halves (v : Variant) :
    (variantSpec v).handTypes.length =
      (if v = .fixedLimitOmahaHoldemHighLowSplitEightOrBetter ∨
          v = .fixedLimitSevenCardStudHighLowSplitEightOrBetter then 2 else 1) ∧
    ((variantSpec v).handTypes.length = 2 →
      ((variantSpec v).handTypes.map HandType.low) = [false, true]) := by
  cases v <;> decide

/-- how many cards a player holds at the end, down and up, and how many community cards there are -/
theorem C11_card_counts :
    (Variant.all.map fun v =>
      let rows := (variantSpec v).rows
      ((rows.map (·.down)).sum, (rows.map (·.up)).sum, (rows.map (·.board)).sum, (rows.filter (·.draw)).length)) =
    [(2,0,5,0), (2,0,5,0), (2,0,5,0), (2,0,5,0), (4,0,5,0), (4,0,5,0),
     (3,4,0,0), (3,4,0,0), (3,4,0,0), (5,0,0,1), (5,0,0,3), (4,0,0,3)] := by decide

end PK
