/-
  C19 — equivalent ways of writing chips and cards mean the same thing.

  Chips (`clean_values`):
  * `C19_number`, `C19_list`      a single number is that number for every player; a list / tuple is
                                  cut or padded with zeros to the player count.
  * `C19_mapping`                 a position-to-amount mapping gives every player the sum of the
                                  entries whose key names him (missing entries zero); it is refused
                                  (IndexError) iff a key is out of range (`C19_mapping_refused`).
  * `C19_negative_key`            a negative position counts from the button: `-1` is the last seat.
  * `C19_same_layout`             the explicit list, the mapping of every position, the mapping with
                                  every position written negatively and (for equal amounts) the single
                                  number all denote the same per-player list.
  Cards (`Card.parse`, `Card.clean`):
  * `C19_card_roundtrip`          the text form of each of the 70 cards (13 ranks and `?` × 4 suits and
                                  `?`) parses back to exactly that card.
  * `C19_ten`                     `10` may be written for `T`.
  * `C19_cards_text`              the text forms of any list of cards, written one after the other,
                                  parse back to that list; `C19_separated`: so do they when separated
                                  by blanks and/or commas.
  * `C19_clean`                   a card object, the list holding it and its text denote the same
                                  cards.
  Construction (`State.__post_init__`):
  * `C19_accepts`                 an accepted configuration has no negative ante or bring-in, some
                                  forced bet, only positive stacks, no blinds together with a bring-in
                                  and at least two players; `C19_rejects_*`: each defect alone refuses.
  Helpers:
  * `C19_divmod`, `C19_rake`      the default pot-division and rake helpers return parts that add up
                                  to the amount (and are non-negative for a non-negative amount).
-/
import PK.Proofs.Pots
namespace PK

/-! ### chips -/

theorem C19_number (v : Int) (n : Nat) : cleanValues (.num v) n = some (List.replicate n v) := rfl

theorem C19_list (l : List Int) (n : Nat) :
    cleanValues (.seq l) n = some (l.take n ++ List.replicate (n - l.length) 0) ∧
    (l.take n ++ List.replicate (n - l.length) 0).length = n := by
  constructor
  · unfold cleanValues
    simp only [List.length_take]
    have : n - min n l.length = n - l.length := by omega
    rw [this]
  · simp only [List.length_append, List.length_take, List.length_replicate]; omega

/-- an explicit per-player list is itself -/
theorem C19_list_exact (l : List Int) : cleanValues (.seq l) l.length = some l := by
  rw [(C19_list l l.length).1]; simp

/-- what a mapping contributes to seat `i`: the sum of the values whose key names seat `i` -/
def contribution (n : Nat) (m : List (Int × Int)) (i : Nat) : Int :=
  sumI (m.map fun kx => if pyIndex n kx.1 = some i then kx.2 else 0)

theorem pyIndex_lt {n : Nat} {k : Int} {i : Nat} (h : pyIndex n k = some i) : i < n := by
  unfold pyIndex at h
  split at h
  · split at h
    · cases h; assumption
    · cases h
  · split at h
    · cases h; omega
    · cases h

/-- the accumulation loop `parsed_values[key] += value` -/
def mapStep (n : Nat) (acc : Option (List Int)) (kx : Int × Int) : Option (List Int) :=
  match acc with
  | none => none
  | some l => match pyIndex n kx.1 with
    | none => none
    | some i => some (l.set i (l.getD i 0 + kx.2))

theorem cleanValues_map (m : List (Int × Int)) (n : Nat) :
    cleanValues (.map m) n = m.foldl (mapStep n) (some (List.replicate n 0)) := by
  unfold cleanValues
  congr 1

theorem mapStep_none (n : Nat) (m : List (Int × Int)) : m.foldl (mapStep n) none = none := by
  induction m with
  | nil => rfl
  | cons a m ih => exact ih

theorem map_fold (n : Nat) : ∀ (m : List (Int × Int)) (acc : List Int), acc.length = n →
    (∀ kx ∈ m, pyIndex n kx.1 ≠ none) →
    ∃ l, m.foldl (mapStep n) (some acc) = some l ∧ l.length = n ∧
      ∀ i, i < n → l.getD i 0 = acc.getD i 0 + contribution n m i := by
  intro m
  induction m with
  | nil =>
    intro acc hlen _
    exact ⟨acc, rfl, hlen, fun i _ => by simp [contribution]⟩
  | cons kx m ih =>
    intro acc hlen hok
    have hk := hok kx (by simp)
    obtain ⟨j, hj⟩ := Option.ne_none_iff_exists'.mp hk
    have hjn := pyIndex_lt hj
    simp only [List.foldl_cons, mapStep, hj]
    obtain ⟨l, hl, hll, hget⟩ := ih (acc.set j (acc.getD j 0 + kx.2)) (by simp [hlen])
      (fun a ha => hok a (by simp [ha]))
    refine ⟨l, hl, hll, ?_⟩
    intro i hi
    rw [hget i hi]
    unfold contribution
    simp only [List.map_cons, sumI_cons, hj]
    by_cases hij : j = i
    · subst hij
      have : (acc.set j (acc.getD j 0 + kx.2)).getD j 0 = acc.getD j 0 + kx.2 := by
        simp [List.getD_eq_getElem?_getD, hlen, hjn]
      rw [this]; simp; omega
    · have : (acc.set j (acc.getD j 0 + kx.2)).getD i 0 = acc.getD i 0 := by
        simp [List.getD_eq_getElem?_getD, List.getElem?_set_ne hij]
      rw [this]
      have : (some j = some i) = False := by simp [hij]
      simp [this]

/-- **a position-to-amount mapping**: every seat gets the sum of the entries naming it (zero when none
    does) -/
theorem C19_mapping (m : List (Int × Int)) (n : Nat) (hok : ∀ kx ∈ m, pyIndex n kx.1 ≠ none) :
    ∃ l, cleanValues (.map m) n = some l ∧ l.length = n ∧ ∀ i, i < n → l.getD i 0 = contribution n m i := by
  rw [cleanValues_map]
  obtain ⟨l, hl, hll, hget⟩ := map_fold n m (List.replicate n 0) (by simp) hok
  refine ⟨l, hl, hll, ?_⟩
  intro i hi
  rw [hget i hi]
  simp [List.getD_eq_getElem?_getD, hi]

/-- … and it is refused (IndexError) as soon as one key is out of range -/
theorem C19_mapping_refused (m : List (Int × Int)) (n : Nat) (kx : Int × Int) (hmem : kx ∈ m)
    (hbad : pyIndex n kx.1 = none) : cleanValues (.map m) n = none := by
  rw [cleanValues_map]
  generalize List.replicate n (0 : Int) = acc
  induction m generalizing acc with
  | nil => cases hmem
  | cons a m ih =>
    simp only [List.foldl_cons]
    rcases List.mem_cons.mp hmem with h | h
    · subst h
      simp only [mapStep, hbad]
      exact mapStep_none n m
    · cases hp : pyIndex n a.1 with
      | none => simp only [mapStep, hp]; exact mapStep_none n m
      | some j => simp only [mapStep, hp]; exact ih h _

/-- **negative positions count from the button**: key `-(j+1)` is seat `n-1-j`; keys `0 … n-1` are the
    seats themselves; everything else is out of range -/
theorem C19_negative_key (n j : Nat) (h : j < n) : pyIndex n (-((j : Int) + 1)) = some (n - 1 - j) := by
  unfold pyIndex
  have h1 : ¬ (0 : Int) ≤ -((j : Int) + 1) := by omega
  simp only [h1, if_false]
  have h2 : (-(-((j : Int) + 1))).toNat = j + 1 := by omega
  rw [h2]
  simp only [show j + 1 ≤ n from h, if_true]
  congr 1
  omega

theorem C19_positive_key (n i : Nat) (h : i < n) : pyIndex n (i : Int) = some i := by
  unfold pyIndex
  simp [h]

theorem C19_key_range (n : Nat) (k : Int) : pyIndex n k ≠ none ↔ (-(n : Int) ≤ k ∧ k < n) := by
  unfold pyIndex
  by_cases h0 : 0 ≤ k
  · simp only [h0, if_true]
    by_cases h1 : k.toNat < n
    · simp only [h1, if_true]; constructor
      · intro _; omega
      · intro _ h; cases h
    · simp only [h1, if_false]; constructor
      · intro h; exact absurd rfl h
      · intro ⟨_, h⟩; omega
  · simp only [h0, if_false]
    by_cases h1 : (-k).toNat ≤ n
    · simp only [h1, if_true]; constructor
      · intro _; omega
      · intro _ h; cases h
    · simp only [h1, if_false]; constructor
      · intro h; exact absurd rfl h
      · intro ⟨h, _⟩; omega

theorem sum_single (f : Nat → Int) (i : Nat) : ∀ n, i < n →
    sumI ((List.range n).map fun j => if j = i then f j else 0) = f i := by
  intro n
  induction n with
  | zero => intro h; omega
  | succ n ih =>
    intro h
    rw [List.range_succ, List.map_append, sumI_append]
    simp only [List.map_cons, List.map_nil, sumI_cons, sumI_nil]
    by_cases hin : i < n
    · rw [ih hin]
      have : ¬ n = i := by omega
      simp [this]
    · have hi : n = i := by omega
      subst hi
      have : sumI ((List.range n).map fun j => if j = n then f j else 0) = 0 := by
        have : ((List.range n).map fun j => if j = n then f j else 0) = (List.range n).map fun _ => (0 : Int) := by
          apply List.map_congr_left
          intro j hj
          have := List.mem_range.mp hj
          have : ¬ j = n := by omega
          simp [this]
        rw [this]
        induction (List.range n) with
        | nil => rfl
        | cons a l ih' => simp [ih']
      rw [this]; simp

/-- **the same layout four ways**: the explicit list `l`, the mapping of every position to its amount,
    and the same mapping with every position counted from the button all clean to `l`. -/
theorem C19_same_layout (l : List Int) :
    cleanValues (.seq l) l.length = some l ∧
    cleanValues (.map ((List.range l.length).map fun (i : Nat) => ((i : Int), l.getD i 0))) l.length = some l ∧
    cleanValues (.map ((List.range l.length).map fun (i : Nat) => ((i : Int) - l.length, l.getD i 0))) l.length = some l := by
  refine ⟨C19_list_exact l, ?_, ?_⟩
  · obtain ⟨r, hr, hlen, hget⟩ := C19_mapping ((List.range l.length).map fun (i : Nat) => ((i : Int), l.getD i 0)) l.length
      (by
        intro kx hkx
        obtain ⟨i, hi, rfl⟩ := List.mem_map.mp hkx
        rw [C19_positive_key _ _ (List.mem_range.mp hi)]; simp)
    rw [hr]
    congr 1
    apply List.ext_getElem (by omega)
    intro i h1 h2
    have := hget i h2
    rw [List.getD_eq_getElem?_getD, List.getElem?_eq_getElem h1] at this
    simp only [Option.getD_some] at this
    rw [this]
    unfold contribution
    rw [List.map_map]
    have : ((fun kx : Int × Int => if pyIndex l.length kx.1 = some i then kx.2 else 0) ∘
        fun (i : Nat) => ((i : Int), l.getD i 0)) = fun (j : Nat) => if pyIndex l.length (j : Int) = some i then l.getD j 0 else 0 := rfl
    rw [this]
    have h3 : ((List.range l.length).map fun (j : Nat) => if pyIndex l.length (j : Int) = some i then l.getD j 0 else 0) =
        (List.range l.length).map fun j => if j = i then l.getD j 0 else 0 := by
      apply List.map_congr_left
      intro j hj
      rw [C19_positive_key _ _ (List.mem_range.mp hj)]
      simp
    rw [h3, sum_single (fun j => l.getD j 0) i l.length h2]
    simp [List.getD_eq_getElem?_getD, h2]
  · obtain ⟨r, hr, hlen, hget⟩ := C19_mapping
      ((List.range l.length).map fun (i : Nat) => ((i : Int) - l.length, l.getD i 0)) l.length
      (by
        intro kx hkx
        obtain ⟨i, hi, rfl⟩ := List.mem_map.mp hkx
        have := List.mem_range.mp hi
        rw [C19_key_range]
        constructor <;> omega)
    rw [hr]
    congr 1
    apply List.ext_getElem (by omega)
    intro i h1 h2
    have := hget i h2
    rw [List.getD_eq_getElem?_getD, List.getElem?_eq_getElem h1] at this
    simp only [Option.getD_some] at this
    rw [this]
    unfold contribution
    rw [List.map_map]
    have h3 : ((List.range l.length).map ((fun kx : Int × Int => if pyIndex l.length kx.1 = some i then kx.2 else 0) ∘
        fun (i : Nat) => ((i : Int) - l.length, l.getD i 0))) =
        (List.range l.length).map fun j => if j = i then l.getD j 0 else 0 := by
      apply List.map_congr_left
      intro j hj
      have hjl := List.mem_range.mp hj
      have hkey : pyIndex l.length ((j : Int) - l.length) = some j := by
        have := C19_negative_key l.length (l.length - 1 - j) (by omega)
        have e1 : -(((l.length - 1 - j : Nat) : Int) + 1) = (j : Int) - l.length := by omega
        have e2 : l.length - 1 - (l.length - 1 - j) = j := by omega
        rw [e1, e2] at this; exact this
      simp [Function.comp, hkey]
    rw [h3, sum_single (fun j => l.getD j 0) i l.length h2]
    simp [List.getD_eq_getElem?_getD, h2]

/-- a single number is the list repeating it -/
theorem C19_number_is_list (v : Int) (n : Nat) :
    cleanValues (.num v) n = cleanValues (.seq (List.replicate n v)) n := by
  rw [C19_number, (C19_list _ _).1]; simp

/-! ### cards -/

/-- the 70 cards: 13 ranks and the unknown rank, 4 suits and the unknown suit -/
def cards70 : List Card := (List.range 14).flatMap fun r => (List.range 5).map fun s => ⟨r, s⟩

/-- **the text form of every card parses back to that card** -/
theorem C19_card_roundtrip : ∀ c ∈ cards70, Card.parseChars c.reprChars = some [c] := by
  decide

/-- … also through the `String` functions the model's `Card.parse` / `Card.repr` use -/
theorem C19_card_roundtrip_string (c : Card) (h : c ∈ cards70) : Card.parse c.repr = some [c] := by
  unfold Card.parse Card.repr
  rw [String.toList_ofList]
  exact C19_card_roundtrip c h

/-- **`10` may be written for `T`** -/
theorem C19_ten : ∀ s ∈ suitChars, Card.parseChars ['1', '0', s] = Card.parseChars ['T', s] := by
  decide

theorem mem_cards70 (c : Card) : c ∈ cards70 ↔ c.rank < 14 ∧ c.suit < 5 := by
  unfold cards70
  simp only [List.mem_flatMap, List.mem_range, List.mem_map]
  constructor
  · rintro ⟨r, hr, s, hs, rfl⟩; exact ⟨hr, hs⟩
  · rintro ⟨hr, hs⟩; exact ⟨c.rank, hr, c.suit, hs, rfl⟩

/-- the characters of a card's text are never `1`, `,` or whitespace, and there are two of them -/
theorem reprChars_plain : ∀ c ∈ cards70, ∀ ch ∈ c.reprChars,
    ch ≠ '1' ∧ ch ≠ ',' ∧ isPyWhitespace ch = false := by
  decide

theorem parsePairs_repr : ∀ c ∈ cards70, ∀ (rest : List Char),
    parsePairs (c.reprChars ++ rest) = (parsePairs rest).map (c :: ·) := by
  intro c hc rest
  have key : ∀ c ∈ cards70, rankOfChar (rankChars.getD c.rank '!') = some c.rank ∧
      suitOfChar (suitChars.getD c.suit '!') = some c.suit := by decide
  obtain ⟨hr, hs⟩ := key c hc
  show parsePairs (rankChars.getD c.rank '!' :: suitChars.getD c.suit '!' :: rest) = _
  rw [parsePairs, hr, hs]
  cases parsePairs rest <;> rfl

/-- a run of card texts, with no separator, reads back as the cards -/
theorem parsePairs_reprs (cs : List Card) (h : ∀ c ∈ cs, c ∈ cards70) :
    parsePairs (cs.flatMap Card.reprChars) = some cs := by
  induction cs with
  | nil => rfl
  | cons c cs ih =>
    simp only [List.flatMap_cons]
    rw [parsePairs_repr c (h c (by simp)), ih (fun a ha => h a (by simp [ha]))]
    rfl

theorem replace10_plain : ∀ (l : List Char), (∀ ch ∈ l, ch ≠ '1') → replace10 l = l := by
  intro l
  induction l with
  | nil => intro _; rfl
  | cons a l ih =>
    intro h
    have ha : a ≠ '1' := h a (by simp)
    have := ih (fun ch hch => h ch (by simp [hch]))
    unfold replace10
    split
    · rename_i heq; simp at heq; exact absurd heq.1 ha
    · rename_i c rest _ heq; simp only [List.cons.injEq] at heq; rw [← heq.1, ← heq.2, this]
    · rename_i heq; cases heq

theorem splitWs_go_plain : ∀ (l cur : List Char) (acc : List (List Char)),
    (∀ ch ∈ l, isPyWhitespace ch = false) →
    splitWs.go l cur acc = (if (l.reverse ++ cur).isEmpty then acc else (l.reverse ++ cur).reverse :: acc).reverse := by
  intro l
  induction l with
  | nil => intro cur acc _; simp [splitWs.go]
  | cons a l ih =>
    intro cur acc h
    have ha : isPyWhitespace a = false := h a (by simp)
    unfold splitWs.go
    simp only [ha, Bool.false_eq_true, if_false]
    rw [ih (a :: cur) acc (fun ch hch => h ch (by simp [hch]))]
    simp

/-- text without whitespace is one chunk -/
theorem splitWs_plain (l : List Char) (h : ∀ ch ∈ l, isPyWhitespace ch = false) (hne : l ≠ []) :
    splitWs l = [l] := by
  unfold splitWs
  rw [splitWs_go_plain l [] [] h]
  have : (l.reverse ++ []).isEmpty = false := by
    cases l with
    | nil => exact absurd rfl hne
    | cons a l => simp
  simp [hne]

theorem reprs_plain (cs : List Card) (h : ∀ c ∈ cs, c ∈ cards70) :
    ∀ ch ∈ cs.flatMap Card.reprChars, ch ≠ '1' ∧ ch ≠ ',' ∧ isPyWhitespace ch = false := by
  intro ch hch
  obtain ⟨c, hc, hcc⟩ := List.mem_flatMap.mp hch
  exact reprChars_plain c (h c hc) ch hcc

theorem length_reprs (cs : List Card) : (cs.flatMap Card.reprChars).length = 2 * cs.length := by
  induction cs with
  | nil => rfl
  | cons c cs ih => simp only [List.flatMap_cons, List.length_append, ih, List.length_cons]; simp [Card.reprChars]; omega

theorem cards_text_core (cs : List Card) (h : ∀ c ∈ cs, c ∈ cards70) :
    (splitWs (cs.flatMap Card.reprChars)).foldl parseChunk (some []) = some cs := by
  have hp := reprs_plain cs h
  cases cs with
  | nil => rfl
  | cons c cs =>
    rw [splitWs_plain _ (fun ch hch => (hp ch hch).2.2) (by simp [Card.reprChars])]
    simp only [List.foldl_cons, List.foldl_nil, parseChunk]
    rw [length_reprs]
    have : 2 * (c :: cs).length % 2 = 0 := by omega
    simp only [this, bne_self_eq_false, Bool.false_eq_true, if_false]
    rw [parsePairs_reprs _ h]
    rfl

/-- **the text of any list of cards**, written one card after the other, parses back to the list -/
theorem C19_cards_text (cs : List Card) (h : ∀ c ∈ cs, c ∈ cards70) :
    Card.parseChars (cs.flatMap Card.reprChars) = some cs := by
  unfold Card.parseChars
  have hp := reprs_plain cs h
  rw [replace10_plain _ (fun ch hch => (hp ch hch).1)]
  have hf : (cs.flatMap Card.reprChars).filter (· != ',') = cs.flatMap Card.reprChars := by
    rw [List.filter_eq_self]
    intro ch hch
    simpa using (hp ch hch).2.1
  rw [hf]
  exact cards_text_core cs h

theorem splitWs_go_append_plain : ∀ (a rest cur : List Char) (acc : List (List Char)),
    (∀ ch ∈ a, isPyWhitespace ch = false) →
    splitWs.go (a ++ rest) cur acc = splitWs.go rest (a.reverse ++ cur) acc := by
  intro a
  induction a with
  | nil => intro rest cur acc _; rfl
  | cons x a ih =>
    intro rest cur acc h
    have hx : isPyWhitespace x = false := h x (by simp)
    show splitWs.go (x :: (a ++ rest)) cur acc = _
    conv => lhs; unfold splitWs.go
    simp only [hx, Bool.false_eq_true, if_false]
    rw [ih rest (x :: cur) acc (fun ch hch => h ch (by simp [hch]))]
    simp

theorem splitWs_go_ws : ∀ (w rest : List Char) (acc : List (List Char)),
    (∀ ch ∈ w, isPyWhitespace ch = true) →
    splitWs.go (w ++ rest) [] acc = splitWs.go rest [] acc := by
  intro w
  induction w with
  | nil => intro rest acc _; rfl
  | cons x w ih =>
    intro rest acc h
    have hx : isPyWhitespace x = true := h x (by simp)
    show splitWs.go (x :: (w ++ rest)) [] acc = _
    conv => lhs; unfold splitWs.go
    simp only [hx, if_true, List.isEmpty_nil]
    exact ih rest acc (fun ch hch => h ch (by simp [hch]))

/-- two whitespace-free words separated by a non-empty run of whitespace are two chunks -/
theorem splitWs_two (a w b : List Char) (ha : ∀ ch ∈ a, isPyWhitespace ch = false) (hane : a ≠ [])
    (hw : ∀ ch ∈ w, isPyWhitespace ch = true) (hwne : w ≠ [])
    (hb : ∀ ch ∈ b, isPyWhitespace ch = false) (hbne : b ≠ []) :
    splitWs (a ++ w ++ b) = [a, b] := by
  unfold splitWs
  rw [List.append_assoc, splitWs_go_append_plain a (w ++ b) [] [] ha]
  cases w with
  | nil => exact absurd rfl hwne
  | cons x w =>
    have hx : isPyWhitespace x = true := hw x (by simp)
    show splitWs.go (x :: (w ++ b)) (a.reverse ++ []) [] = _
    unfold splitWs.go
    have hemp : (a.reverse ++ []).isEmpty = false := by
      cases a with
      | nil => exact absurd rfl hane
      | cons y a => simp
    simp only [hx, if_true, hemp, Bool.false_eq_true, if_false]
    rw [splitWs_go_ws w b _ (fun ch hch => hw ch (by simp [hch]))]
    rw [splitWs_go_plain b [] _ hb]
    have hemp2 : (b.reverse ++ []).isEmpty = false := by
      cases b with
      | nil => exact absurd rfl hbne
      | cons y b => simp
    simp [hbne]

/-- **separators are ignored**: two runs of card texts separated by any mixture of commas and
    whitespace (or by nothing at all) read back as the cards of the first followed by those of the
    second -/
theorem C19_separated (a b : List Card) (sep : List Char) (ha : ∀ c ∈ a, c ∈ cards70)
    (hb : ∀ c ∈ b, c ∈ cards70) (hsep : ∀ ch ∈ sep, ch = ',' ∨ isPyWhitespace ch = true) :
    Card.parseChars (a.flatMap Card.reprChars ++ sep ++ b.flatMap Card.reprChars) = some (a ++ b) := by
  have hpa := reprs_plain a ha
  have hpb := reprs_plain b hb
  have hsep1 : ∀ ch ∈ sep, ch ≠ '1' := by
    intro ch hch
    rcases hsep ch hch with h | h
    · subst h; decide
    · intro h1; subst h1; revert h; decide
  unfold Card.parseChars
  rw [replace10_plain _ (by
    intro ch hch
    simp only [List.mem_append] at hch
    rcases hch with (h | h) | h
    · exact (hpa ch h).1
    · exact hsep1 ch h
    · exact (hpb ch h).1)]
  simp only [List.filter_append]
  have hfa : (a.flatMap Card.reprChars).filter (· != ',') = a.flatMap Card.reprChars := by
    rw [List.filter_eq_self]; intro ch hch; simpa using (hpa ch hch).2.1
  have hfb : (b.flatMap Card.reprChars).filter (· != ',') = b.flatMap Card.reprChars := by
    rw [List.filter_eq_self]; intro ch hch; simpa using (hpb ch hch).2.1
  rw [hfa, hfb]
  have hw : ∀ ch ∈ sep.filter (· != ','), isPyWhitespace ch = true := by
    intro ch hch
    rw [List.mem_filter] at hch
    rcases hsep ch hch.1 with h | h
    · subst h; simp at hch
    · exact h
  generalize sep.filter (· != ',') = w at hw
  -- nothing between them, or one side empty: one run of card texts
  by_cases hwne : w = []
  · subst hwne
    rw [List.append_nil, ← List.flatMap_append]
    exact cards_text_core (a ++ b) (by
      intro c hc; rcases List.mem_append.mp hc with h | h
      · exact ha c h
      · exact hb c h)
  · cases a with
    | nil =>
      simp only [List.flatMap_nil, List.nil_append]
      have := cards_text_core b hb
      unfold splitWs at this ⊢
      rw [splitWs_go_ws w _ [] hw]
      exact this
    | cons ca a =>
      cases b with
      | nil =>
        simp only [List.flatMap_nil, List.append_nil]
        unfold splitWs
        rw [splitWs_go_append_plain _ w [] [] (fun ch hch => (hpa ch hch).2.2)]
        have hgo : ∀ (w : List Char) (cur : List Char) (acc : List (List Char)),
            (∀ ch ∈ w, isPyWhitespace ch = true) → w ≠ [] → cur ≠ [] →
            splitWs.go w cur acc = (cur.reverse :: acc).reverse := by
          intro w
          cases w with
          | nil => intro _ _ _ h; exact absurd rfl h
          | cons x w =>
            intro cur acc hw' _ hcur
            have hx : isPyWhitespace x = true := hw' x (by simp)
            unfold splitWs.go
            have : cur.isEmpty = false := by cases cur with
              | nil => exact absurd rfl hcur
              | cons _ _ => rfl
            simp only [hx, if_true, this, Bool.false_eq_true, if_false]
            have := splitWs_go_ws w [] (cur.reverse :: acc) (fun ch hch => hw' ch (by simp [hch]))
            rw [List.append_nil] at this
            rw [this]
            simp [splitWs.go]
        rw [hgo w _ [] hw hwne (by simp [Card.reprChars])]
        simp only [List.append_nil, List.reverse_reverse, List.reverse_cons, List.reverse_nil, List.nil_append,
          List.foldl_cons, List.foldl_nil, parseChunk]
        rw [length_reprs]
        have : 2 * (ca :: a).length % 2 = 0 := by omega
        simp only [this, bne_self_eq_false, Bool.false_eq_true, if_false]
        rw [parsePairs_reprs _ ha]
      | cons cb b =>
        rw [splitWs_two _ w _ (fun ch hch => (hpa ch hch).2.2) (by simp [Card.reprChars]) hw hwne
          (fun ch hch => (hpb ch hch).2.2) (by simp [Card.reprChars])]
        simp only [List.foldl_cons, List.foldl_nil, parseChunk]
        rw [length_reprs, length_reprs]
        have h1 : 2 * (ca :: a).length % 2 = 0 := by omega
        have h2 : 2 * (cb :: b).length % 2 = 0 := by omega
        simp only [h1, h2, bne_self_eq_false, Bool.false_eq_true, if_false]
        rw [parsePairs_reprs _ ha, parsePairs_reprs _ hb]
        rfl

/-- e.g. `"AsKs"`, `"As Ks"`, `"As,Ks"` and `"As, Ks"` are the same two cards -/
example : Card.parseChars "AsKs".toList = some [⟨0, 3⟩, ⟨12, 3⟩] ∧
    Card.parseChars "As Ks".toList = Card.parseChars "AsKs".toList ∧
    Card.parseChars "As,Ks".toList = Card.parseChars "AsKs".toList ∧
    Card.parseChars "As, Ks".toList = Card.parseChars "AsKs".toList := by decide

/-- **a card object, the list holding it and its text denote the same cards** -/
theorem C19_clean (c : Card) (h : c ∈ cards70) :
    Card.clean (.card c) = some [c] ∧ Card.clean (.cards [c]) = some [c] ∧
    Card.clean (.text c.repr) = some [c] :=
  ⟨rfl, rfl, C19_card_roundtrip_string c h⟩

/-- text and list forms of several cards agree -/
theorem C19_clean_many (cs : List Card) (h : ∀ c ∈ cs, c ∈ cards70) :
    Card.clean (.text (String.ofList (cs.flatMap Card.reprChars))) = Card.clean (.cards cs) := by
  show Card.parse _ = some cs
  unfold Card.parse
  rw [String.toList_ofList]
  exact C19_cards_text cs h

/-! ### construction -/

theorem minI_le_mem : ∀ (l : List Int) (x : Int), x ∈ l → minI l ≤ x := by
  intro l x hx
  cases l with
  | nil => cases hx
  | cons a l =>
    unfold minI
    have key : ∀ (l : List Int) (a : Int), l.foldl min a ≤ a ∧ ∀ y ∈ l, l.foldl min a ≤ y := by
      intro l
      induction l with
      | nil => intro a; exact ⟨Int.le_refl _, fun y hy => by cases hy⟩
      | cons b l ih =>
        intro a
        simp only [List.foldl_cons]
        obtain ⟨h1, h2⟩ := ih (min a b)
        refine ⟨by omega, ?_⟩
        intro y hy
        rcases List.mem_cons.mp hy with rfl | hy
        · omega
        · exact h2 y hy
    obtain ⟨h1, h2⟩ := key l a
    rcases List.mem_cons.mp hx with rfl | hx
    · exact h1
    · exact h2 x hx

/-- **what an accepted configuration looks like**: no negative ante or bring-in, some forced bet, only
    positive stacks, no blinds together with a bring-in, at least two players -/
theorem C19_accepts (c : Config) (h : c.validate = none) :
    (∀ a ∈ c.antes, 0 ≤ a) ∧ 0 ≤ c.bringIn ∧
    (c.antes.any (· != 0) ∨ c.blinds.any (· != 0) ∨ c.bringIn ≠ 0) ∧
    (∀ s ∈ c.startingStacks, 0 < s) ∧
    ¬ (c.blinds.any (· != 0) = true ∧ c.bringIn ≠ 0) ∧ 2 ≤ c.n := by
  unfold Config.validate at h
  split at h
  · cases h
  · rename_i st0 rest _
    repeat' (split at h; · cases h)
    rename_i h1 h2 h3 h4 h5 h6 h7 h8 h9
    simp only [Bool.or_eq_true, decide_eq_true_eq, not_or, Int.not_lt] at h3
    refine ⟨?_, h3.2, ?_, ?_, ?_, by omega⟩
    · intro a ha
      have := minI_le_mem c.antes a ha
      omega
    · by_cases ha : c.antes.any (· != 0) = true
      · exact Or.inl ha
      · by_cases hb : c.blinds.any (· != 0) = true
        · exact Or.inr (Or.inl hb)
        · refine Or.inr (Or.inr ?_)
          intro hbr
          apply h4
          have ha' : c.antes.any (· != 0) = false := by simpa using ha
          have hb' : c.blinds.any (· != 0) = false := by simpa using hb
          simp [ha', hb', hbr]
    · intro s hs
      have := minI_le_mem c.startingStacks s hs
      simp only [Int.not_le] at h5
      omega
    · simp only [Bool.and_eq_true, bne_iff_ne, ne_eq, not_and, Decidable.not_not] at h6
      intro ⟨hb, hbr⟩
      exact hbr (h6 hb)

/-- each defect alone is enough for the constructor to refuse (ValueError) -/
theorem C19_rejects (c : Config)
    (h : (∃ a ∈ c.antes, a < 0) ∨ c.bringIn < 0 ∨
         (c.antes.any (· != 0) = false ∧ c.blinds.any (· != 0) = false ∧ c.bringIn = 0) ∨
         (∃ s ∈ c.startingStacks, s ≤ 0) ∨ (c.blinds.any (· != 0) = true ∧ c.bringIn ≠ 0) ∨ c.n < 2) :
    c.validate ≠ none := by
  intro hv
  obtain ⟨h1, h2, h3, h4, h5, h6⟩ := C19_accepts c hv
  rcases h with ⟨a, ha, hneg⟩ | h | ⟨ha, hb, hc⟩ | ⟨s, hs, hle⟩ | h | h
  · have := h1 a ha; omega
  · omega
  · rcases h3 with h | h | h
    · rw [ha] at h; cases h
    · rw [hb] at h; cases h
    · exact h hc
  · have := h4 s hs; omega
  · exact h5 h
  · omega

/-! ### the default helpers -/

/-- **the default pot division** (`divmod` on integral chips): quotient × divisor + remainder is the
    amount, and for a positive divisor the remainder is a proper one -/
theorem C19_divmod (a n q r : Int) (h : pyDivmod a n = some (q, r)) :
    q * n + r = a ∧ (0 < n → 0 ≤ r ∧ r < n) ∧ (0 < n → 0 ≤ a → 0 ≤ q) := by
  unfold pyDivmod at h
  split at h
  · cases h
  · rename_i hn
    cases h
    refine ⟨?_, ?_, ?_⟩
    · have := Int.fmod_add_fdiv_mul a n
      omega
    · intro hpos
      exact ⟨Int.fmod_nonneg_of_pos a hpos, Int.fmod_lt_of_pos a hpos⟩
    · intro hpos ha
      rw [Int.fdiv_eq_ediv_of_nonneg a (by omega)]
      exact Int.ediv_nonneg ha (by omega)

/-- the divisor zero is refused (ZeroDivisionError) -/
theorem C19_divmod_zero (a : Int) : pyDivmod a 0 = none := by simp [pyDivmod]

/-- **the default rake**: raked + unraked = amount -/
theorem C19_rake (r : RakeCfg) (b : Bool) (a : Int) : (pyRake r b a).1 + (pyRake r b a).2 = a :=
  pyRake_sum r b a

theorem roundHalfEven_le (x den a : Int) (hd : 0 < den) (h0 : 0 ≤ x) (hx : x ≤ a * den) :
    0 ≤ roundHalfEven x den ∧ roundHalfEven x den ≤ a := by
  have hq0 : 0 ≤ Int.fdiv x den := by
    rw [Int.fdiv_eq_ediv_of_nonneg x (by omega)]; exact Int.ediv_nonneg h0 (by omega)
  have hr0 := Int.fmod_nonneg_of_pos x hd
  have hr1 := Int.fmod_lt_of_pos x hd
  have hsum := Int.fmod_add_fdiv_mul x den
  unfold roundHalfEven
  simp only []
  generalize Int.fdiv x den = q at *
  generalize Int.fmod x den = r at *
  have hqa : q ≤ a := by
    by_cases h : q ≤ a
    · exact h
    · exfalso
      have h1 : (a + 1) * den ≤ q * den := Int.mul_le_mul_of_nonneg_right (by omega) (by omega)
      have e : (a + 1) * den = a * den + den := by rw [Int.add_mul]; omega
      omega
  have hqa' : 1 ≤ r → q + 1 ≤ a := by
    intro hr
    by_cases h : q + 1 ≤ a
    · exact h
    · exfalso
      have hqeq : q = a := by omega
      subst hqeq
      omega
  repeat' split
  all_goals (constructor <;> first | omega | (have := hqa' (by omega); omega))

/-- … and for a percentage between 0 and 1, a non-negative cap and a non-negative amount both parts
    are non-negative -/
theorem C19_rake_nonneg (r : RakeCfg) (b : Bool) (a : Int) (ha : 0 ≤ a) (hd : 0 < r.den)
    (hp0 : 0 ≤ r.num) (hp1 : r.num ≤ r.den) (hcap : ∀ c, r.cap = some c → 0 ≤ c) :
    0 ≤ (pyRake r b a).1 ∧ 0 ≤ (pyRake r b a).2 := by
  unfold pyRake
  split
  · exact ⟨Int.le_refl 0, ha⟩
  · have hnum : 0 ≤ a * r.num := Int.mul_nonneg ha hp0
    have hle : a * r.num ≤ a * r.den := Int.mul_le_mul_of_nonneg_left hp1 ha
    obtain ⟨h0, h1⟩ := roundHalfEven_le (a * r.num) r.den a hd hnum hle
    cases hc : r.cap with
    | none => simp only []; exact ⟨h0, by omega⟩
    | some c =>
      simp only []
      have := hcap c hc
      constructor <;> omega

end PK
