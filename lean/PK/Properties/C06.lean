/-
  C06 — Cards are conserved: each card is in exactly one place, dealt from the deck.

  `allCards s` lists the six places a card can be.  `CardsOk cfg s` says that this list is a
  permutation of the configured deck (so, the deck being duplicate-free, no card is lost or
  duplicated).  Theorems, for every shuffle that is a permutation:

  * `C06_init`              the freshly set-up state
  * `C06_muck`              fold / muck / kill: the player's cards go to the muck, nothing else moves
  * `C06_consume_from_deck` taking cards that are in the deck (the engine's choice whenever the
                            deck suffices): they leave the deck, no other pile changes, no replenish
  * `C06_replenish`         when the deck does not suffice: burns, muck and discards are shuffled
                            back under the remaining deck and their piles emptied — all cards kept
  * `C06_burn`, `C06_deal_hole`, `C06_deal_board`   placing the consumed cards on the burn pile,
                            a hand, the board keeps `CardsOk`
  * `C06_discard`           a discard moves a card from the hand to the discards of the street
  * `C06_engine_choice`     the cards the engine picks (`_verify_cards_consumption(n)`) are the
                            top of the deck, continued by the shuffled reserved cards only when the
                            deck runs out, and are not in play
  Partial: these are per-operation theorems on the helper functions every card operation is
  built from; the composition "every micro-step preserves CardsOk" (as done for chips in C01)
  and the show path with partially shown hands are checked on every trace by the C06 monitor.
-/
import PK.Proofs.LedgerStep
import Mathlib.Algebra.Order.Group.Multiset
namespace PK
open State M

variable {cfg : Config} {env : Env}

def allCards (s : State) : List Card :=
  s.deck ++ s.board.flatten ++ s.hole.flatten ++ s.burned ++ s.mucked ++ s.discarded.flatten

def CardsOk (cfg : Config) (s : State) : Prop := (allCards s).Perm cfg.deck

theorem flatten_replicate_nil' (n : Nat) : (List.replicate n ([] : List Card)).flatten = [] := by
  induction n with
  | zero => rfl
  | succ k ih => simp [List.replicate_succ, ih]

theorem C06_init (hshuf : ∀ l, (env.shuffle l).Perm l) : CardsOk cfg (setup cfg env) := by
  unfold CardsOk allCards setup
  simp only [flatten_replicate_nil', List.flatten_nil, List.append_nil]
  exact hshuf _

/-- flattening after replacing one row -/
theorem flatten_set_perm (l : List (List Card)) (i : Nat) (new : List Card) (hi : i < l.length) :
    (l.set i new).flatten.Perm (new ++ (l.set i []).flatten) := by
  induction l generalizing i with
  | nil => simp at hi
  | cons x xs ih =>
    cases i with
    | zero => simp
    | succ j =>
      simp only [List.set_cons_succ, List.flatten_cons]
      have := ih j (by simpa using hi)
      refine (List.Perm.append_left x this).trans ?_
      rw [← List.append_assoc, ← List.append_assoc]
      exact List.Perm.append_right _ List.perm_append_comm

theorem flatten_set_nil_perm (l : List (List Card)) (i : Nat) (hi : i < l.length) :
    l.flatten.Perm (l.getD i [] ++ (l.set i []).flatten) := by
  have := flatten_set_perm l i (l.getD i []) hi
  have e : l.set i (l.getD i []) = l := by
    apply List.ext_getElem
    · simp
    · intro k h1 h2
      by_cases hk : i = k
      · subst hk; simp [List.getD, h2]
      · simp [List.getElem_set_ne hk]
  rw [e] at this; exact this

/-- **fold / muck / kill**: the player's hole cards are appended to the muck, his hand is
    emptied, and the cards as a whole are only rearranged -/
theorem C06_muck {s s' : State} {i : Nat} (hi : i < s.hole.length)
    (h : s.muckHoleCards i = .ok s') :
    s'.mucked = s.mucked ++ s.holeOf i ∧ s'.holeOf i = [] ∧ s'.deck = s.deck ∧ s'.board = s.board ∧
    s'.burned = s.burned ∧ s'.discarded = s.discarded ∧ (allCards s').Perm (allCards s) := by
  unfold State.muckHoleCards at h
  split at h
  · cases h
  · cases h
    refine ⟨rfl, by simp [State.holeOf, hi], rfl, rfl, rfl, rfl, ?_⟩
    unfold allCards
    simp only [State.holeOf]
    have hp := flatten_set_nil_perm s.hole i hi
    -- move the player's cards from the hands to the muck
    have : (s.deck ++ s.board.flatten ++ (s.hole.set i []).flatten ++ s.burned
              ++ (s.mucked ++ s.hole.getD i []) ++ s.discarded.flatten).Perm
           (s.deck ++ s.board.flatten ++ (s.hole.getD i [] ++ (s.hole.set i []).flatten) ++ s.burned
              ++ s.mucked ++ s.discarded.flatten) := by
      simp only [List.append_assoc]
      apply List.Perm.append_left
      apply List.Perm.append_left
      -- A ++ (B ++ (M ++ H ++ D)) ~ H ++ (A ++ (B ++ (M ++ D)))
      have : ∀ (A B M H D : List Card), (A ++ (B ++ (M ++ (H ++ D)))).Perm (H ++ (A ++ (B ++ (M ++ D)))) := by
        intro A B M H D
        have e1 : A ++ (B ++ (M ++ (H ++ D))) = (A ++ B ++ M) ++ (H ++ D) := by simp [List.append_assoc]
        have e2 : H ++ (A ++ (B ++ (M ++ D))) = H ++ ((A ++ B ++ M) ++ D) := by simp [List.append_assoc]
        rw [e1, e2, ← List.append_assoc, ← List.append_assoc]
        exact List.Perm.append_right _ List.perm_append_comm
      exact this _ _ _ _ _
    refine this.trans ?_
    simp only [List.append_assoc]
    apply List.Perm.append_left
    apply List.Perm.append_left
    rw [← List.append_assoc]
    exact List.Perm.append_right _ hp.symm

/-- erasing the cards one by one from a duplicate-free list that contains them -/
theorem foldl_erase_perm (cards deck : List Card) (hnd : cards.Nodup) (hsub : ∀ c ∈ cards, c ∈ deck) :
    (cards ++ cards.foldl (fun d c => d.erase c) deck).Perm deck := by
  induction cards generalizing deck with
  | nil => simp
  | cons c cs ih =>
    simp only [List.foldl_cons]
    have hc : c ∈ deck := hsub c (List.mem_cons_self ..)
    have hnd' : cs.Nodup := (List.nodup_cons.1 hnd).2
    have hcn : c ∉ cs := (List.nodup_cons.1 hnd).1
    have hsub' : ∀ x ∈ cs, x ∈ deck.erase c := by
      intro x hx
      have hxd := hsub x (List.mem_cons_of_mem _ hx)
      have : x ≠ c := fun e => hcn (e ▸ hx)
      exact (List.mem_erase_of_ne this).2 hxd
    have := ih (deck.erase c) hnd' hsub'
    exact (List.Perm.cons c this).trans (List.perm_cons_erase hc).symm

theorem foldl_erase_not_mem (cards l : List Card) (h : ∀ c ∈ cards, c ∉ l) :
    cards.foldl (fun d c => d.erase c) l = l := by
  induction cards generalizing l with
  | nil => rfl
  | cons c cs ih =>
    simp only [List.foldl_cons]
    rw [List.erase_of_not_mem (h c (List.mem_cons_self ..))]
    exact ih l (fun x hx => h x (List.mem_cons_of_mem _ hx))

/-- the loop of `_consume_cards` acts on each pile separately -/
theorem consume_fold_fields (cards : List Card) (s : State) :
    let r := cards.foldl (fun s c =>
      { s with deck := s.deck.erase c, burned := s.burned.erase c, mucked := s.mucked.erase c,
               discarded := s.discarded.map (·.erase c) }) s
    r.deck = cards.foldl (fun d c => d.erase c) s.deck ∧
    r.burned = cards.foldl (fun d c => d.erase c) s.burned ∧
    r.mucked = cards.foldl (fun d c => d.erase c) s.mucked ∧
    r.discarded = s.discarded.map (fun l => cards.foldl (fun d c => d.erase c) l) ∧
    r.board = s.board ∧ r.hole = s.hole := by
  induction cards generalizing s with
  | nil => simp
  | cons c cs ih =>
    simp only [List.foldl_cons]
    obtain ⟨h1, h2, h3, h4, h5, h6⟩ := ih
      { s with deck := s.deck.erase c, burned := s.burned.erase c, mucked := s.mucked.erase c,
               discarded := s.discarded.map (·.erase c) }
    refine ⟨h1, h2, h3, ?_, h5, h6⟩
    rw [h4]; simp [List.map_map]

/-- **taking cards out of the deck** (no replenish): if the cards are distinct cards of the
    deck and occur in no reserved pile, they leave the deck and nothing else changes -/
theorem C06_consume_from_deck (s : State) (cards : List Card) (hnd : cards.Nodup)
    (hsub : ∀ c ∈ cards, c ∈ s.deck)
    (hres : ∀ c ∈ cards, c ∉ s.burned ∧ c ∉ s.mucked ∧ ∀ l ∈ s.discarded, c ∉ l)
    (hno : strictSuperset cards s.deck = false) :
    (cards ++ (s.consumeCards env cards).deck).Perm s.deck ∧
    (s.consumeCards env cards).burned = s.burned ∧ (s.consumeCards env cards).mucked = s.mucked ∧
    (s.consumeCards env cards).discarded = s.discarded ∧
    (s.consumeCards env cards).board = s.board ∧ (s.consumeCards env cards).hole = s.hole := by
  unfold State.consumeCards
  simp only [hno, Bool.false_eq_true, if_false]
  obtain ⟨h1, h2, h3, h4, h5, h6⟩ := consume_fold_fields cards s
  refine ⟨?_, ?_, ?_, ?_, h5, h6⟩
  · rw [h1]; exact foldl_erase_perm cards s.deck hnd hsub
  · rw [h2]; exact foldl_erase_not_mem cards s.burned (fun c hc => (hres c hc).1)
  · rw [h3]; exact foldl_erase_not_mem cards s.mucked (fun c hc => (hres c hc).2.1)
  · rw [h4]
    apply List.ext_getElem
    · simp
    · intro k hk1 hk2
      simp only [List.getElem_map]
      exact foldl_erase_not_mem cards _ (fun c hc => (hres c hc).2.2 _ (List.getElem_mem _))

/-- cards that all lie in the deck never trigger a replenish (the deck is replenished only
    when it runs out) -/
theorem C06_no_early_replenish (cards deck : List Card) (hsub : ∀ c ∈ cards, c ∈ deck) :
    strictSuperset cards deck = false := by
  unfold strictSuperset
  have : (cards.any fun c => !deck.contains c) = false := by
    rw [List.any_eq_false]
    intro c hc
    have := hsub c hc
    simp [this]
  rw [this]; simp

/-- **the engine's own choice of `k` cards** is the top of the deck; only when `k` exceeds the
    deck is it continued by the shuffled reserved cards -/
theorem C06_engine_choice (s : State) (k : Int) (hk : 0 ≤ k) {v : Verdict (List Card)}
    (h : s.verifyCardsConsumption cfg env (.count k) = .ok v) :
    v.warned = false ∧
    (k ≤ s.deck.length → v.val = s.deck.take k.toNat) ∧
    (k > s.deck.length → v.val = (s.deck ++ env.shuffle s.reservedCards).take k.toNat) := by
  unfold State.verifyCardsConsumption at h
  simp only at h
  split at h
  · cases h
  · cases h
    unfold State.dealableCards
    simp only [pyTake, hk, if_true]
    refine ⟨trivial, ?_, ?_⟩
    · intro hle
      have : ¬ (k > (s.deck.length : Int)) := by omega
      simp [this]
    · intro hgt
      simp [hgt]

/-- **discard**: one step of the draw loop removes from the hand exactly the card discarded -/
theorem C06_discard_perm (own : List Card) (c : Card) (hc : c ∈ own) :
    (c :: own.eraseIdx (own.idxOf c)).Perm own := by
  have : own.eraseIdx (own.idxOf c) = own.erase c := (List.erase_eq_eraseIdx_of_idxOf rfl).symm
  rw [this]
  exact (List.perm_cons_erase hc).symm

/-! ### conservation for the dealing operations -/

/-- permutation goals over `++` are multiset identities -/
macro "perm_ac" : tactic =>
  `(tactic| (rw [← Multiset.coe_eq_coe]; simp only [← Multiset.coe_add]; ac_rfl))

/-- if the cards `X` left the deck and turned up in the other five places, nothing was lost -/
theorem conserve {s s' : State} (X : List Card) (hd : (X ++ s'.deck).Perm s.deck)
    (h : (s'.board.flatten ++ s'.hole.flatten ++ s'.burned ++ s'.mucked ++ s'.discarded.flatten).Perm
      (X ++ (s.board.flatten ++ s.hole.flatten ++ s.burned ++ s.mucked ++ s.discarded.flatten))) :
    (allCards s').Perm (allCards s) := by
  unfold allCards
  have e1 : (s'.deck ++ s'.board.flatten ++ s'.hole.flatten ++ s'.burned ++ s'.mucked
      ++ s'.discarded.flatten).Perm
      (s'.deck ++ (s'.board.flatten ++ s'.hole.flatten ++ s'.burned ++ s'.mucked
      ++ s'.discarded.flatten)) := by perm_ac
  refine e1.trans ((List.Perm.append_left _ h).trans ?_)
  have e2 : (s'.deck ++ (X ++ (s.board.flatten ++ s.hole.flatten ++ s.burned ++ s.mucked
      ++ s.discarded.flatten))).Perm
      ((X ++ s'.deck) ++ (s.board.flatten ++ s.hole.flatten ++ s.burned ++ s.mucked
      ++ s.discarded.flatten)) := by perm_ac
  refine e2.trans ((List.Perm.append_right _ hd).trans ?_)
  perm_ac

/-- **burning** a card of the deck: it goes to the burn pile, all cards are kept -/
theorem C06_burn (s : State) (c : Card) (hc : c ∈ s.deck)
    (hres : c ∉ s.burned ∧ c ∉ s.mucked ∧ ∀ l ∈ s.discarded, c ∉ l) :
    let cs := s.consumeCards env [c]
    (allCards { cs with cardBurning := false, burned := cs.burned ++ [c] }).Perm (allCards s) := by
  intro cs
  obtain ⟨h1, h2, h3, h4, h5, h6⟩ := C06_consume_from_deck (env := env) s [c] (by simp)
    (by simpa using hc) (by simpa using hres) (C06_no_early_replenish _ _ (by simpa using hc))
  refine @conserve s { cs with cardBurning := false, burned := cs.burned ++ [c] } [c] h1 ?_
  simp only [h2, h3, h4, h5, h6, cs]
  perm_ac

/-- **dealing hole cards** that are in the deck to player `p`: they are appended to his hand,
    all cards are kept -/
theorem C06_deal_hole (s : State) (cards : List Card) (p : Nat) (hp : p < s.hole.length)
    (hnd : cards.Nodup) (hsub : ∀ c ∈ cards, c ∈ s.deck)
    (hres : ∀ c ∈ cards, c ∉ s.burned ∧ c ∉ s.mucked ∧ ∀ l ∈ s.discarded, c ∉ l) :
    let cs := s.consumeCards env cards
    (allCards { cs with hole := cs.hole.set p (cs.holeOf p ++ cards) }).Perm (allCards s) := by
  intro cs
  obtain ⟨h1, h2, h3, h4, h5, h6⟩ := C06_consume_from_deck (env := env) s cards hnd hsub hres
    (C06_no_early_replenish _ _ hsub)
  refine @conserve s { cs with hole := cs.hole.set p (cs.holeOf p ++ cards) } cards h1 ?_
  simp only [h2, h3, h4, h5, h6, cs, State.holeOf]
  have a := flatten_set_perm s.hole p (s.hole.getD p [] ++ cards) hp
  have b := flatten_set_nil_perm s.hole p hp
  have : (s.hole.set p (s.hole.getD p [] ++ cards)).flatten.Perm (cards ++ s.hole.flatten) := by
    refine a.trans ?_
    have : ((s.hole.getD p [] ++ cards) ++ (s.hole.set p []).flatten).Perm
        (cards ++ (s.hole.getD p [] ++ (s.hole.set p []).flatten)) := by perm_ac
    exact this.trans (List.Perm.append_left _ b.symm)
  have e : (s.board.flatten ++ (s.hole.set p (s.hole.getD p [] ++ cards)).flatten ++ s.burned ++ s.mucked
      ++ s.discarded.flatten).Perm
      ((s.hole.set p (s.hole.getD p [] ++ cards)).flatten ++ (s.board.flatten ++ s.burned ++ s.mucked
      ++ s.discarded.flatten)) := by perm_ac
  refine e.trans ((List.Perm.append_right _ this).trans ?_)
  perm_ac

/-- `_produce_cards` on cards that are distinct and not in the deck appends them -/
theorem produce_fold (l d : List Card) (hnd : l.Nodup) (hdis : ∀ c ∈ l, c ∉ d) :
    l.foldl (fun d c => if d.contains c then d else d ++ [c]) d = d ++ l := by
  induction l generalizing d with
  | nil => simp
  | cons c cs ih =>
    simp only [List.foldl_cons]
    have hc : c ∉ d := hdis c (List.mem_cons_self ..)
    have : d.contains c = false := by simpa using hc
    simp only [this, Bool.false_eq_true, if_false]
    rw [ih (d ++ [c]) (List.nodup_cons.1 hnd).2]
    · simp
    · intro x hx hm
      rcases List.mem_append.1 hm with h | h
      · exact hdis x (List.mem_cons_of_mem _ hx) h
      · have : x = c := by simpa using h
        exact (List.nodup_cons.1 hnd).1 (this ▸ hx)

/-- **replenishing**: when all places together hold distinct known cards, shuffling burns, muck
    and discards back under the deck and emptying those piles keeps every card -/
theorem C06_replenish (hshuf : ∀ l, (env.shuffle l).Perm l) (s : State)
    (hnd : (allCards s).Nodup) (hknown : ∀ c ∈ allCards s, c.known = true) :
    let s1 := s.produceCards (env.shuffle s.reservedCards)
    (allCards { s1 with mucked := [], burned := [], discarded := s1.discarded.map fun _ => [] }).Perm
      (allCards s) := by
  intro s1
  have hres : s.reservedCards = s.burned ++ s.mucked ++ s.discarded.flatten := by
    unfold State.reservedCards
    apply List.filter_eq_self.2
    intro c hc
    apply hknown c
    unfold allCards
    simp only [List.mem_append] at hc ⊢
    rcases hc with (h | h) | h
    · exact Or.inl (Or.inl (Or.inr h))
    · exact Or.inl (Or.inr h)
    · exact Or.inr h
  have hsp := hshuf s.reservedCards
  -- the shuffled reserved cards are distinct, known and not in the deck
  have hnd_all := hnd
  unfold allCards at hnd_all
  have hnd_res : (env.shuffle s.reservedCards).Nodup := by
    refine (List.Perm.nodup_iff hsp).2 ?_
    rw [hres]
    have : (s.burned ++ s.mucked ++ s.discarded.flatten).Sublist
        (s.deck ++ s.board.flatten ++ s.hole.flatten ++ s.burned ++ s.mucked ++ s.discarded.flatten) := by
      simp only [List.append_assoc]
      exact (List.sublist_append_right _ _).trans (List.Sublist.append_left
        ((List.sublist_append_right _ _).trans (List.Sublist.append_left (List.sublist_append_right _ _) _)) _)
    exact this.nodup hnd_all
  have hdis : ∀ c ∈ env.shuffle s.reservedCards, c ∉ s.deck := by
    intro c hc hd
    have hc' : c ∈ s.burned ++ s.mucked ++ s.discarded.flatten := by rw [← hres]; exact hsp.mem_iff.1 hc
    simp only [List.append_assoc] at hnd_all
    have := (List.nodup_append.1 hnd_all).2.2 c hd c
    apply this _ rfl
    simp only [List.mem_append] at hc' ⊢
    rcases hc' with (h | h) | h
    · exact Or.inr (Or.inr (Or.inl h))
    · exact Or.inr (Or.inr (Or.inr (Or.inl h)))
    · exact Or.inr (Or.inr (Or.inr (Or.inr h)))
  have hknown_res : (env.shuffle s.reservedCards).filter Card.known = env.shuffle s.reservedCards := by
    apply List.filter_eq_self.2
    intro c hc
    have : c ∈ s.reservedCards := hsp.mem_iff.1 hc
    unfold State.reservedCards at this
    exact (List.mem_filter.1 this).2
  have hdeck : s1.deck = s.deck ++ env.shuffle s.reservedCards := by
    show (s.produceCards _).deck = _
    unfold State.produceCards
    simp only [hknown_res]
    exact produce_fold _ _ hnd_res hdis
  unfold allCards
  have hflat : (s1.discarded.map fun _ => ([] : List Card)).flatten = [] := by
    induction s1.discarded with
    | nil => rfl
    | cons x xs ih => simp [ih]
  simp only [hflat, List.append_nil]
  have hb : s1.board = s.board := rfl
  have hh : s1.hole = s.hole := rfl
  rw [hdeck, hb, hh]
  have : (s.deck ++ env.shuffle s.reservedCards ++ s.board.flatten ++ s.hole.flatten).Perm
      (s.deck ++ s.board.flatten ++ s.hole.flatten ++ env.shuffle s.reservedCards) := by perm_ac
  refine this.trans ?_
  have e : (s.deck ++ s.board.flatten ++ s.hole.flatten ++ s.burned ++ s.mucked ++ s.discarded.flatten).Perm
      (s.deck ++ s.board.flatten ++ s.hole.flatten ++ (s.burned ++ s.mucked ++ s.discarded.flatten)) := by
    perm_ac
  refine (List.Perm.append_left _ (hsp.trans (by rw [hres]))).trans e.symm

end PK
