/-
  C07, never stuck — **while a hand is not over exactly one phase is active**.

  `C07_exclusive` (PK/Properties/C07.lean) is the "at most one" half, at every point of every history.  This file
  is the "at least one" half, for every history in which no exception escapes from inside a cascade:

  * `live_step`          one micro-step keeps `Live`: some phase has work pending, or the hand is over, or a
                         `_begin/_update/_end` method is about to run — 58 frame cases; a refused public operation
                         (any arguments) leaves the state as it was and so keeps it too;
  * `showStreet_step`, `beginShowOk_step`
                         the showdown has work pending only while a street is being played, and
                         `_begin_showdown` is entered with a street (only `_end_bet_collection` calls it, after
                         looking) — needed because `_update_showdown` returns at once when there is no street
                         (a voluntary show after the hand); uses the frame lemma `sv_frame`
                         (PK/Proofs/ShowFrame.lean);
  * `C07_never_stuck`    at every quiescent point (empty control stack) some phase is pending or the hand is over;
  * `C07_exactly_one`    hence, while `status` is true, exactly one of the nine phases is active;
  * `C07_show_in_street` the showdown flags are only up inside a street.

  The side condition (f) `CleanStep` — no exception escapes from a `_begin/_update/_end` method, an automation loop
  or the body of an operation whose verifier passed — is needed: the recorded finding F12 (a pot left without
  eligible players) crashes inside `push_chips` and leaves a live hand with no phase pending.  Refused operations
  are not excluded: they are steps of `LiveReach` like any other.
-/
import PK.Properties.C07
import PK.Proofs.ShowFrame
import PK.Properties.C01
namespace PK
open State M

variable {cfg : Config} {env : Env}

def PendingOrOver (s : State) : Prop := (∃ X : Phase, X.flag s = true) ∨ s.status = false

/-- the `_begin/_update/_end` methods and `_end_hand` -/
def Ctl.internal (f : Ctl) : Bool := f.phase?.isSome || f == .endHand

/-- the showdown only has work pending while a street is being played -/
def ShowStreet (cfg : Config) (s : State) : Prop := Phase.show.flag s = true → (s.street cfg).isSome = true

/-- `_begin_showdown` is entered with a street -/
def BeginShowOk (cfg : Config) (m : M) : Prop :=
  ∀ rest, m.ctl = .beginShow :: rest → (m.st.street cfg).isSome = true

/-- (f): no escaping exception, except a public operation that is refused and leaves the state as it was -/
def CleanStep (cfg : Config) (env : Env) (m : M) : Prop :=
  (step cfg env m).err = none ∨ ∃ f rest, m.ctl = f :: rest ∧ f.isOp = true ∧ (step cfg env m).st = m.st

theorem PendingOrOver.log {s : State} (h : PendingOrOver s) (op) : PendingOrOver (M.log s op) := by
  cases op with
  | none => exact h
  | some o =>
    rcases h with ⟨X, hX⟩ | h
    · exact Or.inl ⟨X, by cases X <;> exact hX⟩
    · exact Or.inr h

theorem pending_of {s : State} (X : Phase) (h : X.flag s = true) : PendingOrOver s := Or.inl ⟨X, h⟩

theorem tail_not_beginShow {m : M} (hP : PhaseInv cfg m) {f : Ctl} {rest : List Ctl} (hctl : m.ctl = f :: rest)
    {r : List Ctl} (h : rest = .beginShow :: r) : False := by
  have := hP.tail f rest hctl .beginShow (by rw [h]; exact List.mem_cons_self)
  cases this

/-- only `_end_bet_collection` calls `_begin_showdown`, and it has just looked at the street -/
theorem beginShowOk_step (m : M) (hP : PhaseInv cfg m) (hB : BeginShowOk cfg m) :
    BeginShowOk cfg (step cfg env m) := by
  cases hctl : m.ctl with
  | nil =>
    have : step cfg env m = m := by unfold step; rw [hctl]
    rw [this]; exact hB
  | cons f rest =>
    intro r hr
    generalize hs : step cfg env m = m' at hr ⊢
    unfold step at hs; rw [hctl] at hs; simp only [] at hs
    cases f
    all_goals (simp only [] at hs)
    all_goals (repeat' split at hs)
    all_goals (subst hs)
    all_goals first
      | (simp [M.cont, M.raise] at hr; done)
      | (exfalso; simp [M.cont, M.raise] at hr; exact tail_not_beginShow hP hctl hr)
      | (simp only [cont_st]; rw [Option.isSome_iff_ne_none]; intro hnone; simp_all)

theorem sv_showStreet {s s' : State} (h : sv s' = sv s) (hJ : ShowStreet cfg s) : ShowStreet cfg s' := by
  have h1 : s'.runoutSelectors = s.runoutSelectors := congrArg SV.sel h
  have h2 : s'.showdown = s.showdown := congrArg SV.showdown h
  have h3 : s'.streetIndex = s.streetIndex := congrArg SV.streetIndex h
  unfold ShowStreet Phase.flag State.street at *
  simp only [h1, h2, h3]
  exact hJ

theorem consume_status (s : State) (env : Env) (cs : List Card) :
    (s.consumeCards env cs).status = s.status ∧ (s.consumeCards env cs).streetIndex = s.streetIndex := by
  unfold State.consumeCards
  simp only []
  have key : ∀ (cs : List Card) (s : State), (cs.foldl (fun s c =>
      { s with deck := s.deck.erase c, burned := s.burned.erase c, mucked := s.mucked.erase c,
               discarded := s.discarded.map (·.erase c) }) s).status = s.status ∧
      (cs.foldl (fun s c =>
      { s with deck := s.deck.erase c, burned := s.burned.erase c, mucked := s.mucked.erase c,
               discarded := s.discarded.map (·.erase c) }) s).streetIndex = s.streetIndex := by
    intro cs
    induction cs with
    | nil => intro s; exact ⟨rfl, rfl⟩
    | cons c cs ih => intro s; simp only [List.foldl_cons]; rw [(ih _).1, (ih _).2]; exact ⟨rfl, rfl⟩
  rw [(key _ _).1, (key _ _).2]; split <;> exact ⟨rfl, rfl⟩

theorem street_of_index {s s' : State} (h : s'.streetIndex = s.streetIndex) : s'.street cfg = s.street cfg := by
  unfold State.street; rw [h]

/-- what `show_or_muck_hole_cards` does to the street and, outside a street, to the flags: nothing -/
theorem opShow_spec (m : M) (arg : ShowArg) (i : Option Nat) (rest : List Ctl)
    (hctl : m.ctl = .opShow arg i :: rest) :
    (step cfg env m).st.street cfg = m.st.street cfg ∧
    ((m.st.street cfg).isNone = true →
      (∀ Y : Phase, Y.flag (step cfg env m).st = Y.flag m.st) ∧ (step cfg env m).st.status = m.st.status) := by
  unfold step; rw [hctl]; simp only []
  split
  · exact ⟨rfl, fun _ => ⟨fun _ => rfl, rfl⟩⟩
  · rename_i v hv
    generalize hs1 : (if (street cfg m.st).isSome = true then
        { m.st with showdown := m.st.showdown.erase v.val.player } else m.st) = s1
    have hidx1 : s1.streetIndex = m.st.streetIndex := by rw [← hs1]; split <;> rfl
    have hstat1 : s1.status = m.st.status := by rw [← hs1]; split <;> rfl
    have hnone1 : (m.st.street cfg).isNone = true → s1 = m.st := by
      intro hn
      rw [← hs1]
      have : (street cfg m.st).isSome = false := by
        cases hst : m.st.street cfg with
        | none => rfl
        | some st => rw [hst] at hn; cases hn
      simp [this]
    split
    · -- the muck failed an assertion: state `s1`
      refine ⟨street_of_index hidx1, fun hn => ?_⟩
      show (∀ Y : Phase, Y.flag s1 = Y.flag m.st) ∧ s1.status = m.st.status
      rw [hnone1 hn]; exact ⟨fun _ => rfl, rfl⟩
    · rename_i s2 hs2
      simp only [cont_st]
      show s2.street cfg = m.st.street cfg ∧ ((m.st.street cfg).isNone = true →
        (∀ Y : Phase, Y.flag s2 = Y.flag m.st) ∧ s2.status = m.st.status)
      split at hs2
      · cases hs2
        have hc := consume_status (s1.produceCards (s1.holeOf v.val.player)) env
          (v.val.holeCards.filter Card.known)
        refine ⟨?_, fun hn => ⟨fun Y => ?_, ?_⟩⟩
        · refine street_of_index ?_
          show (State.consumeCards env _ _).streetIndex = _
          rw [hc.2]; exact hidx1
        · have := flag_consumeCards Y (s1.produceCards (s1.holeOf v.val.player)) env
            (v.val.holeCards.filter Card.known)
          rw [flag_produceCards, hnone1 hn] at this
          rw [← this, hnone1 hn]; cases Y <;> rfl
        · show (State.consumeCards env _ _).status = _
          rw [hc.1]; exact hstat1
      · rename_i hstat
        split at hs2
        · cases hs2
        · rename_i s3 hs3
          cases hs2
          refine ⟨?_, fun hn => absurd (verifyShow_none_status hv hn) hstat⟩
          unfold State.muckHoleCards at hs3
          split at hs3
          · cases hs3
          · cases hs3; exact street_of_index hidx1

theorem herr_of_clean {m : M} (hc : CleanStep cfg env m) {f : Ctl} {rest : List Ctl} (hctl : m.ctl = f :: rest)
    (hf : f.isOp = false) : (step cfg env m).err = none := by
  rcases hc with h | ⟨f', r', he, hop, _⟩
  · exact h
  · rw [hctl] at he; cases he; rw [hf] at hop; cases hop

theorem verifyRunout_flag {s : State} {c : Option Int} {i : Option Nat} {p : Nat}
    (hp : s.verifyRunoutCountSelection cfg c i = .ok p) : Phase.show.flag s = true := by
  unfold State.verifyRunoutCountSelection at hp
  split at hp
  · cases hp
  · rename_i hf
    have : anyB s.runoutSelectors = true := by simpa using hf
    simp [Phase.flag, this]

/-- **the showdown has work pending only while a street is being played** — one micro-step -/
theorem showStreet_step (m : M) (hP : PhaseInv cfg m) (hJ : ShowStreet cfg m.st) (hB : BeginShowOk cfg m)
    (hc : CleanStep cfg env m) : ShowStreet cfg (step cfg env m).st := by
  cases hctl : m.ctl with
  | nil =>
    have : step cfg env m = m := by unfold step; rw [hctl]
    rw [this]; exact hJ
  | cons f rest =>
    by_cases hw : f.writesShow = false
    · exact sv_showStreet (sv_frame m f rest hctl hw) hJ
    · have hP' := phaseInv_step (env := env) m hP
      cases f <;> first | (exact absurd rfl hw) | skip
      case opShow arg i =>
        obtain ⟨hst, hnone⟩ := opShow_spec (cfg := cfg) (env := env) m arg i rest hctl
        intro hflag
        rw [hst]
        cases hs : m.st.street cfg with
        | some st => rfl
        | none =>
          have hn : (m.st.street cfg).isNone = true := by rw [hs]; rfl
          rw [(hnone hn).1 .show] at hflag
          have := hJ hflag
          rw [hs] at this; exact this
      case opRunout c i =>
        unfold step; rw [hctl]; simp only [runoutPlumb]
        split
        · exact hJ
        · rename_i p hp
          have := hJ (verifyRunout_flag hp)
          intro _
          simp only [cont_st]
          repeat' split
          all_goals exact this
      case beginShow =>
        have hst := hB rest hctl
        unfold step; rw [hctl]; simp only []
        repeat' split
        all_goals first
          | exact hJ
          | (intro _; exact hst)
      all_goals (
        have herr := herr_of_clean hc hctl rfl
        generalize hs : step cfg env m = m' at hP' herr ⊢
        unfold step at hs; rw [hctl] at hs; simp only [] at hs
        repeat' split at hs
        all_goals (subst hs)
        all_goals first
          | exact hJ
          | (exfalso; simp [M.raise] at herr; done)
          | (intro hflag; exfalso; have hh := hP'.head _ _ rfl; have := hh .show hflag; cases this)
          | (intro hflag; exfalso; have hh := hP'.head _ _ rfl; have := hh .show; rw [hflag] at this; cases this))

/-- some phase has work pending, or the hand is over, or a phase method is about to run -/
def Live (cfg : Config) (m : M) : Prop :=
  PendingOrOver m.st ∨ ∃ f rest, m.ctl = f :: rest ∧ f.internal = true ∧
    ∀ op, f = .updShow op → (m.st.street cfg).isSome = true

theorem live_next {m' : M} {g : Ctl} {r : List Ctl} (hctl : m'.ctl = g :: r) (hg : g.internal = true)
    (hn : ∀ op, g ≠ .updShow op) : Live cfg m' :=
  Or.inr ⟨g, r, hctl, hg, fun op h => absurd h (hn op)⟩

/-- **one micro-step never leaves the hand without a pending phase** -/
theorem live_step (m : M) (hJ : ShowStreet cfg m.st) (hB : BeginShowOk cfg m)
    (hc : CleanStep cfg env m) (hL : Live cfg m) : Live cfg (step cfg env m) := by
  cases hctl : m.ctl with
  | nil =>
    have : step cfg env m = m := by unfold step; rw [hctl]
    rw [this]; exact hL
  | cons f rest =>
    -- what the invariant says when the head is not a phase method
    have hpo : f.internal = false → PendingOrOver m.st := by
      intro hf
      rcases hL with h | ⟨f', r', he, hi, _⟩
      · exact h
      · rw [hctl] at he; cases he; rw [hf] at hi; cases hi
    cases f
    -- the operations with a showdown update behind them, and the showdown update itself, by hand
    case opShow arg i =>
      obtain ⟨hst, hnone⟩ := opShow_spec (cfg := cfg) (env := env) m arg i rest hctl
      cases hs : m.st.street cfg with
      | none =>
        have hn : (m.st.street cfg).isNone = true := by rw [hs]; rfl
        left
        rcases hpo rfl with ⟨X, hX⟩ | hover
        · exact Or.inl ⟨X, by rw [(hnone hn).1 X]; exact hX⟩
        · exact Or.inr (by rw [(hnone hn).2]; exact hover)
      | some st =>
        have hsome : ((step cfg env m).st.street cfg).isSome = true := by rw [hst, hs]; rfl
        unfold CleanStep at hc
        generalize hs' : step cfg env m = m' at hc hsome ⊢
        unfold step at hs'; rw [hctl] at hs'; simp only [] at hs'
        repeat' split at hs'
        all_goals (subst hs')
        all_goals first
          | (left; exact hpo rfl)
          | (right; exact ⟨_, _, rfl, rfl, fun _ _ => hsome⟩)
          | (rcases hc with he | ⟨_, _, _, _, hsame⟩
             · cases he
             · left; have h := hpo rfl; rw [← hsame] at h; exact h)
    case opRunout c i =>
      unfold step; rw [hctl]; simp only [runoutPlumb]
      split
      · left; exact hpo rfl
      · rename_i p hp
        have := hJ (verifyRunout_flag hp)
        right
        refine ⟨_, _, rfl, rfl, fun _ _ => ?_⟩
        simp only [cont_st]
        repeat' split
        all_goals exact this
    case updShow op =>
      have hcase : PendingOrOver m.st ∨ (m.st.street cfg).isSome = true := by
        rcases hL with h | ⟨f', r', he, _, hu⟩
        · exact Or.inl h
        · rw [hctl] at he; cases he; exact Or.inr (hu op rfl)
      unfold step; rw [hctl]; simp only []
      split
      · rename_i hnone
        rw [street_log] at hnone
        rcases hcase with h | h
        · left; exact h.log op
        · cases hst : m.st.street cfg with
          | none => rw [hst] at h; cases h
          | some st => rw [hst] at hnone; cases hnone
      · split
        · exact live_next rfl rfl (fun _ h => by cases h)
        · rename_i hne
          left
          refine pending_of .show ?_
          simp only [cont_st]
          cases h1 : anyB (log m.st op).runoutSelectors <;> cases h2 : (log m.st op).showdown.isEmpty <;>
            simp_all [Phase.flag]
    case beginShow =>
      have hst := hB rest hctl
      have herr := herr_of_clean hc hctl rfl
      generalize hs : step cfg env m = m' at herr ⊢
      unfold step at hs; rw [hctl] at hs; simp only [] at hs
      repeat' split at hs
      all_goals (subst hs)
      all_goals first
        | (exfalso; simp [M.raise] at herr; done)
        | (right; exact ⟨_, _, rfl, rfl, fun _ _ => hst⟩)
    case endHand =>
      unfold step; rw [hctl]; simp only []
      left; right; rfl
    -- the loop continuations: the state stays as it is
    case kAnteLoop | kBlindLoop | kDealAfterBurn | kHoleLoop | kDealBoard | kRunoutLoop | kShowPart
        | kShowLoop | kKillLoop | kPushLoop | kPullLoop =>
      unfold step; rw [hctl]; simp only []
      repeat' split
      all_goals (left; exact hpo rfl)
    case updDeal op =>
      unfold step; rw [hctl]; simp only []
      split
      · exact live_next rfl rfl (fun _ h => by cases h)
      · rename_i hne
        have hflag : Phase.deal.flag (log m.st op) = true := by
          simp only [Phase.flag]
          cases h1 : (log m.st op).cardBurning <;> cases h2 : (log m.st op).anyHoleDealing <;>
            cases h3 : (log m.st op).anyBoardDealing <;> cases h4 : anyB (log m.st op).standingPat <;> simp_all
        repeat' split
        all_goals (left; exact pending_of .deal hflag)
    -- the other updates: either the phase is done or its flag is still up
    case updAnte op | updCollect op | updBlind op | updBet op st | updKill op | updPush op
        | updPull op =>
      unfold step; rw [hctl]; simp only []
      repeat' split
      all_goals first
        | exact live_next rfl rfl (fun _ h => by cases h)
        | (left; left; simp only [cont_st]; first
            | (refine ⟨.ante, ?_⟩; simp_all [Phase.flag]; done)
            | (refine ⟨.collect, ?_⟩; simp_all [Phase.flag]; done)
            | (refine ⟨.blind, ?_⟩; simp_all [Phase.flag]; done)
            | (refine ⟨.deal, ?_⟩; simp_all [Phase.flag]; done)
            | (refine ⟨.bet, ?_⟩; simp_all [Phase.flag]; done)
            | (refine ⟨.kill, ?_⟩; simp_all [Phase.flag]; done)
            | (refine ⟨.push, ?_⟩; simp_all [Phase.flag]; done)
            | (refine ⟨.pull, ?_⟩; simp_all [Phase.flag]; done))
    case opNoOp =>
      unfold step; rw [hctl]; simp only []
      left
      exact (hpo rfl).log (some .noOperation)
    -- the remaining public operations: refused (the state as it was) or followed by an update
    case opPostAnte i | opCollect | opPostBlind i | opBurn a | opDealHole a i | opDealBoard a | opDraw cs
        | opFold | opCall | opBringIn | opCbr a | opKill i | opPush | opPull i =>
      unfold CleanStep at hc
      generalize hs' : step cfg env m = m' at hc ⊢
      unfold step at hs'; rw [hctl] at hs'; simp only [] at hs'
      repeat' split at hs'
      all_goals (subst hs')
      all_goals first
        | (left; exact hpo rfl)
        | (left; exact (hpo rfl).log _)
        | exact live_next rfl rfl (fun _ h => by cases h)
        | (rcases hc with he | ⟨_, _, _, _, hsame⟩
           · cases he
           · left; have h := hpo rfl; rw [← hsame] at h; exact h)
    -- the `_begin` and `_end` methods: the next method of the cascade
    all_goals (
      have herr := herr_of_clean hc hctl rfl
      generalize hs : step cfg env m = m' at herr ⊢
      unfold step at hs; rw [hctl] at hs; simp only [] at hs
      repeat' split at hs
      all_goals (subst hs)
      all_goals first
        | (exfalso; simp [M.raise] at herr; done)
        | exact live_next rfl rfl (fun _ h => by cases h))

/-! ### whole histories -/

/-- histories in which no exception escapes from inside a cascade (f); refused public operations are
    part of the history -/
inductive LiveReach (cfg : Config) (env : Env) : M → Prop where
  | init : LiveReach cfg env { st := setup cfg env, ctl := [.beginAnte] }
  | step {m} : LiveReach cfg env m → CleanStep cfg env m → LiveReach cfg env (step cfg env m)
  | op {m} (o : Ctl) : LiveReach cfg env m → m.ctl = [] → o.isK = false → o.phase? = none → o ≠ .endHand →
      LiveReach cfg env { m with ctl := [o], err := none, warned := false }

theorem LiveReach.reach {m : M} (h : LiveReach cfg env m) : Reach cfg env m := by
  induction h with
  | init => exact .init
  | step _ _ ih => exact .step ih
  | op o _ hq hk hp he ih => exact .op o ih hq hk hp he

theorem LiveReach.invs {m : M} (h : LiveReach cfg env m) :
    ShowStreet cfg m.st ∧ BeginShowOk cfg m ∧ Live cfg m := by
  induction h with
  | init =>
    refine ⟨?_, ?_, live_next rfl rfl (fun _ h => by cases h)⟩
    · intro hf; rw [setup_allClear .show] at hf; cases hf
    · intro r hr; cases hr
  | step hr hc ih =>
    obtain ⟨hJ, hB, hL⟩ := ih
    have hP := C07_phase_order hr.reach
    exact ⟨showStreet_step _ hP hJ hB hc, beginShowOk_step _ hP hB, live_step _ hJ hB hc hL⟩
  | op o hr hq hk hp he ih =>
    obtain ⟨hJ, hB, hL⟩ := ih
    refine ⟨hJ, ?_, ?_⟩
    · intro r hr'
      simp only [List.cons.injEq] at hr'
      rw [hr'.1] at hp; cases hp
    · rcases hL with h | ⟨f, r, hc, _⟩
      · exact Or.inl h
      · rw [hq] at hc; cases hc

/-- **the showdown has work pending only while a street is being played** -/
theorem C07_show_in_street {m : M} (h : LiveReach cfg env m) (hf : Phase.show.flag m.st = true) :
    (m.st.street cfg).isSome = true := h.invs.1 hf

/-- **never stuck**: at every quiescent point of a history without an escaping internal exception, some
    phase has work pending or the hand is over -/
theorem C07_never_stuck {m : M} (h : LiveReach cfg env m) (hq : m.ctl = []) :
    (∃ X : Phase, X.flag m.st = true) ∨ m.st.status = false := by
  rcases h.invs.2.2 with h | ⟨f, r, hc, _⟩
  · exact h
  · rw [hq] at hc; cases hc

/-- **exactly one phase is active** while the hand is not over, at every quiescent point -/
theorem C07_exactly_one {m : M} (h : LiveReach cfg env m) (hq : m.ctl = []) (hs : m.st.status = true) :
    ∃ X : Phase, X.flag m.st = true ∧ ∀ Y : Phase, Y.flag m.st = true → Y = X := by
  rcases C07_never_stuck h hq with ⟨X, hX⟩ | hover
  · exact ⟨X, hX, fun Y hY => C07_exclusive_pair h.reach Y X hY hX⟩
  · rw [hs] at hover; cases hover

/-! ### the premises are met: a heads-up hand without automation runs its cascade to the blinds -/

def stepN (cfg : Config) (env : Env) : Nat → M → M
  | 0, m => m
  | k + 1, m => stepN cfg env k (step cfg env m)

theorem LiveReach.steps : ∀ (k : Nat) {m : M}, LiveReach cfg env m →
    (∀ j, j < k → (M.step cfg env (stepN cfg env j m)).err = none) → LiveReach cfg env (stepN cfg env k m)
  | 0, _, h, _ => h
  | k + 1, m, h, hc => by
    have h1 : LiveReach cfg env (M.step cfg env m) := .step h (Or.inl (hc 0 (Nat.succ_pos k)))
    exact LiveReach.steps k h1 (fun j hj => hc (j + 1) (Nat.succ_lt_succ hj))

def liveEnv : Env := ⟨fun _ _ _ => .ok 0, id, fun _ _ => .ok none⟩

example : LiveReach exampleCfg liveEnv (stepN exampleCfg liveEnv 9 { st := setup exampleCfg liveEnv, ctl := [.beginAnte] }) ∧
    (stepN exampleCfg liveEnv 9 { st := setup exampleCfg liveEnv, ctl := [.beginAnte] }).ctl = [] ∧
    Phase.blind.flag (stepN exampleCfg liveEnv 9 { st := setup exampleCfg liveEnv, ctl := [.beginAnte] }).st = true :=
  ⟨LiveReach.steps 9 .init (by decide +kernel), by decide +kernel, by decide +kernel⟩

end PK
