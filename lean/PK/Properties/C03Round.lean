/-
  C03 — the betting round over whole histories: whose turn it is, and when a round may end.

  `PK.Properties.C03` states every betting rule as a formula about one state.  This file is about histories:
  for every configuration reachable from `setup` by micro-steps and public operations (refused operations
  included; no escaping internal exception; side conditions (b) of C01 and (g) below),

  * `C03_queue`       the players still to act are in the hand and not all-in, nobody is listed twice, and the
                      list is in clockwise order (a sublist of a rotation of the seats);
  * `C03_waiting`     while somebody is still to act, every *other* player in the hand who is not all-in has
                      matched the largest bet (and no bring-in is pending), or already has in front of him at
                      least what anybody else in the hand could ever put in (he "covers" them: that is when
                      `_begin_betting` leaves a player out of the queue);
  * `C03_round_ends`  when `_update_betting` decides that the round is over, one player is left in the hand, or
                      every player in the hand who is not all-in has matched the largest bet or covers everybody.

  The invariant `RoundInv` is kept by all 58 kinds of micro-step (`round_step`): the frames that write none of
  queue / bets / stacks / statuses / bring-in flag by the frame lemma `tv_frame`; the operations of other phases
  because the phase invariant (C07) leaves nobody to act after them; `_begin_betting`, fold, check/call, bring-in
  and bet/raise by one lemma each about what they do to the queue (`beginBet_core`, `fold_core`, `call_core`,
  `bringIn_core`, `cbr_core`).

  Side condition (g), `CompletesUp`: a *completion of the bring-in* is to at least the largest bet.  For every
  other bet or raise this is proved (`raise_up_plain`: the effective stack reaches beyond the largest bet because
  somebody else can still call more, and the minimum raise is on top of the largest bet).  For a completion it
  rests on facts about stud hands that this file does not carry as invariants (no blinds in a bring-in game,
  the bring-in is below the small bet, nobody has more than the bring-in in front while it can be completed);
  it is decided on the implementation's traces by the C03 monitor.
-/
import PK.Proofs.TableFrame
import PK.Proofs.RoundLemmas
import PK.Properties.C07Live
set_option linter.unusedSimpArgs false
namespace PK
open State M

variable {cfg : Config} {env : Env}

/-- in the hand and not all-in -/
def State.canAct (s : State) (i : Nat) : Bool := getB s.statuses i && getI s.stacks i != 0

/-- nobody else in the hand can ever have more in front of him than `i` already has -/
def Covers (cfg : Config) (s : State) (i : Nat) : Prop :=
  ∀ j, j < cfg.n → j ≠ i → getB s.statuses j = true → getI s.bets j + getI s.stacks j ≤ getI s.bets i

/-- what holds of the actor queue while a betting round is on -/
structure RoundCore (cfg : Config) (s : State) : Prop where
  nodup : s.actors.Nodup
  can : ∀ a ∈ s.actors, a < cfg.n ∧ s.canAct a = true
  clockwise : ∃ o, s.actors.Sublist (rotatedRange cfg.n o)
  matched : ∀ i, i < cfg.n → s.canAct i = true → i ∉ s.actors →
    Covers cfg s i ∨ (getI s.bets i = maxI s.bets ∧ s.bringInStatus = false)

theorem RoundCore.of_tv {s s' : State} (h : tv s' = tv s) (hR : RoundCore cfg s) : RoundCore cfg s' := by
  have h1 : s'.actors = s.actors := congrArg TV.actors h
  have h2 : s'.bets = s.bets := congrArg TV.bets h
  have h3 : s'.stacks = s.stacks := congrArg TV.stacks h
  have h4 : s'.statuses = s.statuses := congrArg TV.statuses h
  have h5 : s'.bringInStatus = s.bringInStatus := congrArg TV.bring h
  refine ⟨?_, ?_, ?_, ?_⟩
  · rw [h1]; exact hR.nodup
  · rw [h1]; unfold State.canAct; rw [h3, h4]; exact hR.can
  · rw [h1]; exact hR.clockwise
  · rw [h1, h2, h5]; unfold State.canAct Covers; rw [h2, h3, h4]; exact hR.matched

/-- the invariant of a configuration: while somebody is still to act, and when `_update_betting` is about to
    decide whether the round is over, the queue is as `RoundCore` says; the flag `_begin_betting` passes
    is set only for a lone actor who has nothing to call -/
structure RoundInv (cfg : Config) (m : M) : Prop where
  on : m.st.actors ≠ [] → RoundCore cfg m.st
  upd : ∀ op st rest, m.ctl = .updBet op st :: rest →
    RoundCore cfg m.st ∧ (st = true → ∃ a, m.st.actors = [a] ∧ maxI m.st.bets ≤ getI m.st.bets a)

theorem RoundInv.of_quiet {m m' : M} (hR : RoundInv cfg m) (ht : tv m'.st = tv m.st)
    (hh : ∀ op st r, m'.ctl ≠ .updBet op st :: r) : RoundInv cfg m' := by
  have h1 : m'.st.actors = m.st.actors := congrArg TV.actors ht
  refine ⟨fun hne => RoundCore.of_tv ht (hR.on (by rw [← h1]; exact hne)), ?_⟩
  intro op st r hc
  exact absurd hc (hh op st r)

theorem RoundInv.of_empty {m' : M} (ha : m'.st.actors = [])
    (hh : ∀ op st r, m'.ctl ≠ .updBet op st :: r) : RoundInv cfg m' :=
  ⟨fun hne => absurd ha hne, fun op st r hc => absurd hc (hh op st r)⟩

theorem tail_not_updBet {m : M} (hP : PhaseInv cfg m) {f : Ctl} {rest : List Ctl} (hctl : m.ctl = f :: rest)
    {op st} {r : List Ctl} (h : rest = .updBet op st :: r) : False := by
  have := hP.tail f rest hctl (.updBet op st) (by rw [h]; exact List.mem_cons_self)
  cases this

/-- frames other than `_begin_betting` and the four betting operations never hand over to
    `_update_betting` -/
def Ctl.callsUpdBet : Ctl → Bool
  | .beginBet | .opFold | .opCall | .opBringIn | .opCbr _ => true
  | _ => false

theorem head_not_updBet (m : M) (hP : PhaseInv cfg m) (f : Ctl) (rest : List Ctl) (hctl : m.ctl = f :: rest)
    (hf : f.callsUpdBet = false) : ∀ op st r, (step cfg env m).ctl ≠ .updBet op st :: r := by
  intro op st r hr
  generalize hs : step cfg env m = m' at hr
  unfold step at hs; rw [hctl] at hs; simp only [] at hs
  cases f
  all_goals first
    | (cases hf; done)
    | skip
  all_goals (simp only [runoutPlumb] at hs)
  all_goals (repeat' split at hs)
  all_goals (subst hs)
  all_goals first
    | (simp [M.cont, M.raise] at hr; done)
    | (exfalso; simp [M.cont, M.raise] at hr; exact tail_not_updBet hP hctl hr)

/-- the bet flag is down after a step that leaves a phase method of another phase on top -/
theorem actors_nil_of_head {m' : M} (hP' : PhaseInv cfg m') {g : Ctl} {r : List Ctl} (hc : m'.ctl = g :: r)
    (hg : framePre cfg g m'.st → Phase.bet.flag m'.st = false) : m'.st.actors = [] := by
  have := hg (hP'.head g r hc)
  simp only [Phase.flag] at this
  cases ha : m'.st.actors with
  | nil => rfl
  | cons a as => rw [ha] at this; cases this

theorem flag_bet_of_only {X : Phase} {s : State} (h : OnlyMaybe X s) (hX : X ≠ .bet) : Phase.bet.flag s = false := by
  cases hf : Phase.bet.flag s with
  | false => rfl
  | true => exact absurd (h .bet hf).symm hX

/-! ### what each betting operation does to the queue -/

theorem getB_set_ne (l : List Bool) (p i : Nat) (v : Bool) (h : p ≠ i) : getB (l.set p v) i = getB l i := by
  unfold getB; simp [List.getD, List.getElem?_set_ne h]

theorem getB_set_false_imp (l : List Bool) (p j : Nat) (h : getB (l.set p false) j = true) : getB l j = true := by
  by_cases hp : p = j
  · subst hp
    unfold getB at h
    by_cases hl : p < l.length
    · simp [List.getD, List.getElem?_set_self hl] at h
    · have : l.set p false = l := List.set_eq_of_length_le (by omega)
      rw [this] at h; exact h
  · rw [getB_set_ne _ _ _ _ hp] at h; exact h

theorem getB_set_self_false (l : List Bool) (p : Nat) (h : getB l p = true) : getB (l.set p false) p = false := by
  have hl : p < l.length := by
    rcases Nat.lt_or_ge p l.length with h' | h'
    · exact h'
    · have : l[p]? = none := List.getElem?_eq_none h'
      unfold getB at h; simp [List.getD, this] at h
  unfold getB; simp [List.getD, List.getElem?_set_self hl]

/-- a fold: the folder leaves the queue and the hand -/
theorem fold_core {s s2 : State} {p : Nat} {tail acted : List Nat} (ha : s.actors = p :: tail)
    (hm : ({ s with actors := tail, acted := acted } : State).muckHoleCards p = .ok s2)
    (hR : RoundCore cfg s) : RoundCore cfg s2 := by
  unfold State.muckHoleCards at hm
  split at hm
  · cases hm
  · cases hm
    have hnd := hR.nodup; rw [ha] at hnd
    have hpt : p ∉ tail := (List.nodup_cons.1 hnd).1
    have hps : getB s.statuses p = true := by
      have := (hR.can p (by rw [ha]; exact List.mem_cons_self)).2
      unfold State.canAct at this; simp at this; exact this.1
    refine ⟨(List.nodup_cons.1 hnd).2, ?_, ?_, ?_⟩
    · intro a hat
      have hap : p ≠ a := fun h => hpt (h ▸ hat)
      have := hR.can a (by rw [ha]; exact List.mem_cons_of_mem _ hat)
      refine ⟨this.1, ?_⟩
      unfold State.canAct at this ⊢
      simp only [getB_set_ne _ _ _ _ hap]
      exact this.2
    · obtain ⟨o, ho⟩ := hR.clockwise
      rw [ha] at ho
      exact ⟨o, (List.sublist_cons_self p tail).trans ho⟩
    · intro i hi hcan hnot
      have hip : p ≠ i := by
        intro h; subst h
        unfold State.canAct at hcan
        simp only [getB_set_self_false _ _ hps] at hcan
        cases hcan
      have hcan0 : s.canAct i = true := by
        unfold State.canAct at hcan ⊢
        simpa only [getB_set_ne _ _ _ _ hip] using hcan
      have hnot0 : i ∉ s.actors := by
        rw [ha]; intro h
        rcases List.mem_cons.1 h with h | h
        · exact hip h.symm
        · exact hnot h
      rcases hR.matched i hi hcan0 hnot0 with h | h
      · left
        intro j hj hji hst
        exact h j hj hji (getB_set_false_imp _ _ _ hst)
      · right; exact h

/-- moving `a` chips of `p` from the stack to the bet leaves everybody's total as it was -/
theorem total_transfer (s : State) (p : Nat) (a : Int) (j : Nat) (hb : p < s.bets.length) (hs : p < s.stacks.length) :
    getI (s.bets.set p (getI s.bets p + a)) j + getI (s.stacks.set p (getI s.stacks p - a)) j =
      getI s.bets j + getI s.stacks j := by
  by_cases h : p = j
  · subst h; rw [getI_set_eq _ _ _ hb, getI_set_eq _ _ _ hs]; omega
  · rw [getI_set_ne _ _ _ _ h, getI_set_ne _ _ _ _ h]

/-- a check or call: the caller leaves the queue having matched the largest bet, or all-in -/
theorem call_core {s : State} {p : Nat} {tail acted : List Nat} {pay : List Int} (ha : s.actors = p :: tail)
    (hb : s.bringInStatus = false) (hlb : s.bets.length = cfg.n) (hls : s.stacks.length = cfg.n)
    (hnn : 0 ≤ getI s.stacks p) (hR : RoundCore cfg s) :
    RoundCore cfg { s with
      actors := tail, acted := acted
      bets := s.bets.set p (getI s.bets p + min (getI s.stacks p) (maxI s.bets - getI s.bets p))
      stacks := s.stacks.set p (getI s.stacks p - min (getI s.stacks p) (maxI s.bets - getI s.bets p))
      payoffs := pay } := by
  have hnd := hR.nodup; rw [ha] at hnd
  have hpt : p ∉ tail := (List.nodup_cons.1 hnd).1
  have hpn : p < cfg.n := (hR.can p (by rw [ha]; exact List.mem_cons_self)).1
  have hle : getI s.bets p ≤ maxI s.bets := getI_le_maxI _ _ (by omega)
  have hmax : maxI (s.bets.set p (getI s.bets p + min (getI s.stacks p) (maxI s.bets - getI s.bets p))) =
      maxI s.bets := maxI_set_mid _ _ _ (by omega) (by omega) (by omega)
  refine ⟨(List.nodup_cons.1 hnd).2, ?_, ?_, ?_⟩
  · intro a hat
    have hap : p ≠ a := fun h => hpt (h ▸ hat)
    have := hR.can a (by rw [ha]; exact List.mem_cons_of_mem _ hat)
    refine ⟨this.1, ?_⟩
    unfold State.canAct at this ⊢
    simp only [getI_set_ne _ _ _ _ hap]
    exact this.2
  · obtain ⟨o, ho⟩ := hR.clockwise
    rw [ha] at ho
    exact ⟨o, (List.sublist_cons_self p tail).trans ho⟩
  · intro i hi hcan hnot
    simp only at hnot
    by_cases hip : p = i
    · subst hip
      right
      refine ⟨?_, hb⟩
      simp only [hmax]
      unfold State.canAct at hcan
      simp only [getI_set_eq _ _ _ (show p < s.stacks.length by omega)] at hcan
      rw [getI_set_eq _ _ _ (show p < s.bets.length by omega)]
      have : getI s.stacks p - min (getI s.stacks p) (maxI s.bets - getI s.bets p) ≠ 0 := by
        have h2 := hcan
        simp only [Bool.and_eq_true, bne_iff_ne] at h2
        exact h2.2
      omega
    · have hcan0 : s.canAct i = true := by
        unfold State.canAct at hcan ⊢
        simpa only [getI_set_ne _ _ _ _ hip] using hcan
      have hnot0 : i ∉ s.actors := by
        rw [ha]; intro h
        rcases List.mem_cons.1 h with h | h
        · exact hip h.symm
        · exact hnot h
      rcases hR.matched i hi hcan0 hnot0 with h | h
      · left
        intro j hj hji hst
        have := h j hj hji hst
        show getI (s.bets.set p _) j + getI (s.stacks.set p _) j ≤ getI (s.bets.set p _) i
        rw [total_transfer s p _ j (by omega) (by omega), getI_set_ne _ _ _ _ hip]
        exact this
      · right
        refine ⟨?_, hb⟩
        show getI (s.bets.set p _) i = maxI (s.bets.set p _)
        rw [hmax, getI_set_ne _ _ _ _ hip]; exact h.1

theorem all_zero_of_not_any {l : List Int} (h : (l.any (· != 0)) = false) (j : Nat) : getI l j = 0 := by
  unfold getI
  rcases Nat.lt_or_ge j l.length with hj | hj
  · have hm : l[j] ∈ l := List.getElem_mem hj
    have := List.any_eq_false.1 h _ hm
    simp only [List.getD, List.getElem?_eq_getElem hj, Option.getD_some]
    simpa using this
  · simp [List.getD, List.getElem?_eq_none hj]

theorem maxI_zero_of_not_any {l : List Int} (h : (l.any (· != 0)) = false) : maxI l = 0 := by
  cases hl : l with
  | nil => rfl
  | cons x xs =>
    have hm := maxI_mem l (by rw [hl]; exact List.cons_ne_nil _ _)
    obtain ⟨i, _, hi⟩ := mem_getI hm
    rw [← hl, ← hi]; exact all_zero_of_not_any h i

/-- posting the bring-in: nobody has anything in front of him before, the poster has the largest bet after -/
theorem bringIn_core {s : State} {p : Nat} {tail acted : List Nat} {pay : List Int} {amount : Int}
    (ha : s.actors = p :: tail) (hb : s.bringInStatus = true)
    (hz : (s.bets.any (· != 0)) = false) (hamt : 0 ≤ amount)
    (hlb : s.bets.length = cfg.n) (hls : s.stacks.length = cfg.n) (hR : RoundCore cfg s) :
    RoundCore cfg { s with
      actors := tail, acted := acted
      bets := s.bets.set p (getI s.bets p + amount)
      stacks := s.stacks.set p (getI s.stacks p - amount)
      payoffs := pay
      bringInStatus := false } := by
  have hnd := hR.nodup; rw [ha] at hnd
  have hpt : p ∉ tail := (List.nodup_cons.1 hnd).1
  have hpn : p < cfg.n := (hR.can p (by rw [ha]; exact List.mem_cons_self)).1
  have hmax : maxI (s.bets.set p (getI s.bets p + amount)) = getI s.bets p + amount :=
    maxI_set_ge _ _ _ (by omega) (by rw [maxI_zero_of_not_any hz, all_zero_of_not_any hz]; omega)
  refine ⟨(List.nodup_cons.1 hnd).2, ?_, ?_, ?_⟩
  · intro a hat
    have hap : p ≠ a := fun h => hpt (h ▸ hat)
    have := hR.can a (by rw [ha]; exact List.mem_cons_of_mem _ hat)
    refine ⟨this.1, ?_⟩
    unfold State.canAct at this ⊢
    simp only [getI_set_ne _ _ _ _ hap]
    exact this.2
  · obtain ⟨o, ho⟩ := hR.clockwise
    rw [ha] at ho
    exact ⟨o, (List.sublist_cons_self p tail).trans ho⟩
  · intro i hi hcan hnot
    simp only at hnot
    by_cases hip : p = i
    · subst hip
      right
      refine ⟨?_, rfl⟩
      show getI (s.bets.set p _) p = maxI (s.bets.set p _)
      rw [hmax, getI_set_eq _ _ _ (show p < s.bets.length by omega)]
    · have hcan0 : s.canAct i = true := by
        unfold State.canAct at hcan ⊢
        simpa only [getI_set_ne _ _ _ _ hip] using hcan
      have hnot0 : i ∉ s.actors := by
        rw [ha]; intro h
        rcases List.mem_cons.1 h with h | h
        · exact hip h.symm
        · exact hnot h
      rcases hR.matched i hi hcan0 hnot0 with h | h
      · left
        intro j hj hji hst
        have := h j hj hji hst
        show getI (s.bets.set p _) j + getI (s.stacks.set p _) j ≤ getI (s.bets.set p _) i
        rw [total_transfer s p _ j (by omega) (by omega), getI_set_ne _ _ _ _ hip]
        exact this
      · rw [hb] at h; cases h.2

theorem rotatedRange_head (n p : Nat) (hp : p < n) : rotatedRange n p = p :: (rotatedRange n p).drop 1 := by
  unfold rotatedRange
  have h1 : (List.range n).drop p = p :: (List.range n).drop (p + 1) := by
    rw [List.drop_eq_getElem_cons (by simpa using hp)]; simp
  rw [h1]; rfl

/-- a completion, bet or raise to at least the largest bet: everybody else in the hand with chips is asked
    again, clockwise from the raiser -/
theorem cbr_core {s : State} {p : Nat} (amount : Int)
    (hp : p < cfg.n) (hlb : s.bets.length = cfg.n) (hup : maxI s.bets ≤ amount)
    (s' : State)
    (hact : s'.actors = ((rotatedRange cfg.n p).drop 1).filter fun i => getB s'.statuses i && getI s'.stacks i != 0)
    (hbets : s'.bets = s.bets.set p amount) (hbr : s'.bringInStatus = false) : RoundCore cfg s' := by
  have hnd : ((rotatedRange cfg.n p).drop 1).Nodup := (nodup_rotatedRange cfg.n p).sublist (List.drop_sublist _ _)
  refine ⟨?_, ?_, ?_, ?_⟩
  · rw [hact]; exact hnd.sublist List.filter_sublist
  · intro a ha
    rw [hact] at ha
    obtain ⟨h1, h2⟩ := List.mem_filter.1 ha
    exact ⟨(mem_rotatedRange _ _ _).1 (List.mem_of_mem_drop h1), h2⟩
  · exact ⟨p, by rw [hact]; exact List.filter_sublist.trans (List.drop_sublist _ _)⟩
  · intro i hi hcan hnot
    have hip : i = p := by
      have hmem : i ∈ rotatedRange cfg.n p := (mem_rotatedRange _ _ _).2 hi
      rw [rotatedRange_head _ _ hp] at hmem
      rcases List.mem_cons.1 hmem with h | h
      · exact h
      · exact absurd (by rw [hact]; exact List.mem_filter.2 ⟨h, hcan⟩) hnot
    subst hip
    right
    refine ⟨?_, hbr⟩
    rw [hbets, maxI_set_ge _ _ _ (by omega) hup, getI_set_eq _ _ _ (by omega)]

/-! ### `_begin_betting`: who is asked -/

/-- the body of the loop that removes players from the fresh queue -/
def dropBody (cfg : Config) (s : State) (acc : List Nat × Option Err) (i : Nat) : List Nat × Option Err :=
  match acc with
  | (actors, some e) => (actors, some e)
  | (actors, none) =>
    if !getB s.statuses i || getI s.stacks i == 0 then (actors.erase i, none)
    else match s.effectiveStack cfg i with
      | .error e => (actors, some e)
      | .ok eff => if eff == 0 then (actors.erase i, none) else (actors, none)

/-- who is removed: out of the hand, all-in, or with nothing he could be asked for -/
def dropped (cfg : Config) (s : State) (i : Nat) : Bool :=
  !getB s.statuses i || getI s.stacks i == 0 ||
    (match s.effectiveStack cfg i with | .ok eff => eff == 0 | .error _ => false)

theorem dropFold_some (s : State) (is : List Nat) (a : List Nat) (e : Err) :
    is.foldl (dropBody cfg s) (a, some e) = (a, some e) := by
  induction is with
  | nil => rfl
  | cons i is ih => simp only [List.foldl_cons, dropBody]; exact ih

theorem dropBody_none (s : State) (a : List Nat) (i : Nat) :
    dropBody cfg s (a, none) i =
      if !getB s.statuses i || getI s.stacks i == 0 then (a.erase i, none)
      else match s.effectiveStack cfg i with
        | .error e => (a, some e)
        | .ok eff => if eff == 0 then (a.erase i, none) else (a, none) := rfl

theorem dropFold_spec (s : State) (is : List Nat) (init actors : List Nat)
    (h : is.foldl (dropBody cfg s) (init, none) = (actors, none)) :
    actors = is.foldl (fun acc i => if dropped cfg s i then acc.erase i else acc) init := by
  induction is generalizing init with
  | nil => simp only [List.foldl_nil] at h ⊢; cases h; rfl
  | cons i is ih =>
    simp only [List.foldl_cons] at h ⊢
    rw [dropBody_none] at h
    by_cases h1 : (!getB s.statuses i || getI s.stacks i == 0) = true
    · rw [if_pos h1] at h
      have hd : dropped cfg s i = true := by unfold dropped; rw [h1]; rfl
      rw [if_pos hd]; exact ih _ h
    · rw [if_neg h1] at h
      have h1' : (!getB s.statuses i || getI s.stacks i == 0) = false := by simpa using h1
      cases he : s.effectiveStack cfg i with
      | error e =>
        rw [he] at h
        simp only [] at h
        rw [dropFold_some] at h; cases h
      | ok eff =>
        rw [he] at h
        simp only [] at h
        by_cases h2 : (eff == 0) = true
        · rw [if_pos h2] at h
          have hd : dropped cfg s i = true := by unfold dropped; rw [h1', he]; simpa using h2
          rw [if_pos hd]; exact ih _ h
        · rw [if_neg h2] at h
          have hd : ¬ dropped cfg s i = true := by unfold dropped; rw [h1', he]; simpa using h2
          rw [if_neg hd]; exact ih _ h

/-- with nothing he could be asked for: everybody else in the hand is covered by what he has in front -/
theorem eff_zero_covers {s : State} {i : Nat} (hi : i < cfg.n) (hsi : s.streetIndex.isSome = true)
    (hst : getB s.statuses i = true) (hne : getI s.stacks i ≠ 0) (hnn : 0 ≤ getI s.stacks i)
    (he : s.effectiveStack cfg i = .ok 0) : Covers cfg s i := by
  unfold State.effectiveStack at he
  have g1 : (s.streetIndex.isNone || !getB s.statuses i) = false := by
    cases h : s.streetIndex with
    | none => rw [h] at hsi; cases hsi
    | some x => simp [hst]
  rw [if_neg (by rw [g1]; exact Bool.false_ne_true)] at he
  simp only [] at he
  split at he
  · cases he
  · injection he with he
    intro j hj hji hsj
    have key := second_ge_min cfg.n
      (fun j => if getB s.statuses j = true then some (getI s.bets j + getI s.stacks j) else none)
      i j hi hj (Ne.symm hji) (getI s.bets i + getI s.stacks i) (getI s.bets j + getI s.stacks j)
      (by simp [hst]) (by simp [hsj])
    unfold State.playerIndices at he
    generalize (sortI (List.filterMap (fun j => if getB s.statuses j = true then
      some (getI s.bets j + getI s.stacks j) else none) (List.range cfg.n))) = srt at he key
    generalize srt.getD (srt.length - 2) 0 = second at he key
    omega

/-- the fresh queue: clockwise from the opener, exactly the players in the hand with chips whom somebody
    could still ask for more; whoever is left out covers everybody -/
theorem beginBet_core (s1 : State) (opener : Nat) (actors : List Nat)
    (hfold : (playerIndices cfg).foldl (dropBody cfg s1) (rotatedRange cfg.n opener, none) = (actors, none))
    (hsi : s1.streetIndex.isSome = true) (hnn : ∀ i, i < cfg.n → 0 ≤ getI s1.stacks i)
    (s' : State) (ha : s'.actors = actors) (hb : s'.bets = s1.bets) (hs : s'.stacks = s1.stacks)
    (hst : s'.statuses = s1.statuses) : RoundCore cfg s' := by
  have hspec := dropFold_spec s1 _ _ _ hfold
  have hmem := fun a => mem_dropLoop (playerIndices cfg) (dropped cfg s1) (rotatedRange cfg.n opener)
    (nodup_rotatedRange _ _) a
  have hsub := dropLoop_sublist (playerIndices cfg) (dropped cfg s1) (rotatedRange cfg.n opener)
  rw [← hspec] at hmem hsub
  refine ⟨?_, ?_, ?_, ?_⟩
  · rw [ha]; exact (nodup_rotatedRange _ _).sublist hsub
  · intro a haa
    rw [ha] at haa
    obtain ⟨h1, h2⟩ := (hmem a).1 haa
    have han : a < cfg.n := (mem_rotatedRange _ _ _).1 h1
    refine ⟨han, ?_⟩
    have hnd : dropped cfg s1 a = false := by
      cases hd : dropped cfg s1 a with
      | false => rfl
      | true => exact absurd ⟨List.mem_range.2 han, hd⟩ h2
    unfold dropped at hnd
    unfold State.canAct
    rw [hs, hst]
    simp only [Bool.or_eq_false_iff] at hnd
    have h3 := hnd.1.1
    have h4 := hnd.1.2
    simp at h3 h4
    simp [h3, h4]
  · exact ⟨opener, by rw [ha]; exact hsub⟩
  · intro i hi hcan hnot
    left
    rw [ha] at hnot
    have hd : dropped cfg s1 i = true := by
      cases hd : dropped cfg s1 i with
      | true => rfl
      | false =>
        exfalso
        apply hnot
        exact (hmem i).2 ⟨(mem_rotatedRange _ _ _).2 hi, fun h => by rw [hd] at h; cases h.2⟩
    unfold State.canAct at hcan
    rw [hs, hst] at hcan
    simp only [Bool.and_eq_true, bne_iff_ne] at hcan
    have hcov : Covers cfg s1 i := by
      unfold dropped at hd
      cases he : s1.effectiveStack cfg i with
      | error e => rw [he] at hd; simp [hcan.1, hcan.2] at hd
      | ok eff =>
        rw [he] at hd
        simp [hcan.1, hcan.2] at hd
        rw [hd] at he
        exact eff_zero_covers hi hsi hcan.1 hcan.2 (hnn i hi) he
    unfold Covers at hcov ⊢
    rw [hb, hs, hst]; exact hcov

/-! ### one micro-step -/

theorem tv_produce (s : State) (cs : List Card) : tv (s.produceCards cs) = tv s := rfl

/-- showing leaves the table alone; mucking happens only while a street is being played -/
theorem opShow_tv (m : M) (arg : ShowArg) (i : Option Nat) (rest : List Ctl)
    (hctl : m.ctl = .opShow arg i :: rest) :
    tv (step cfg env m).st = tv m.st ∨ (m.st.street cfg).isSome = true := by
  unfold step; rw [hctl]; simp only []
  split
  · exact Or.inl rfl
  · rename_i v hv
    generalize hs1 : (if (street cfg m.st).isSome = true then
        { m.st with showdown := m.st.showdown.erase v.val.player } else m.st) = s1
    have h1 : tv s1 = tv m.st := by rw [← hs1]; split <;> rfl
    split
    · exact Or.inl h1
    · rename_i s2 hs2
      simp only [cont_st]
      split at hs2
      · cases hs2
        left
        exact (show tv { (State.consumeCards env (s1.produceCards (s1.holeOf v.val.player))
            (v.val.holeCards.filter Card.known)) with hole := _, holeStatuses := _ } =
              tv (State.consumeCards env (s1.produceCards (s1.holeOf v.val.player))
            (v.val.holeCards.filter Card.known)) from rfl).trans ((tv_consume _ _ _).trans h1)
      · rename_i hstat
        right
        cases hst : m.st.street cfg with
        | some st => rfl
        | none =>
          have hn : (m.st.street cfg).isNone = true := by rw [hst]; rfl
          exact absurd (verifyShow_none_status hv hn) hstat

/-- side condition (g): a completion, bet or raise is to at least the largest bet on the table -/
def RaiseUp (cfg : Config) (m : M) : Prop :=
  ∀ a rest amt, m.ctl = .opCbr a :: rest → m.st.verifyCbr cfg a = .ok amt → maxI m.st.bets ≤ amt

theorem openerOf_street {s : State} {o : Nat} (h : openerOf cfg env s = .ok o) : s.streetIndex.isSome = true := by
  unfold openerOf at h
  split at h
  · cases h
  · rename_i st hst
    unfold State.street at hst
    cases hsi : s.streetIndex with
    | none => rw [hsi] at hst; cases hst
    | some x => rfl

theorem round_beginBet (m : M) (hL : Ledger cfg m.st) (hc : CleanStep cfg env m) (rest : List Ctl)
    (hctl : m.ctl = .beginBet :: rest) : RoundInv cfg (step cfg env m) := by
  have herr := herr_of_clean hc hctl rfl
  generalize hs : step cfg env m = m' at herr ⊢
  unfold step at hs; rw [hctl] at hs; simp only [] at hs
  repeat' split at hs
  all_goals (subst hs)
  all_goals first
    | (exfalso; simp [M.raise] at herr; done)
    | skip
  all_goals (
    have hop := ‹openerOf cfg env _ = Except.ok _›
    have hfold' := ‹List.foldl _ _ _ = _›
    refine ⟨fun _ => ?_, fun op st r hcl => ⟨?_, fun ht => ?_⟩⟩
    · exact beginBet_core (cfg := cfg) m.st _ _ hfold'
        (openerOf_street hop) (fun i hi => hL.nonnegStacks i hi) _ rfl rfl rfl rfl
    · exact beginBet_core (cfg := cfg) m.st _ _ hfold'
        (openerOf_street hop) (fun i hi => hL.nonnegStacks i hi) _ rfl rfl rfl rfl
    · simp only [M.cont, List.cons_append, List.nil_append, List.cons.injEq, Ctl.updBet.injEq] at hcl
      obtain ⟨⟨_, hst⟩, _⟩ := hcl
      first
        | exact ⟨_, rfl, of_decide_eq_true (hst.trans ht)⟩
        | (rw [← hst] at ht; cases ht))

theorem verifyCall_ok {s : State} (h : s.verifyCheckingOrCalling = .ok ()) : s.bringInStatus = false := by
  unfold State.verifyCheckingOrCalling at h
  split at h
  · cases h
  · split at h
    · cases h
    · rename_i hb; simpa using hb

theorem verifyBringIn_ok {s : State} (h : s.verifyBringInPosting = .ok ()) : s.bringInStatus = true := by
  unfold State.verifyBringInPosting at h
  split at h
  · cases h
  · split at h
    · cases h
    · rename_i hb; simpa using hb

theorem RoundInv.after {m' : M} {op : Option Operation} {rest : List Ctl} {s' : State}
    (hst : m'.st = s') (hctl : m'.ctl = .updBet op false :: rest) (core : RoundCore cfg s') : RoundInv cfg m' := by
  refine ⟨fun _ => hst ▸ core, fun op' st r hcl => ⟨hst ▸ core, fun ht => ?_⟩⟩
  rw [hctl] at hcl
  simp only [List.cons.injEq, Ctl.updBet.injEq] at hcl
  rw [← hcl.1.2] at ht; cases ht

theorem core_of_cons {m : M} (hR : RoundInv cfg m) {p : Nat} {tail : List Nat} (ha : m.st.actors = p :: tail) :
    RoundCore cfg m.st := hR.on (by rw [ha]; exact List.cons_ne_nil _ _)

theorem round_opFold (m : M) (hc : CleanStep cfg env m) (hR : RoundInv cfg m) (rest : List Ctl)
    (hctl : m.ctl = .opFold :: rest) : RoundInv cfg (step cfg env m) := by
  unfold CleanStep at hc
  generalize hs : step cfg env m = m' at hc ⊢
  unfold step at hs; rw [hctl] at hs; simp only [] at hs
  repeat' split at hs
  all_goals (subst hs)
  all_goals first
    | exact hR.of_quiet rfl (by intro _ _ _ h; simp [M.raise] at h)
    | (rcases hc with he | ⟨_, _, _, _, hsame⟩
       · cases he
       · exact hR.of_quiet (congrArg tv hsame) (by intro _ _ _ h; simp at h))
    | exact RoundInv.after rfl rfl
        (fold_core ‹m.st.actors = _ :: _› ‹State.muckHoleCards _ _ = Except.ok _›
          (core_of_cons hR ‹m.st.actors = _ :: _›))

theorem round_opCall (m : M) (hL : Ledger cfg m.st) (hc : CleanStep cfg env m) (hR : RoundInv cfg m)
    (rest : List Ctl) (hctl : m.ctl = .opCall :: rest) : RoundInv cfg (step cfg env m) := by
  unfold CleanStep at hc
  generalize hs : step cfg env m = m' at hc ⊢
  unfold step at hs; rw [hctl] at hs; simp only [] at hs
  repeat' split at hs
  all_goals (subst hs)
  all_goals first
    | exact hR.of_quiet rfl (by intro _ _ _ h; simp [M.raise] at h)
    | (rcases hc with he | ⟨_, _, _, _, hsame⟩
       · cases he
       · exact hR.of_quiet (congrArg tv hsame) (by intro _ _ _ h; simp at h))
    | (have ha := ‹m.st.actors = _ :: _›
       have hamt := callAmount_spec ‹State.checkingOrCallingAmount _ = Except.ok (some _)› ha
       subst hamt
       have core := core_of_cons hR ha
       have hpn := (core.can _ (by rw [ha]; exact List.mem_cons_self)).1
       exact RoundInv.after rfl rfl
        (call_core ha (verifyCall_ok ‹State.verifyCheckingOrCalling _ = Except.ok ()›) hL.lenBets hL.lenStacks
          (hL.nonnegStacks _ hpn) core))

theorem round_opBringIn (hcfg : CfgOk cfg) (m : M) (hL : Ledger cfg m.st) (hc : CleanStep cfg env m)
    (hR : RoundInv cfg m) (rest : List Ctl) (hctl : m.ctl = .opBringIn :: rest) :
    RoundInv cfg (step cfg env m) := by
  unfold CleanStep at hc
  generalize hs : step cfg env m = m' at hc ⊢
  unfold step at hs; rw [hctl] at hs; simp only [] at hs
  repeat' split at hs
  all_goals (subst hs)
  all_goals first
    | exact hR.of_quiet rfl (by intro _ _ _ h; simp [M.raise] at h)
    | (rcases hc with he | ⟨_, _, _, _, hsame⟩
       · cases he
       · exact hR.of_quiet (congrArg tv hsame) (by intro _ _ _ h; simp at h))
    | (have ha := ‹m.st.actors = _ :: _›
       have hamt := bringInAmount_spec ‹State.effectiveBringInAmount _ _ = Except.ok (some _)› ha
       have core := core_of_cons hR ha
       have hpn := (core.can _ (by rw [ha]; exact List.mem_cons_self)).1
       have h0 := hL.nonnegStacks _ hpn
       have hbi := (validate_facts hcfg).2
       rename_i hguard
       simp only [Bool.or_eq_true, not_or, Bool.not_eq_true] at hguard
       exact RoundInv.after rfl rfl
        (bringIn_core ha (verifyBringIn_ok ‹State.verifyBringInPosting _ = Except.ok ()›) hguard.1.1.1
          (by omega) hL.lenBets hL.lenStacks core))

theorem round_opCbr (m : M) (hL : Ledger cfg m.st) (hc : CleanStep cfg env m) (hU : RaiseUp cfg m)
    (hR : RoundInv cfg m) (a : Option Int) (rest : List Ctl) (hctl : m.ctl = .opCbr a :: rest) :
    RoundInv cfg (step cfg env m) := by
  have hU' := hU a rest
  unfold CleanStep at hc
  generalize hs : step cfg env m = m' at hc ⊢
  unfold step at hs; rw [hctl] at hs; simp only [] at hs
  repeat' split at hs
  all_goals (subst hs)
  all_goals first
    | exact hR.of_quiet rfl (by intro _ _ _ h; simp [M.raise] at h)
    | (rcases hc with he | ⟨_, _, _, _, hsame⟩
       · cases he
       · exact hR.of_quiet (congrArg tv hsame) (by intro _ _ _ h; simp at h))
    | (have ha := ‹m.st.actors = _ :: _›
       have core := core_of_cons hR ha
       have hpn := (core.can _ (by rw [ha]; exact List.mem_cons_self)).1
       exact RoundInv.after rfl rfl
        (cbr_core _ hpn hL.lenBets (hU' _ hctl ‹State.verifyCbr _ _ _ = Except.ok _›) _ rfl rfl rfl))

theorem round_endBet (m : M) (hP : PhaseInv cfg m) (hR : RoundInv cfg m) (rest : List Ctl)
    (hctl : m.ctl = .endBet :: rest) : RoundInv cfg (step cfg env m) := by
  have hh := head_not_updBet (env := env) m hP _ rest hctl rfl
  generalize hs : step cfg env m = m' at hh ⊢
  unfold step at hs; rw [hctl] at hs; simp only [] at hs
  repeat' split at hs
  all_goals (subst hs)
  all_goals first
    | exact hR.of_quiet rfl hh
    | exact RoundInv.of_empty rfl hh

/-- the operations of the other phases that move chips or take a player out of the hand: they are refused
    while a betting round is on, and otherwise leave nobody to act -/
theorem round_other (m : M) (hP : PhaseInv cfg m) (hc : CleanStep cfg env m) (hR : RoundInv cfg m)
    (f : Ctl) (rest : List Ctl) (hctl : m.ctl = f :: rest)
    (hf : f = .opCollect ∨ f = .opPush ∨ (∃ i, f = .opPostAnte i) ∨ (∃ i, f = .opPostBlind i) ∨
      (∃ i, f = .opKill i) ∨ (∃ i, f = .opPull i)) : RoundInv cfg (step cfg env m) := by
  have hP' := phaseInv_step (env := env) m hP
  unfold CleanStep at hc
  generalize hs : step cfg env m = m' at hc hP' ⊢
  unfold step at hs; rw [hctl] at hs
  rcases hf with rfl | rfl | ⟨i, rfl⟩ | ⟨i, rfl⟩ | ⟨i, rfl⟩ | ⟨i, rfl⟩
  all_goals (simp only [] at hs)
  all_goals (repeat' split at hs)
  all_goals (subst hs)
  all_goals first
    | exact hR.of_quiet rfl (by intro _ _ _ h; simp [M.raise] at h)
    | (rcases hc with he | ⟨_, _, _, _, hsame⟩
       · cases he
       · exact hR.of_quiet (congrArg tv hsame) (by intro _ _ _ h; simp at h))
    | exact RoundInv.of_empty (actors_nil_of_head hP' rfl (fun h => flag_bet_of_only h (by decide)))
        (by intro _ _ _ h; simp [M.cont] at h)

theorem round_opShow (m : M) (hP : PhaseInv cfg m) (hc : CleanStep cfg env m) (hR : RoundInv cfg m)
    (arg : ShowArg) (i : Option Nat) (rest : List Ctl) (hctl : m.ctl = .opShow arg i :: rest) :
    RoundInv cfg (step cfg env m) := by
  have hh := head_not_updBet (env := env) m hP _ rest hctl rfl
  rcases opShow_tv (cfg := cfg) (env := env) m arg i rest hctl with ht | hsome
  · exact hR.of_quiet ht hh
  · have hP' := phaseInv_step (env := env) m hP
    have hst := (opShow_spec (cfg := cfg) (env := env) m arg i rest hctl).1
    have hsome' : ((step cfg env m).st.street cfg).isSome = true := by rw [hst]; exact hsome
    unfold CleanStep at hc
    generalize hs : step cfg env m = m' at hc hP' hsome' hh ⊢
    unfold step at hs; rw [hctl] at hs; simp only [] at hs
    repeat' split at hs
    all_goals (subst hs)
    all_goals first
      | exact hR.of_quiet rfl hh
      | (rcases hc with he | ⟨_, _, _, _, hsame⟩
         · cases he
         · exact hR.of_quiet (congrArg tv hsame) hh)
      | exact RoundInv.of_empty (actors_nil_of_head hP' rfl (fun h => by
          rcases h with h | h
          · have h2 : ∀ o : Option Street, o.isNone = true → o.isSome = true → False := by
              intro o h1 h2; cases o <;> simp at h1 h2
            exact (h2 _ h hsome').elim
          · exact flag_bet_of_only h (by decide))) hh

/-- **one micro-step keeps the betting-round invariant** -/
theorem round_step (hcfg : CfgOk cfg) (m : M) (hP : PhaseInv cfg m) (hL : Ledger cfg m.st)
    (hc : CleanStep cfg env m) (hU : RaiseUp cfg m) (hR : RoundInv cfg m) : RoundInv cfg (step cfg env m) := by
  cases hctl : m.ctl with
  | nil =>
    have : step cfg env m = m := by unfold step; rw [hctl]
    rw [this]; exact hR
  | cons f rest =>
    by_cases hw : f.writesTable = false
    · have hcu : f.callsUpdBet = false := by cases f <;> first | rfl | cases hw
      exact hR.of_quiet (tv_frame m f rest hctl hw) (head_not_updBet m hP f rest hctl hcu)
    · cases f <;> first | (exact absurd rfl hw) | skip
      case beginBet => exact round_beginBet m hL hc rest hctl
      case endBet => exact round_endBet m hP hR rest hctl
      case opFold => exact round_opFold m hc hR rest hctl
      case opCall => exact round_opCall m hL hc hR rest hctl
      case opBringIn => exact round_opBringIn hcfg m hL hc hR rest hctl
      case opCbr a => exact round_opCbr m hL hc hU hR a rest hctl
      case opShow a i => exact round_opShow m hP hc hR a i rest hctl
      case opCollect => exact round_other m hP hc hR _ rest hctl (Or.inl rfl)
      case opPush => exact round_other m hP hc hR _ rest hctl (Or.inr (Or.inl rfl))
      case opPostAnte i => exact round_other m hP hc hR _ rest hctl (Or.inr (Or.inr (Or.inl ⟨i, rfl⟩)))
      case opPostBlind i => exact round_other m hP hc hR _ rest hctl (Or.inr (Or.inr (Or.inr (Or.inl ⟨i, rfl⟩))))
      case opKill i =>
        exact round_other m hP hc hR _ rest hctl (Or.inr (Or.inr (Or.inr (Or.inr (Or.inl ⟨i, rfl⟩)))))
      case opPull i =>
        exact round_other m hP hc hR _ rest hctl (Or.inr (Or.inr (Or.inr (Or.inr (Or.inr ⟨i, rfl⟩)))))

/-! ### side condition (g) holds of every bet and raise that is not a completion of the bring-in -/

theorem of_not_not_true {b : Bool} (h : ¬ (!b) = true) : b = true := by cases b <;> simp_all

theorem verifyCbr_min {s : State} {a : Option Int} {amt : Int} (h : s.verifyCbr cfg a = .ok amt) :
    ∃ p mn, s.verifyCbr0 cfg = .ok p ∧ s.minCbrTo cfg = .ok (some mn) ∧ mn ≤ amt := by
  unfold State.verifyCbr at h
  split at h
  · cases h
  · rename_i p hp
    split at h
    · cases h
    · cases h
    · cases h
    · cases h
    · rename_i mn mx hmn hmx
      simp only [] at h
      split at h
      · cases h
      · split at h
        · cases h
        · cases h
          exact ⟨p, mn, hp, hmn, by omega⟩

/-- what `_verify_completion_betting_or_raising` has checked when it lets a player through -/
theorem verifyCbr0_facts {s : State} {p : Nat} (h : s.verifyCbr0 cfg = .ok p) :
    (∃ tail, s.actors = p :: tail) ∧ maxI s.bets - getI s.bets p < getI s.stacks p ∧
    ∃ i, i < cfg.n ∧ i ≠ p ∧ getB s.statuses i = true ∧ maxI s.bets < getI s.stacks i + getI s.bets i := by
  unfold State.verifyCbr0 at h
  repeat' split at h
  all_goals first
    | (cases h; done)
    | skip
  all_goals (
    injection h with h
    subst h
    have hq := ‹s.actorIndex = Except.ok (some _)›
    have h2 := ‹¬ getI s.stacks _ ≤ maxI s.bets - getI s.bets _›
    have h3 := ‹¬ (!(playerIndices cfg).any _) = true›
    refine ⟨?_, by omega, ?_⟩
    · unfold State.actorIndex at hq
      split at hq
      · cases hq
      · rename_i a tail ha
        split at hq
        · cases hq
        · cases hq; exact ⟨tail, ha⟩
    · obtain ⟨i, hi, hc⟩ := List.any_eq_true.1 (of_not_not_true h3)
      simp only [Bool.and_eq_true, bne_iff_ne, decide_eq_true_eq] at hc
      exact ⟨i, List.mem_range.1 hi, hc.1.1, hc.1.2, by omega⟩)

theorem raise_up_plain (hcfg : CfgOk cfg) {s : State} (hlen : s.bets.length = cfg.n) {a : Option Int} {amt : Int}
    (hcan : ∀ p tail, s.actors = p :: tail → p < cfg.n ∧ getB s.statuses p = true)
    (h : s.verifyCbr cfg a = .ok amt) (hcomp : s.completionStatus = false) : maxI s.bets ≤ amt := by
  obtain ⟨p, mn, h0, hmn, hle⟩ := verifyCbr_min h
  obtain ⟨⟨tail, ha⟩, hstack, i, hi, hip, hsi, hti⟩ := verifyCbr0_facts h0
  obtain ⟨hp, hsp⟩ := hcan p tail ha
  unfold State.minCbrTo at hmn
  rw [h0] at hmn
  simp only [] at hmn
  split at hmn
  · cases hmn
  · rename_i st hst
    have hmb : 0 < st.minBet := minBet_pos hcfg (street_mem hst)
    rw [hcomp] at hmn
    simp only [Bool.not_false, if_true] at hmn
    split at hmn
    · cases hmn
    · rename_i eff he
      injection hmn with hmn
      injection hmn with hmn
      -- the effective stack reaches beyond the largest bet
      unfold State.effectiveStack at he
      have hsidx : s.streetIndex.isSome = true := by
        unfold State.street at hst
        cases hx : s.streetIndex with
        | none => rw [hx] at hst; cases hst
        | some x => rfl
      have g1 : (s.streetIndex.isNone || !getB s.statuses p) = false := by
        cases hx : s.streetIndex with
        | none => rw [hx] at hsidx; cases hsidx
        | some x => simp [hsp]
      rw [if_neg (by rw [g1]; exact Bool.false_ne_true)] at he
      simp only [] at he
      split at he
      · cases he
      · injection he with he
        have key := second_ge_min cfg.n
          (fun j => if getB s.statuses j = true then some (getI s.bets j + getI s.stacks j) else none)
          p i hp hi (Ne.symm hip) (getI s.bets p + getI s.stacks p) (getI s.bets i + getI s.stacks i)
          (by simp [hsp]) (by simp [hsi])
        unfold State.playerIndices at he
        generalize (sortI (List.filterMap (fun j => if getB s.statuses j = true then
          some (getI s.bets j + getI s.stacks j) else none) (List.range cfg.n))) = srt at he key
        generalize srt.getD (srt.length - 2) 0 = second at he key
        have hbp : getI s.bets p ≤ maxI s.bets := getI_le_maxI _ _ (by omega)
        omega

/-- (g) as a fact about one state: while the bring-in may still be completed, the first street is being played
    and nobody has more than the bring-in in front of him -/
def CompletionBounded (cfg : Config) (s : State) : Prop :=
  s.completionStatus = true → s.streetIndex = some 0 ∧ ∀ i, i < cfg.n → getI s.bets i ≤ cfg.bringIn

theorem validate_bringIn (hcfg : CfgOk cfg) {st0 : Street} (h0 : cfg.streets[0]? = some st0) :
    cfg.bringIn < st0.minBet := by
  have := hcfg.valid
  unfold Config.validate at this
  split at this
  · rename_i hnil; rw [hnil] at h0; cases h0
  · rename_i st0' tl hcons
    rw [hcons] at h0
    simp only [List.getElem?_cons_zero, Option.some.injEq] at h0
    subst h0
    repeat' split at this
    all_goals try (cases this; done)
    simp only [Int.not_le, ge_iff_le] at *
    omega

/-- a completion of the bring-in is to at least the largest bet, in a state where (g) holds: the small bet
    of the first street is above the bring-in -/
theorem raise_up_completion (hcfg : CfgOk cfg) {s : State} (hlen : s.bets.length = cfg.n) {a : Option Int}
    {amt : Int} (hcan : ∀ p tail, s.actors = p :: tail → p < cfg.n ∧ getB s.statuses p = true)
    (h : s.verifyCbr cfg a = .ok amt) (hcomp : s.completionStatus = true) (hg : CompletionBounded cfg s) :
    maxI s.bets ≤ amt := by
  obtain ⟨hidx, hbound⟩ := hg hcomp
  obtain ⟨p, mn, h0, hmn, hle⟩ := verifyCbr_min h
  obtain ⟨⟨tail, ha⟩, hstack, i, hi, hip, hsi, hti⟩ := verifyCbr0_facts h0
  obtain ⟨hp, hsp⟩ := hcan p tail ha
  have hmaxb : maxI s.bets ≤ cfg.bringIn := by
    have hne : s.bets ≠ [] := by intro h; rw [h] at hlen; simp at hlen; omega
    obtain ⟨j, hj, hje⟩ := mem_getI (maxI_mem s.bets hne)
    rw [← hje]; exact hbound j (by omega)
  unfold State.minCbrTo at hmn
  rw [h0] at hmn
  simp only [] at hmn
  split at hmn
  · cases hmn
  · rename_i st hst
    have hmb : cfg.bringIn < st.minBet := by
      apply validate_bringIn hcfg
      unfold State.street at hst
      rw [hidx] at hst
      simp only [] at hst
      split at hst
      · rename_i k hk
        unfold pyIndex at hk
        simp only [Int.le_refl, if_true, Int.toNat_zero] at hk
        split at hk
        · cases hk; exact hst
        · cases hk
      · cases hst
    rw [hcomp] at hmn
    simp only [Bool.not_true, Bool.false_eq_true, if_false] at hmn
    split at hmn
    · cases hmn
    · rename_i eff he
      injection hmn with hmn
      injection hmn with hmn
      unfold State.effectiveStack at he
      have g1 : (s.streetIndex.isNone || !getB s.statuses p) = false := by rw [hidx]; simp [hsp]
      rw [if_neg (by rw [g1]; exact Bool.false_ne_true)] at he
      simp only [] at he
      split at he
      · cases he
      · injection he with he
        have key := second_ge_min cfg.n
          (fun j => if getB s.statuses j = true then some (getI s.bets j + getI s.stacks j) else none)
          p i hp hi (Ne.symm hip) (getI s.bets p + getI s.stacks p) (getI s.bets i + getI s.stacks i)
          (by simp [hsp]) (by simp [hsi])
        unfold State.playerIndices at he
        generalize (sortI (List.filterMap (fun j => if getB s.statuses j = true then
          some (getI s.bets j + getI s.stacks j) else none) (List.range cfg.n))) = srt at he key
        generalize srt.getD (srt.length - 2) 0 = second at he key
        have hbp : getI s.bets p ≤ maxI s.bets := getI_le_maxI _ _ (by omega)
        omega

/-! ### whole histories -/

/-- side condition (g) of a history: whenever a bet or raise is attempted, `CompletionBounded` holds -/
def CompletesUp (cfg : Config) (m : M) : Prop :=
  ∀ a rest, m.ctl = .opCbr a :: rest → CompletionBounded cfg m.st

/-- histories without an escaping internal exception (refused operations are part of the history) that
    satisfy (b) and (g) -/
inductive RoundReach (cfg : Config) (env : Env) : M → Prop where
  | init : RoundReach cfg env { st := setup cfg env, ctl := [.beginAnte] }
  | step {m} : RoundReach cfg env m → CleanStep cfg env m → NoCollectWhenFrozen m → CompletesUp cfg m →
      RoundReach cfg env (step cfg env m)
  | op {m} (o : Ctl) : RoundReach cfg env m → m.ctl = [] → o.isK = false → o.phase? = none → o ≠ .endHand →
      RoundReach cfg env { m with ctl := [o], err := none, warned := false }

theorem RoundReach.reach {m : M} (h : RoundReach cfg env m) : Reach cfg env m := by
  induction h with
  | init => exact .init
  | step _ _ _ _ ih => exact .step ih
  | op o _ hq hk hp he ih => exact .op o ih hq hk hp he

theorem ledger_clean (hcfg : CfgOk cfg) (m : M) (hL : Ledger cfg m.st) (hb : NoCollectWhenFrozen m)
    (hc : CleanStep cfg env m) : Ledger cfg (step cfg env m).st := by
  rcases hc with he | ⟨_, _, _, _, hsame⟩
  · exact C01_step hcfg m hL hb he
  · rw [hsame]; exact hL

theorem raiseUp_of (hcfg : CfgOk cfg) {m : M} (hL : Ledger cfg m.st) (hR : RoundInv cfg m)
    (hg : CompletesUp cfg m) : RaiseUp cfg m := by
  intro a rest amt hctl hv
  have hcan : ∀ p tail, m.st.actors = p :: tail → p < cfg.n ∧ getB m.st.statuses p = true := by
    intro p tail ha
    have := (core_of_cons hR ha).can p (by rw [ha]; exact List.mem_cons_self)
    refine ⟨this.1, ?_⟩
    have h2 := this.2
    unfold State.canAct at h2
    simp only [Bool.and_eq_true] at h2
    exact h2.1
  cases hcs : m.st.completionStatus with
  | true => exact raise_up_completion hcfg hL.lenBets hcan hv hcs (hg a rest hctl)
  | false => exact raise_up_plain hcfg hL.lenBets hcan hv hcs

theorem RoundReach.invs (hcfg : CfgOk cfg) {m : M} (h : RoundReach cfg env m) :
    Ledger cfg m.st ∧ RoundInv cfg m := by
  induction h with
  | init =>
    exact ⟨C01_init hcfg env, RoundInv.of_empty rfl (by intro _ _ _ h; cases h)⟩
  | step hr hc hb hg ih =>
    obtain ⟨hL, hR⟩ := ih
    exact ⟨ledger_clean hcfg _ hL hb hc,
      round_step hcfg _ (C07_phase_order hr.reach) hL hc (raiseUp_of hcfg hL hR hg) hR⟩
  | op o hr hq hk hp he ih =>
    obtain ⟨hL, hR⟩ := ih
    refine ⟨hL, hR.of_quiet rfl ?_⟩
    intro op st r hc
    simp only [List.cons.injEq] at hc
    rw [hc.1] at hp; cases hp

/-- **whose turn**: while somebody is still to act, the queue lists players who are in the hand and not
    all-in, nobody twice, in clockwise order -/
theorem C03_queue (hcfg : CfgOk cfg) {m : M} (h : RoundReach cfg env m) :
    m.st.actors.Nodup ∧ (∀ a ∈ m.st.actors, a < cfg.n ∧ getB m.st.statuses a = true ∧ getI m.st.stacks a ≠ 0) ∧
    ∃ o, m.st.actors.Sublist (rotatedRange cfg.n o) := by
  cases ha : m.st.actors with
  | nil => exact ⟨List.nodup_nil, fun a h => (by cases h), 0, List.nil_sublist _⟩
  | cons p tail =>
    have core := core_of_cons (h.invs hcfg).2 ha
    rw [← ha]
    refine ⟨core.nodup, fun a haa => ?_, core.clockwise⟩
    have := core.can a haa
    have h2 := this.2
    unfold State.canAct at h2
    simp only [Bool.and_eq_true, bne_iff_ne] at h2
    exact ⟨this.1, h2.1, h2.2⟩

/-- **nobody is passed over**: while somebody is still to act, every other player in the hand who is not
    all-in has either matched the largest bet (and no bring-in is pending), or already has in front of him
    at least as much as anybody else in the hand could ever put in -/
theorem C03_waiting (hcfg : CfgOk cfg) {m : M} (h : RoundReach cfg env m) (hne : m.st.actors ≠ [])
    (i : Nat) (hi : i < cfg.n) (hs : getB m.st.statuses i = true) (hk : getI m.st.stacks i ≠ 0)
    (hq : i ∉ m.st.actors) :
    Covers cfg m.st i ∨ (getI m.st.bets i = maxI m.st.bets ∧ m.st.bringInStatus = false) :=
  ((h.invs hcfg).2.on hne).matched i hi (by unfold State.canAct; simp [hs, hk]) hq

/-- **a round ends only when all have responded to the last bet**: when `_update_betting` decides that the
    round is over, a single player is left in the hand, or every player in the hand who is not all-in has
    matched the largest bet or covers everybody else -/
theorem C03_round_ends (hcfg : CfgOk cfg) {m : M} (h : RoundReach cfg env m) {op : Option Operation}
    {st : Bool} {rest : List Ctl} (hctl : m.ctl = .updBet op st :: rest)
    (hend : (step cfg env m).ctl = .endBet :: rest) :
    m.st.liveCount ≤ 1 ∨ ∀ i, i < cfg.n → getB m.st.statuses i = true → getI m.st.stacks i ≠ 0 →
      Covers cfg m.st i ∨ getI m.st.bets i = maxI m.st.bets := by
  obtain ⟨hL, hR⟩ := h.invs hcfg
  obtain ⟨core, hst⟩ := hR.upd op st rest hctl
  unfold step at hend; rw [hctl] at hend; simp only [] at hend
  have hlog : ∀ o, (M.log m.st o).actors = m.st.actors ∧ (M.log m.st o).liveCount = m.st.liveCount := by
    intro o; cases o <;> exact ⟨rfl, rfl⟩
  split at hend
  · rename_i hcond
    rw [(hlog op).1, (hlog op).2] at hcond
    simp only [Bool.or_eq_true, decide_eq_true_eq] at hcond
    rcases hcond with (hemp | hlive) | hstat
    · right
      intro i hi hs hk
      have hq : i ∉ m.st.actors := by
        cases ha : m.st.actors with
        | nil => intro h; cases h
        | cons a as => rw [ha] at hemp; cases hemp
      rcases core.matched i hi (by unfold State.canAct; simp [hs, hk]) hq with h | h
      · exact Or.inl h
      · exact Or.inr h.1
    · exact Or.inl hlive
    · right
      obtain ⟨a, ha, hmax⟩ := hst hstat
      intro i hi hs hk
      by_cases hia : i = a
      · right
        subst hia
        have := getI_le_maxI m.st.bets i (by rw [hL.lenBets]; exact hi)
        omega
      · have hq : i ∉ m.st.actors := by rw [ha]; simpa using hia
        rcases core.matched i hi (by unfold State.canAct; simp [hs, hk]) hq with h | h
        · exact Or.inl h
        · exact Or.inr h.1
  · exfalso
    simp only [M.cont, List.nil_append] at hend
    exact List.cons_ne_self _ _ hend.symm

/-! ### the premises are met: a heads-up hand with every automation on runs to the first betting decision;
    the small blind calls, the big blind checks, and `_update_betting` ends the round -/

theorem RoundReach.steps : ∀ (k : Nat) {m : M}, RoundReach cfg env m →
    (∀ j, j < k → (M.step cfg env (stepN cfg env j m)).err = none ∧
      ((stepN cfg env j m).st.pots_.isSome = true → (stepN cfg env j m).st.betCollection = false) ∧
      (stepN cfg env j m).st.completionStatus = false) → RoundReach cfg env (stepN cfg env k m)
  | 0, _, h, _ => h
  | k + 1, m, h, hc => by
    obtain ⟨h1, h2, h3⟩ := hc 0 (Nat.succ_pos k)
    have hs : RoundReach cfg env (M.step cfg env m) :=
      .step h (Or.inl h1) h2 (fun _ _ _ hcs => by
        have h3' : m.st.completionStatus = false := h3
        rw [h3'] at hcs; cases hcs)
    exact RoundReach.steps k hs (fun j hj => hc (j + 1) (Nat.succ_lt_succ hj))

def roundCfg : Config := { exampleCfg with autos := Automation.all }
def roundA : M := stepN roundCfg liveEnv 46 { st := setup roundCfg liveEnv, ctl := [.beginAnte] }
def roundB : M := { roundA with ctl := [.opCall], err := none, warned := false }
def roundC : M := stepN roundCfg liveEnv 2 roundB
def roundD : M := { roundC with ctl := [.opCall], err := none, warned := false }
def roundE : M := stepN roundCfg liveEnv 1 roundD

example : CfgOk roundCfg := ⟨by decide, by decide⟩

example : RoundReach roundCfg liveEnv roundE ∧ roundA.st.actors = [1, 0] ∧ roundC.st.actors = [0] ∧
    roundE.ctl = [.updBet (some (.checkingOrCalling 0 0)) false] ∧
    (step roundCfg liveEnv roundE).ctl = [.endBet] := by
  have hA : RoundReach roundCfg liveEnv roundA := RoundReach.steps 46 .init (by decide +kernel)
  have hB : RoundReach roundCfg liveEnv roundB := .op _ hA (by decide +kernel) rfl rfl (by decide)
  have hC : RoundReach roundCfg liveEnv roundC := RoundReach.steps 2 hB (by decide +kernel)
  have hD : RoundReach roundCfg liveEnv roundD := .op _ hC (by decide +kernel) rfl rfl (by decide)
  have hE : RoundReach roundCfg liveEnv roundE := RoundReach.steps 1 hD (by decide +kernel)
  exact ⟨hE, by decide +kernel, by decide +kernel, by decide +kernel, by decide +kernel⟩

end PK
