/-
  C05 ∘ C04 — **the hand a player is credited with is the best five of his cards under the rules of
  poker**.  `C05_standard` says `from_game` returns a valid five-card selection of maximal table
  strength (or none when no selection is valid); `PK.Properties.C04Table` says which selections are
  valid and that table strength is the order of the rules; together, for hole and board cards that are
  distinct known cards of the 52-card deck (any numbers of them — Texas hold'em: 2 + 3…5; stud and razz:
  7 + 0; draw: 5 + 0):

  * `C05_best_by_rules`        StandardHighHand (hold'em, stud, five-card draw) and StandardLowHand
                               (deuce-to-seven): the hand returned is five of the cards, and no five of
                               the cards rank strictly above it under `PK.Spec.standardKey` (strictly
                               below, for the low type); there always is one when there are five cards;
  * `C05_short_deck_by_rules`  ShortDeckHoldemHand, for cards of the ranks 6 … A;
  * `C05_razz_by_rules`        RegularLowHand: no five of the cards make a lower ace-to-five hand;
  * `C05_eight_by_rules`       EightOrBetterLowHand: no hand exactly when no five of the cards qualify
                               (five different ranks, eight or lower, ace low); otherwise the lowest
                               qualifying five.
  All four are instances of `best_by_rules`.
-/
import PK.Properties.C05
import PK.Properties.C04Table
namespace PK
open PK.Spec

/-- distinct known cards of the 52-card deck -/
structure DeckCards (cs : List Card) : Prop where
  nodup : cs.Nodup
  known : ∀ c ∈ cs, c.rank < 13 ∧ c.suit < 4

theorem DeckCards.five {cs c : List Card} (h : DeckCards cs) (hs : c.Sublist cs) (hl : c.length = 5) :
    FiveCards c :=
  ⟨hl, hs.nodup h.nodup, fun x hx => h.known x (hs.subset hx)⟩

theorem mkHand_cards {T : Tables} {ht : HandType} {cs : List Card} {h : Hand}
    (hm : mkHand T ht cs = .ok h) : h.cards = cs := by
  unfold mkHand at hm
  split at hm
  · cases hm
  · cases hm
  · split at hm
    · cases hm
    · split at hm
      · cases hm; rfl
      · cases hm

/-- **generic**: a hand type that picks the best five cards (`CombinationHand.from_game`), for which the
    constructor accepts exactly the admissible five-card hands (`P`) and orders them by `key` (smaller
    index = smaller key), returns the admissible five cards that the key ranks best — greatest for a high
    type, least for a low type — and nothing exactly when no five of the cards are admissible -/
theorem best_by_rules (ht : HandType) (hcc : ht.cardCount = 5) (key : List Card → List Nat)
    (P : List Card → Prop)
    (hacc : ∀ a b, FiveCards a → FiveCards b → P a → P b →
      ∃ x y, mkHand Tables.build ht a = .ok x ∧ mkHand Tables.build ht b = .ok y ∧
        (x.entry.index < y.entry.index ↔ lexLt (key a) (key b) = true))
    (hrej : ∀ a, FiveCards a → ¬ P a → mkHand Tables.build ht a = .error .valueError)
    (hole board : List Card) (hd : DeckCards (hole ++ board)) :
    (fromGameCombination Tables.build ht hole board = .error .valueError ↔
      ∀ c : List Card, c.Sublist (hole ++ board) → c.length = 5 → ¬ P c) ∧
    (∀ h, fromGameCombination Tables.build ht hole board = .ok h →
      h.cards.Sublist (hole ++ board) ∧ h.cards.length = 5 ∧ P h.cards ∧
      ∀ c : List Card, c.Sublist (hole ++ board) → c.length = 5 → P c →
        (if ht.low then lexLt (key c) (key h.cards) else lexLt (key h.cards) (key c)) = false) ∧
    fromGameCombination Tables.build ht hole board ≠ .error .keyError := by
  have hk : Known (hole ++ board) := fun c hc => (hd.known c hc).1
  obtain ⟨hnone, hbest, hnk⟩ := C05_standard ht Tables.build hole board hk
  rw [hcc] at hnone hbest
  have five_of : ∀ c ∈ combinations (hole ++ board) 5, FiveCards c := by
    intro c hc
    obtain ⟨hs, hl5⟩ := C05_combos _ _ c hc
    exact hd.five hs hl5
  have mem_of : ∀ c : List Card, c.Sublist (hole ++ board) → c.length = 5 →
      c ∈ combinations (hole ++ board) 5 := by
    intro c hs hl
    have := C05_combos_complete _ _ hs
    rw [hl] at this; exact this
  have notP_of_err : ∀ c ∈ combinations (hole ++ board) 5,
      mkHand Tables.build ht c = .error .valueError → ¬ P c := by
    intro c hc herr hp
    obtain ⟨x, _, hx, _⟩ := hacc c c (five_of c hc) (five_of c hc) hp hp
    rw [herr] at hx; cases hx
  refine ⟨?_, ?_, hnk⟩
  · rw [hnone]
    constructor
    · intro hall c hs hl
      exact notP_of_err c (mem_of c hs hl) (hall c (mem_of c hs hl))
    · intro hall c hc
      obtain ⟨hs, hl5⟩ := C05_combos _ _ c hc
      exact hrej c (five_of c hc) (hall c hs hl5)
  · intro h hres
    obtain ⟨⟨c, hc, hmk⟩, hmax⟩ := hbest h hres
    have hcards := mkHand_cards hmk
    obtain ⟨hs, hl5⟩ := C05_combos _ _ c hc
    have hPc : P c := by
      by_contra hn
      rw [hrej c (five_of c hc) hn] at hmk; cases hmk
    refine ⟨by rw [hcards]; exact hs, by rw [hcards]; exact hl5, by rw [hcards]; exact hPc, ?_⟩
    intro c' hs' hl' hP'
    have hc' := mem_of c' hs' hl'
    rw [hcards]
    cases hlow : ht.low with
    | false =>
      simp only [Bool.false_eq_true, if_false]
      obtain ⟨x, y, hx, hy, hlt⟩ := hacc c c' (five_of c hc) (five_of c' hc') hPc hP'
      rw [hmk] at hx; cases hx
      have hle := hmax c' hc' y hy
      cases hl2 : lexLt (key c) (key c') with
      | false => rfl
      | true =>
        have := hlt.2 hl2
        simp only [score, hlow, Bool.false_eq_true, if_false] at hle
        omega
    | true =>
      simp only [if_true]
      obtain ⟨y, x, hy, hx, hlt⟩ := hacc c' c (five_of c' hc') (five_of c hc) hP' hPc
      rw [hmk] at hx; cases hx
      have hle := hmax c' hc' y hy
      cases hl2 : lexLt (key c') (key c) with
      | false => rfl
      | true =>
        have := hlt.2 hl2
        simp only [score, hlow, if_true] at hle
        omega

/-- the key of five cards under the standard rules -/
def standardKeyOf (cs : List Card) : List Nat := standardKey (cs.map (·.rank)) (areSuited cs)
def shortDeckKeyOf (cs : List Card) : List Nat := shortDeckKey (cs.map (·.rank)) (areSuited cs)
def razzKeyOf (cs : List Card) : List Nat := regularLowKey (cs.map (·.rank)) (areSuited cs)
def eightKeyOf (cs : List Card) : List Nat := eightOrBetterKey (cs.map (·.rank)) (areSuited cs)

/-- **hold'em, stud, draw (high) and deuce-to-seven (low)** -/
theorem C05_best_by_rules (ht : HandType) (hht : ht = .standardHigh ∨ ht = .standardLow)
    (hole board : List Card) (hd : DeckCards (hole ++ board)) (hlen : 5 ≤ (hole ++ board).length) :
    ∃ h, fromGameCombination Tables.build ht hole board = .ok h ∧
      h.cards.Sublist (hole ++ board) ∧ h.cards.length = 5 ∧
      ∀ c : List Card, c.Sublist (hole ++ board) → c.length = 5 →
        (if ht.low then lexLt (standardKeyOf c) (standardKeyOf h.cards)
         else lexLt (standardKeyOf h.cards) (standardKeyOf c)) = false := by
  have hl : ht.lookup = .standard := by rcases hht with rfl | rfl <;> rfl
  have hcc : ht.cardCount = 5 := by rcases hht with rfl | rfl <;> rfl
  obtain ⟨hnone, hbest, hnk⟩ := best_by_rules ht hcc standardKeyOf (fun _ => True)
    (fun a b ha hb _ _ => by
      obtain ⟨x, y, hx, hy, _, hlt, _⟩ := C04_standard_table ht hl a b ha hb
      exact ⟨x, y, hx, hy, hlt⟩)
    (fun a _ hn => absurd trivial hn) hole board hd
  cases hres : fromGameCombination Tables.build ht hole board with
  | error e =>
    exfalso
    cases e with
    | keyError => exact hnk hres
    | valueError =>
      have h5 : ((hole ++ board).take 5).length = 5 := by rw [List.length_take]; omega
      exact (hnone.1 hres) _ (List.take_sublist 5 _) h5 trivial
  | ok h =>
    obtain ⟨a, b, _, d⟩ := hbest h hres
    exact ⟨h, rfl, a, b, fun c hs hl5 => d c hs hl5 trivial⟩

/-- **short-deck hold'em** -/
theorem C05_short_deck_by_rules (hole board : List Card) (hd : DeckCards (hole ++ board))
    (hshort : ∀ c ∈ hole ++ board, isShortRank c.rank = true) (hlen : 5 ≤ (hole ++ board).length) :
    ∃ h, fromGameCombination Tables.build .shortDeck hole board = .ok h ∧
      h.cards.Sublist (hole ++ board) ∧ h.cards.length = 5 ∧
      ∀ c : List Card, c.Sublist (hole ++ board) → c.length = 5 →
        lexLt (shortDeckKeyOf h.cards) (shortDeckKeyOf c) = false := by
  obtain ⟨hnone, hbest, hnk⟩ := best_by_rules .shortDeck rfl shortDeckKeyOf
    (fun a => ∀ c ∈ a, isShortRank c.rank = true)
    (fun a b ha hb pa pb => by
      obtain ⟨x, y, hx, hy, _, hlt, _⟩ := C04_short_deck_table a b ha hb pa pb
      exact ⟨x, y, hx, hy, hlt⟩)
    (fun a ha hn => C04_short_deck_rejects a ha (by
      by_contra hall
      apply hn
      intro c hc
      cases hsr : isShortRank c.rank with
      | true => rfl
      | false => exact absurd ⟨c, hc, hsr⟩ hall)) hole board hd
  have sub_short : ∀ c : List Card, c.Sublist (hole ++ board) → ∀ x ∈ c, isShortRank x.rank = true :=
    fun c hs x hx => hshort x (hs.subset hx)
  cases hres : fromGameCombination Tables.build .shortDeck hole board with
  | error e =>
    exfalso
    cases e with
    | keyError => exact hnk hres
    | valueError =>
      have h5 : ((hole ++ board).take 5).length = 5 := by rw [List.length_take]; omega
      exact (hnone.1 hres) _ (List.take_sublist 5 _) h5 (sub_short _ (List.take_sublist 5 _))
  | ok h =>
    obtain ⟨a, b, _, d⟩ := hbest h hres
    exact ⟨h, rfl, a, b, fun c hs hl5 => d c hs hl5 (sub_short c hs)⟩

/-- **razz** -/
theorem C05_razz_by_rules (hole board : List Card) (hd : DeckCards (hole ++ board))
    (hlen : 5 ≤ (hole ++ board).length) :
    ∃ h, fromGameCombination Tables.build .regularLow hole board = .ok h ∧
      h.cards.Sublist (hole ++ board) ∧ h.cards.length = 5 ∧
      ∀ c : List Card, c.Sublist (hole ++ board) → c.length = 5 →
        lexLt (razzKeyOf c) (razzKeyOf h.cards) = false := by
  obtain ⟨hnone, hbest, hnk⟩ := best_by_rules .regularLow rfl razzKeyOf (fun _ => True)
    (fun a b ha hb _ _ => by
      obtain ⟨x, y, hx, hy, _, hlt, _⟩ := C04_regular_low_table a b ha hb
      exact ⟨x, y, hx, hy, hlt⟩)
    (fun a _ hn => absurd trivial hn) hole board hd
  cases hres : fromGameCombination Tables.build .regularLow hole board with
  | error e =>
    exfalso
    cases e with
    | keyError => exact hnk hres
    | valueError =>
      have h5 : ((hole ++ board).take 5).length = 5 := by rw [List.length_take]; omega
      exact (hnone.1 hres) _ (List.take_sublist 5 _) h5 trivial
  | ok h =>
    obtain ⟨a, b, _, d⟩ := hbest h hres
    exact ⟨h, rfl, a, b, fun c hs hl5 => d c hs hl5 trivial⟩

/-- **eight-or-better low** (stud hi-lo): no low exactly when no five of the cards qualify; otherwise the
    lowest qualifying five -/
theorem C05_eight_by_rules (hole board : List Card) (hd : DeckCards (hole ++ board)) :
    (fromGameCombination Tables.build .eightOrBetterLow hole board = .error .valueError ↔
      ∀ c : List Card, c.Sublist (hole ++ board) → c.length = 5 → ¬ QualifiesEight c) ∧
    (∀ h, fromGameCombination Tables.build .eightOrBetterLow hole board = .ok h →
      h.cards.Sublist (hole ++ board) ∧ h.cards.length = 5 ∧ QualifiesEight h.cards ∧
      ∀ c : List Card, c.Sublist (hole ++ board) → c.length = 5 → QualifiesEight c →
        lexLt (eightKeyOf c) (eightKeyOf h.cards) = false) ∧
    fromGameCombination Tables.build .eightOrBetterLow hole board ≠ .error .keyError :=
  best_by_rules .eightOrBetterLow rfl eightKeyOf QualifiesEight
    (fun a b ha hb pa pb => by
      obtain ⟨x, y, hx, hy, hlt, _⟩ := C04_eight_table .eightOrBetterLow rfl a b ha hb pa pb
      exact ⟨x, y, hx, hy, hlt⟩)
    (fun a ha hn => C04_eight_rejects .eightOrBetterLow rfl a ha hn) hole board hd

end PK
