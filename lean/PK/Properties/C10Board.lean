/-
  C10, the boards over whole histories — **each street puts exactly the prescribed number of community cards on the
  boards**, in aggregate over the boards:

  * `board_beginDeal`        `_begin_dealing` puts nothing on the table and owes every one of the `b` starting
                             boards the street's community cards (plus, when the deck cannot cover a stud street,
                             the hole cards that become shared board cards);
  * `board_dealBoard`        `deal_board` moves cards from "owed" to the table: cards on the boards + cards still
                             owed is unchanged (the cards go to consecutive rows, the count of the first board
                             with cards owed is decreased by as many);
  * `C10_board_conservation` no other micro-step touches either (`bdv_frame`, PK/Proofs/BoardFrame.lean), so apart
                             from `_begin_dealing` "on the boards + owed" is invariant along every step that does
                             not end in an escaping exception;
  * `C10_board_run`, `C10_board_street`   hence from a `_begin_dealing` that owed `d` cards to the moment nothing is
                             owed any more (betting starts only then: `C10_betting_after_dealing`) exactly `d` cards
                             have been put on the boards.
  Per board (rather than in aggregate) the counts are `C10_board_count`'s: every `deal_board` serves the first
  board with cards owed and at most what it is owed.
-/
import PK.Properties.C10
import PK.Proofs.CardsOps
import PK.Proofs.BoardFrame
import PK.Properties.C07Live
namespace PK
open State M

variable {cfg : Config} {env : Env}

/-- community cards on the table -/
def boardTotal (s : State) : Int := (s.board.flatten.length : Int)

/-- board cards still owed this street, all boards together -/
def boardOwed (s : State) : Int := sumI s.boardDealing

theorem bdv_total {s s' : State} (h : bdv s' = bdv s) :
    boardTotal s' + boardOwed s' = boardTotal s + boardOwed s := by
  have h1 : s'.board = s.board := congrArg BDV.board h
  have h2 : s'.boardDealing = s.boardDealing := congrArg BDV.owed h
  unfold boardTotal boardOwed; rw [h1, h2]

theorem idxOf_getD {l : List Int} {v : Int} (h : v ∈ l) : l.idxOf v < l.length ∧ l.getD (l.idxOf v) 0 = v := by
  have hlt := List.idxOf_lt_length_iff.2 h
  refine ⟨hlt, ?_⟩
  rw [List.getD_eq_getElem?_getD, List.getElem?_eq_getElem hlt]
  simp [List.getElem_idxOf hlt]

/-- **`deal_board` moves cards from "owed" to the table**: the cards on the boards and the cards still owed
    add up to what they added up to before -/
theorem board_dealBoard (m : M) (arg : CardsArg) (rest : List Ctl) (hctl : m.ctl = .opDealBoard arg :: rest)
    (herr : (step cfg env m).err = none) :
    boardTotal (step cfg env m).st + boardOwed (step cfg env m).st = boardTotal m.st + boardOwed m.st := by
  unfold step at herr ⊢
  rw [hctl] at herr ⊢
  simp only [] at herr ⊢
  cases hv : m.st.verifyBoardDealing cfg env arg with
  | error e => rfl
  | ok v =>
    simp only [hv] at herr ⊢
    obtain ⟨bdc0, hbdc, hmem, _, _, _, _⟩ := C10_board_count m.st arg v hv
    split
    · rename_i bdc si st hb hsi hst
      rw [hb, hsi, hst] at herr
      simp only [] at herr
      rw [hbdc] at hb; cases hb
      split
      · rename_i e hr
        rw [hr] at herr
        simp at herr
      · rename_i b idx hr
        have hfold := board_fold_perm v.val _ _ b idx hr
        have hcons := bdv_consume m.st env v.val
        have h1 : (m.st.consumeCards env v.val).board = m.st.board := congrArg BDV.board hcons
        have h2 : (m.st.consumeCards env v.val).boardDealing = m.st.boardDealing := congrArg BDV.owed hcons
        simp only [cont_st]
        unfold boardTotal boardOwed
        simp only []
        rw [h2]
        obtain ⟨hlt, hget⟩ := idxOf_getD hmem
        rw [sumI_set _ _ _ hlt]
        have hlen := hfold.length_eq
        rw [h1] at hlen
        simp only [List.length_append] at hlen
        unfold getI
        rw [hget, hlen]
        push_cast
        omega
    · rfl

theorem sumI_replicate (n : Nat) (x : Int) : sumI (List.replicate n x) = n * x := by
  induction n with
  | zero => simp
  | succ k ih =>
    simp only [List.replicate_succ, sumI_cons, ih]
    push_cast
    rw [Int.add_mul, Int.one_mul]; omega

theorem sumI_map_add_const (l : List Int) (c : Int) : sumI (l.map (· + c)) = sumI l + l.length * c := by
  induction l with
  | nil => simp
  | cons x xs ih =>
    simp only [List.map_cons, sumI_cons, ih, List.length_cons]
    push_cast
    rw [Int.add_mul, Int.one_mul]; omega

/-- **`_begin_dealing` puts nothing on the table and owes every board the street's cards**: the prescribed
    number of community cards — plus, when the deck cannot cover a stud street, the hole cards that become shared
    board cards -/
theorem board_beginDeal (m : M) (rest : List Ctl) (hctl : m.ctl = .beginDeal :: rest)
    (herr : (step cfg env m).err = none) :
    (step cfg env m).st.board = m.st.board ∧
    ∃ st, (step cfg env m).st.street cfg = some st ∧
      (boardOwed (step cfg env m).st = cfg.startingBoardCount.toNat * st.board ∨
       boardOwed (step cfg env m).st = cfg.startingBoardCount.toNat * (st.board + st.hole.length)) := by
  generalize hs : step cfg env m = m' at herr ⊢
  unfold step at hs; rw [hctl] at hs; simp only [] at hs
  cases hsx : m.st.streetIndex <;> simp only [hsx] at hs
  all_goals (
  split at hs
  · subst hs; simp [M.raise] at herr
  · split at hs
    · rename_i si st hsi hst
      split at hs
      · subst hs; simp [M.raise] at herr
      · split at hs
        · subst hs; simp [M.raise] at herr
        · subst hs
          simp only [cont_st]
          have hstreet : ∀ s' : State, s'.streetIndex = some si → s'.street cfg = some st := by
            intro s' hs'
            rw [← hst]; unfold State.street; rw [hs']; cases hsi; rfl
          unfold dealSetup
          simp only []
          split
          · refine ⟨rfl, st, hstreet _ hsi, Or.inr ?_⟩
            unfold boardOwed
            simp only []
            rw [sumI_map_add_const, sumI_replicate, List.length_replicate, Int.mul_add]
          · refine ⟨rfl, st, hstreet _ hsi, Or.inl ?_⟩
            unfold boardOwed
            simp only []
            rw [sumI_replicate]
    · subst hs; simp [M.raise] at herr)

/-- **conservation of board cards**: apart from `_begin_dealing`, no micro-step that does not end in an escaping
    exception changes "cards on the boards + cards still owed to them" -/
theorem C10_board_conservation (m : M) (hnb : ∀ rest, m.ctl ≠ .beginDeal :: rest)
    (herr : (step cfg env m).err = none) :
    boardTotal (step cfg env m).st + boardOwed (step cfg env m).st = boardTotal m.st + boardOwed m.st := by
  cases hctl : m.ctl with
  | nil => unfold step; rw [hctl]
  | cons f rest =>
    by_cases hw : f.writesBoard = false
    · exact bdv_total (bdv_frame m f rest hctl hw)
    · cases f <;> first | exact absurd rfl hw | skip
      case beginDeal => exact absurd hctl (hnb rest)
      case opDealBoard arg => exact board_dealBoard m arg rest hctl herr

/-- … along a run -/
theorem C10_board_run : ∀ (k : Nat) (m : M),
    (∀ j, j < k → (∀ rest, (stepN cfg env j m).ctl ≠ .beginDeal :: rest) ∧
      (M.step cfg env (stepN cfg env j m)).err = none) →
    boardTotal (stepN cfg env k m).st + boardOwed (stepN cfg env k m).st = boardTotal m.st + boardOwed m.st
  | 0, _, _ => rfl
  | k + 1, m, h => by
    have h0 := h 0 (Nat.succ_pos k)
    have := C10_board_run k (M.step cfg env m) (fun j hj => h (j + 1) (Nat.succ_lt_succ hj))
    rw [show stepN cfg env (k + 1) m = stepN cfg env k (M.step cfg env m) from rfl, this]
    exact C10_board_conservation m h0.1 h0.2

/-- hence: when betting starts (nothing owed any more) after a `_begin_dealing` that owed the boards `d` cards,
    exactly `d` cards have been put on the boards since -/
theorem C10_board_street (k : Nat) (m : M) (d : Int) (hd : boardOwed m.st = d)
    (h : ∀ j, j < k → (∀ rest, (stepN cfg env j m).ctl ≠ .beginDeal :: rest) ∧
      (M.step cfg env (stepN cfg env j m)).err = none)
    (hdone : boardOwed (stepN cfg env k m).st = 0) :
    boardTotal (stepN cfg env k m).st = boardTotal m.st + d := by
  have := C10_board_run (cfg := cfg) (env := env) k m h
  omega

end PK
