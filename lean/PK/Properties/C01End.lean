/-
  C01, the end of the hand — **when a hand ends nothing is left on the table**: every bet has been pulled in
  and every frozen pot has been pushed out completely, so (with `C01_zero_sum`) the payoffs add up to minus
  the rake.

  * `C01_push_step`   the frozen pots always hold exactly what the queued sub-pots add up to (`PushInv`):
                      `_begin_chips_pushing` queues sub-pots that add up to the pots (split over boards and
                      hand types, remainders to the first board / first hand type: `subPotsOfPot_sum`), each
                      push takes exactly its sub-pot out of its pot, nothing else writes either
                      (`pv_frame`).  Side condition (e): somebody is still in the hand when the pots are
                      frozen — otherwise nothing is queued and the chips stay in the pot (recorded finding
                      F12c: everybody mucks);
  * `C01_pull_step`   the chips-pulling bookkeeping (`PullInv`): while chips pulling is pending every
                      player who is not flagged has nothing in front of him; `_begin_chips_pulling` flags
                      exactly the players with chips in front of them, each pull zeroes one, and nothing
                      else can touch a bet meanwhile (every other operation is refused: it needs its own
                      phase, and only one phase is ever active — C07's invariant);
  * `C01_end_of_hand` hence, along any history without escaping exceptions and satisfying (b) and (e), when
                      `_end_hand` runs all bets are zero and all frozen pots are empty, and
  * `C01_final_zero_sum`  the payoffs of the finished hand add up to minus what was raked.
-/
import PK.Proofs.BetsFrame
import PK.Properties.C01
import PK.Properties.C07
namespace PK
open State M

variable {cfg : Config} {env : Env}

/-! ### the pots are pushed out completely -/

def PushInv (s : State) : Prop := ∀ ps, s.pots_ = some ps → potTotal ps = subTotal s.subPots

/-- (e): somebody is still in the hand when `_begin_chips_pushing` runs -/
def SomebodyLeft (m : M) : Prop := ∀ rest, m.ctl = .beginPush :: rest → 1 ≤ m.st.liveCount

theorem C01_push_step (hc : CfgOk cfg) (m : M) (hL : Ledger cfg m.st) (h : PushInv m.st)
    (hs : SomebodyLeft m) (herr : (step cfg env m).err = none) : PushInv (step cfg env m).st := by
  cases hctl : m.ctl with
  | nil => unfold step; rw [hctl]; exact h
  | cons f rest =>
    by_cases hf : f.writesPots = false
    · have e := pv_frame (cfg := cfg) (env := env) m f rest hctl hf
      have e1 : (step cfg env m).st.pots_ = m.st.pots_ := congrArg PV.pots e
      have e2 : (step cfg env m).st.subPots = m.st.subPots := congrArg PV.subs e
      intro ps hps
      rw [e1] at hps; rw [e2]; exact h ps hps
    · cases f <;> first | exact absurd rfl hf | skip
      case beginPush =>
        unfold step at herr ⊢; rw [hctl] at herr ⊢; simp only [] at herr ⊢
        split
        · exact h
        · rename_i hg
          rw [if_neg hg] at herr
          cases hfp : freezePots cfg env m.st with
          | error se =>
            obtain ⟨s', e⟩ := se
            rw [hfp] at herr; simp at herr
          | ok s' =>
            simp only [cont_st]
            obtain ⟨ps, hps, hsum⟩ := freezePots_sum (boardCount_pos hc hL) (hs rest hctl) hfp
            intro ps' hps'
            rw [hps] at hps'; cases hps'; exact hsum
      case opPush =>
        unfold step at herr ⊢; rw [hctl] at herr ⊢; simp only [] at herr ⊢
        split
        · exact h
        · rename_i ps sp sps hver hps hsub
          simp only [hver, hps, hsub] at herr
          cases hp : pushChips cfg env m.st ps sp sps with
          | error se =>
            obtain ⟨s', e⟩ := se
            rw [hp] at herr; simp at herr
          | ok so =>
            obtain ⟨s', op⟩ := so
            simp only [cont_st]
            obtain ⟨ps', hps', hsum, hsubs⟩ := pushChips_sum hp
            intro ps'' hps''
            rw [hps'] at hps''; cases hps''
            have := h ps hps
            rw [hsub] at this
            rw [hsum, hsubs, this]
            unfold subTotal
            simp only [List.map_cons, sumI_cons]
            omega
        · exact h

/-! ### the bets are pulled in completely -/

/-- every player who is not flagged for chips pulling has nothing in front of him -/
def Quiet (cfg : Config) (s : State) : Prop :=
  ∀ i < cfg.n, getB s.chipsPulling i = false → getI s.bets i = 0

def AllZero (cfg : Config) (s : State) : Prop := ∀ i < cfg.n, getI s.bets i = 0

theorem Quiet.of_bv {s s' : State} (h : Quiet cfg s) (e : bv s' = bv s) : Quiet cfg s' := by
  have e1 : s'.bets = s.bets := congrArg BV.bets e
  have e2 : s'.chipsPulling = s.chipsPulling := congrArg BV.pulling e
  intro i hi hf; rw [e1]; rw [e2] at hf; exact h i hi hf

/-- the three frames that only the chips-pulling code pushes -/
def Ctl.pullTail : Ctl → Bool
  | .updPull _ | .endPull | .endHand => true
  | _ => false

def Ctl.pullSource : Ctl → Bool
  | .beginPull | .opPull _ | .updPull _ | .endPull => true
  | _ => false

theorem isK_not_pullTail (g : Ctl) (h : g.isK = true) : g.pullTail = false := by
  cases g <;> first | rfl | cases h

/-- a frame of the chips-pulling tail on top of the stack was put there by the chips-pulling code -/
theorem head_pullTail (m : M) (hP : PhaseInv cfg m) (f : Ctl) (rest : List Ctl) (hctl : m.ctl = f :: rest)
    (hf : f.pullSource = false) (g : Ctl) (r' : List Ctl) (hc : (step cfg env m).ctl = g :: r') :
    g.pullTail = false := by
  have htail : ∀ x ∈ rest, x.pullTail = false := fun x hx => isK_not_pullTail x (hP.tail f rest hctl x hx)
  have hrest : ∀ (fs : List Ctl), (∀ x ∈ fs, x.pullTail = false) → fs ++ rest = g :: r' → g.pullTail = false := by
    intro fs hfs he
    have : g ∈ fs ++ rest := by rw [he]; exact List.mem_cons_self
    rcases List.mem_append.1 this with h | h
    · exact hfs g h
    · exact htail g h
  cases f <;> first | (cases hf; done) | skip
  all_goals (
    unfold step at hc; rw [hctl] at hc; simp only [] at hc
    repeat' split at hc
    all_goals first
      | (simp only [M.raise] at hc; cases hc; done)
      | (simp only [M.cont] at hc
         refine hrest _ ?_ hc
         intro x hx
         simp only [List.mem_cons, List.mem_nil_iff, or_false] at hx
         rcases hx with rfl | rfl <;> rfl)
      | (simp only [M.cont] at hc
         refine hrest _ ?_ hc
         intro x hx
         simp only [List.mem_cons, List.mem_nil_iff, or_false] at hx
         first | (subst hx; rfl) | cases hx)
      | (cases hc; done)
      | (cases hc; rfl)
      | (simp only [M.cont] at hc; cases hc; rfl)
      | (simp only [M.cont, List.nil_append] at hc; cases hc; exact htail _ List.mem_cons_self)
      | (cases hc; exact htail _ List.mem_cons_self))

/-- while chips pulling is pending, every operation that could touch a bet is refused -/
theorem bv_while_pulling (m : M) (hP : PhaseInv cfg m) (hp : Phase.pull.flag m.st = true)
    (f : Ctl) (rest : List Ctl) (hctl : m.ctl = f :: rest) (hf : f.pullSource = false) :
    bv (step cfg env m).st = bv m.st := by
  by_cases hw : f.writesBets = false
  · exact bv_frame m f rest hctl hw
  · have other : ∀ X : Phase, X ≠ .pull → X.flag m.st = true → False := by
      intro X hne hX
      have := (hP.excl.of_flag hX) .pull hp
      exact hne this.symm
    cases f <;> first | exact absurd rfl hw | (cases hf; done) | skip
    case opPostAnte i =>
      unfold step; rw [hctl]; simp only []
      split
      · rfl
      · rename_i p hv
        exact (other .ante (by decide) (verifyAnte_flag hv)).elim
    case opPostBlind i =>
      unfold step; rw [hctl]; simp only []
      split
      · rfl
      · rename_i p hv
        have : Phase.blind.flag m.st = true := by
          unfold State.verifyBlindPosting at hv
          split at hv
          · cases hv
          · rename_i hfl; simpa [Phase.flag] using hfl
        exact (other .blind (by decide) this).elim
    case opCall =>
      unfold step; rw [hctl]; simp only []
      split
      · rfl
      · rename_i hv
        have : Phase.bet.flag m.st = true := by
          unfold State.verifyCheckingOrCalling at hv
          split at hv
          · cases hv
          · rename_i hfl; simpa [Phase.flag] using hfl
        exact (other .bet (by decide) this).elim
    case opBringIn =>
      unfold step; rw [hctl]; simp only []
      split
      · rfl
      · rename_i hv
        have : Phase.bet.flag m.st = true := by
          unfold State.verifyBringInPosting at hv
          split at hv
          · cases hv
          · rename_i hfl; simpa [Phase.flag] using hfl
        exact (other .bet (by decide) this).elim
    case opCbr a =>
      unfold step; rw [hctl]; simp only []
      split
      · rfl
      · rename_i x hv
        have : Phase.bet.flag m.st = true := by
          unfold State.verifyCbr at hv
          split at hv
          · cases hv
          · rename_i p hv0
            unfold State.verifyCbr0 at hv0
            split at hv0
            · cases hv0
            · rename_i hfl; simpa [Phase.flag] using hfl
        exact (other .bet (by decide) this).elim
    case opCollect =>
      unfold step; rw [hctl]; simp only []
      split
      · rfl
      · rename_i hv
        have : Phase.collect.flag m.st = true := by
          unfold State.verifyBetCollection at hv
          split at hv
          · cases hv
          · rename_i hfl; simpa [Phase.flag] using hfl
        exact (other .collect (by decide) this).elim
    case opPush =>
      unfold step; rw [hctl]; simp only []
      split
      · rfl
      · rename_i ps sp sps hver hps hsub
        have : Phase.push.flag m.st = true := by simp [Phase.flag, hsub]
        exact (other .push (by decide) this).elim
      · rfl

theorem anyB_false_getB {l : List Bool} (h : anyB l = false) (i : Nat) : getB l i = false := by
  unfold anyB at h
  rw [List.any_eq_false] at h
  unfold getB
  by_cases hi : i < l.length
  · have := h (l[i]) (List.getElem_mem _)
    simp only [List.getD, List.getElem?_eq_getElem hi, Option.getD_some]
    simpa using this
  · simp [List.getD, List.getElem?_eq_none (Nat.le_of_not_lt hi)]

/-- the chips-pulling bookkeeping of a machine configuration -/
structure PullInv (cfg : Config) (m : M) : Prop where
  flagged : Phase.pull.flag m.st = true → Quiet cfg m.st
  upd : ∀ op rest, m.ctl = .updPull op :: rest → Quiet cfg m.st
  endp : ∀ rest, m.ctl = .endPull :: rest → Quiet cfg m.st ∧ Phase.pull.flag m.st = false
  fin : ∀ rest, m.ctl = .endHand :: rest → AllZero cfg m.st

theorem pull_init : PullInv cfg ({ st := setup cfg env, ctl := [.beginAnte] } : M) := by
  refine ⟨?_, ?_, ?_, ?_⟩
  · intro h
    have : Phase.pull.flag (setup cfg env) = false := by
      simp [Phase.flag, setup, anyB]
    rw [this] at h; cases h
  · intro op rest h; simp at h
  · intro rest h; simp at h
  · intro rest h; simp at h

/-- no frame of the tail on top: only the `flagged` clause matters -/
theorem PullInv.of_quiet {m' : M} (hq : Phase.pull.flag m'.st = true → Quiet cfg m'.st)
    (hh : ∀ g r, m'.ctl = g :: r → g.pullTail = false) : PullInv cfg m' := by
  refine ⟨hq, ?_, ?_, ?_⟩
  · intro op rest h; have := hh _ _ h; cases this
  · intro rest h; have := hh _ _ h; cases this
  · intro rest h; have := hh _ _ h; cases this

theorem C01_pull_step (m : M) (hP : PhaseInv cfg m) (hL : Ledger cfg m.st) (h : PullInv cfg m) :
    PullInv cfg (step cfg env m) := by
  cases hctl : m.ctl with
  | nil =>
    have : step cfg env m = m := by unfold step; rw [hctl]
    rw [this]; exact h
  | cons f rest =>
    have htailK : ∀ x ∈ rest, x.pullTail = false :=
      fun x hx => isK_not_pullTail x (hP.tail f rest hctl x hx)
    have rest_head : ∀ g r, rest = g :: r → g.pullTail = false :=
      fun g r e => htailK g (e ▸ List.mem_cons_self)
    by_cases hsrc : f.pullSource = false
    · -- a frame from outside the chips-pulling code
      apply PullInv.of_quiet
      · intro hflag'
        by_cases hp : Phase.pull.flag m.st = true
        · exact (h.flagged hp).of_bv (bv_while_pulling m hP hp f rest hctl hsrc)
        · -- the flags were all clear; a frame outside the pulling code does not set them
          exfalso
          have hw : f.writesBets = false ∨ f.writesBets = true := by cases f.writesBets <;> simp
          have hflags : (step cfg env m).st.chipsPulling = m.st.chipsPulling := by
            rcases hw with hw | hw
            · exact congrArg BV.pulling (bv_frame m f rest hctl hw)
            · cases f <;> first | (cases hw; done) | (cases hsrc; done) | skip
              case opPostAnte i => unfold step; rw [hctl]; simp only []; (repeat' split) <;> rfl
              case opPostBlind i => unfold step; rw [hctl]; simp only []; (repeat' split) <;> rfl
              case opCall => unfold step; rw [hctl]; simp only []; (repeat' split) <;> rfl
              case opBringIn => unfold step; rw [hctl]; simp only []; (repeat' split) <;> rfl
              case opCbr a => unfold step; rw [hctl]; simp only []; (repeat' split) <;> rfl
              case opCollect =>
                unfold step; rw [hctl]; simp only []
                (repeat' split) <;> first | rfl | skip
                simp only [cont_st]
                unfold collectBets
                simp only []
                have key : ∀ (cut : Int) (ps : List Nat) (s0 : State) (b0 : List Int),
                    (ps.foldl (refundStep cut) (s0, b0)).1.chipsPulling = s0.chipsPulling := by
                  intro cut ps
                  induction ps with
                  | nil => intro s0 b0; rfl
                  | cons i ps ih =>
                    intro s0 b0
                    simp only [List.foldl_cons]
                    by_cases hgt : getI s0.bets i > cut
                    · rw [refundStep_pos hgt, ih]
                    · rw [refundStep_neg hgt, ih]
                split
                · exact (show ({ (List.foldl (refundStep _) _ _).1 with bets := _ } : State).chipsPulling =
                    (List.foldl (refundStep _) _ _).1.chipsPulling from rfl).trans (key _ _ _ _)
                · rfl
              case opPush =>
                unfold step; rw [hctl]; simp only []
                split
                · rfl
                · rename_i ps sp sps _ _ _
                  have shape := pushChips_shape (cfg := cfg) (env := env) m.st ps sp sps
                  cases hpc : pushChips cfg env m.st ps sp sps with
                  | error se =>
                    obtain ⟨s', e⟩ := se
                    rcases shape s' (Or.inr ⟨e, hpc⟩) with rfl | ⟨b, p, rfl⟩ <;> rfl
                  | ok so =>
                    obtain ⟨s', op⟩ := so
                    rcases shape s' (Or.inl ⟨op, hpc⟩) with rfl | ⟨b, p, rfl⟩ <;> rfl
                · rfl
          simp only [Phase.flag] at hflag' hp
          rw [hflags] at hflag'
          exact hp hflag'
      · intro g r hc
        exact head_pullTail m hP f rest hctl hsrc g r hc
    · -- the chips-pulling code itself
      cases f <;> first | exact absurd rfl hsrc | skip
      case beginPull =>
        unfold step; rw [hctl]; simp only []
        split
        · apply PullInv.of_quiet
          · intro hfl; exact h.flagged hfl
          · intro g r hc; simp [M.raise] at hc
        · have hq : Quiet cfg { m.st with chipsPulling := (playerIndices cfg).map fun i => decide (getI m.st.bets i > 0) } := by
            intro i hi hfl
            simp only at hfl ⊢
            have : getB ((playerIndices cfg).map fun i => decide (getI m.st.bets i > 0)) i = decide (getI m.st.bets i > 0) := by
              simp [getB, playerIndices, List.getD, hi]
            rw [this] at hfl
            have h0 := hL.nonnegBets i hi
            have : ¬ getI m.st.bets i > 0 := by simpa using hfl
            omega
          refine ⟨fun _ => hq, ?_, ?_, ?_⟩
          · intro op r hc; exact hq
          · intro r hc; simp [M.cont] at hc
          · intro r hc; simp [M.cont] at hc
      case updPull op =>
        have hq : Quiet cfg (M.log m.st op) := (h.upd op rest hctl).of_bv (by cases op <;> rfl)
        unfold step; rw [hctl]; simp only []
        split
        · rename_i hnone
          refine ⟨fun _ => hq, ?_, ?_, ?_⟩
          · intro op' r hc; simp [M.cont] at hc
          · intro r hc
            refine ⟨hq, ?_⟩
            simpa [Phase.flag] using hnone
          · intro r hc; simp [M.cont] at hc
        · split
          · apply PullInv.of_quiet (fun _ => hq)
            intro g r hc
            simp only [M.cont, List.singleton_append] at hc
            cases hc; rfl
          · apply PullInv.of_quiet (fun _ => hq)
            intro g r hc
            simp only [M.cont, List.nil_append] at hc
            exact rest_head g r hc
      case opPull i =>
        unfold step; rw [hctl]; simp only []
        split
        · apply PullInv.of_quiet
          · intro hfl; exact h.flagged hfl
          · intro g r hc; simp [M.raise] at hc
        · rename_i p hv
          have hflag : Phase.pull.flag m.st = true := by
            unfold State.verifyChipsPulling at hv
            split at hv
            · cases hv
            · rename_i hf; simpa [Phase.flag] using hf
          have hpn : p < cfg.n := by
            unfold State.verifyChipsPulling at hv
            cases i with
            | none =>
              simp only at hv
              split at hv
              · cases hv
              · split at hv
                · cases hv
                · split at hv
                  · cases hv
                  · rename_i hge _; cases hv; omega
            | some q =>
              simp only at hv
              split at hv
              · cases hv
              · split at hv
                · cases hv
                · split at hv
                  · cases hv
                  · rename_i hge _; cases hv; omega
          have hq0 := h.flagged hflag
          have hq : Quiet cfg { m.st with
              stacks := m.st.stacks.set p (getI m.st.stacks p + getI m.st.bets p)
              payoffs := m.st.payoffs.set p (getI m.st.payoffs p + getI m.st.bets p)
              bets := m.st.bets.set p 0
              chipsPulling := m.st.chipsPulling.set p false } := by
            intro j hj hfl
            simp only at hfl ⊢
            by_cases hjp : j = p
            · subst hjp
              unfold getI
              have : j < m.st.bets.length := by rw [hL.lenBets]; exact hj
              simp [List.getD, this]
            · have e1 : getB (m.st.chipsPulling.set p false) j = getB m.st.chipsPulling j := by
                unfold getB; simp [List.getD, List.getElem?_set_ne (Ne.symm hjp)]
              have e2 : getI (m.st.bets.set p 0) j = getI m.st.bets j := by
                unfold getI; simp [List.getD, List.getElem?_set_ne (Ne.symm hjp)]
              rw [e1] at hfl; rw [e2]; exact hq0 j hj hfl
          refine ⟨fun _ => hq, ?_, ?_, ?_⟩
          · intro op r hc; exact hq
          · intro r hc; simp [M.cont] at hc
          · intro r hc; simp [M.cont] at hc
      case endPull =>
        obtain ⟨hq, hnone⟩ := h.endp rest hctl
        unfold step; rw [hctl]; simp only []
        have hz : AllZero cfg { m.st with chipsPulling := m.st.chipsPulling.map fun _ => false } := by
          intro i hi
          simp only
          exact hq i hi (anyB_false_getB (by simpa [Phase.flag] using hnone) i)
        refine ⟨?_, ?_, ?_, ?_⟩
        · intro hfl
          simp only [Phase.flag, cont_st, anyB_map_false] at hfl
          cases hfl
        · intro op r hc; simp [M.cont] at hc
        · intro r hc; simp [M.cont] at hc
        · intro r hc; exact hz

/-! ### the whole hand -/

/-- histories without escaping exceptions that satisfy the side conditions (b) and (e) -/
inductive CleanReach (cfg : Config) (env : Env) : M → Prop where
  | init : CleanReach cfg env { st := setup cfg env, ctl := [.beginAnte] }
  | step {m} : CleanReach cfg env m → NoCollectWhenFrozen m → SomebodyLeft m →
      (step cfg env m).err = none → CleanReach cfg env (step cfg env m)
  | op {m} (o : Ctl) : CleanReach cfg env m → m.ctl = [] → o.isK = false → o.phase? = none → o ≠ .endHand →
      CleanReach cfg env { m with ctl := [o], err := none, warned := false }

theorem CleanReach.reach {m : M} (h : CleanReach cfg env m) : Reach cfg env m := by
  induction h with
  | init => exact .init
  | step _ _ _ _ ih => exact .step ih
  | op o _ hq hk hp he ih => exact .op o ih hq hk hp he

theorem CleanReach.invs (hc : CfgOk cfg) {m : M} (h : CleanReach cfg env m) :
    Ledger cfg m.st ∧ PushInv m.st ∧ PullInv cfg m := by
  induction h with
  | init =>
    refine ⟨C01_init hc env, ?_, pull_init⟩
    intro ps hps; simp [setup] at hps
  | step hr hb hs herr ih =>
    obtain ⟨hL, hPu, hPl⟩ := ih
    exact ⟨C01_step hc _ hL hb herr, C01_push_step hc _ hL hPu hs herr,
      C01_pull_step _ (C07_phase_order hr.reach) hL hPl⟩
  | op o hr hq hk hp he ih =>
    obtain ⟨hL, hPu, hPl⟩ := ih
    refine ⟨hL, hPu, ?_⟩
    apply PullInv.of_quiet
    · exact hPl.flagged
    · intro g r hcg
      simp only [List.cons.injEq] at hcg
      obtain ⟨rfl, _⟩ := hcg
      cases o <;> first | rfl | (cases hk; done) | (cases hp; done) | exact absurd rfl he

/-- **when the hand ends nothing is left on the table** -/
theorem C01_end_of_hand (hc : CfgOk cfg) {m : M} (h : CleanReach cfg env m) (rest : List Ctl)
    (hctl : m.ctl = .endHand :: rest) :
    AllZero cfg m.st ∧ ∀ ps, m.st.pots_ = some ps → potTotal ps = 0 := by
  obtain ⟨hL, hPu, hPl⟩ := h.invs hc
  refine ⟨hPl.fin rest hctl, ?_⟩
  intro ps hps
  have hclear : AllClear m.st := (C07_phase_order h.reach).head _ _ hctl
  have hsub : m.st.subPots = [] := by
    have := hclear .push
    simpa [Phase.flag] using this
  rw [hPu ps hps, hsub]; rfl

/-- **the payoffs of a finished hand add up to minus the rake** -/
theorem C01_final_zero_sum (hc : CfgOk cfg) {m : M} (h : CleanReach cfg env m) (rest : List Ctl)
    (hctl : m.ctl = .endHand :: rest) (ps : List Pot) (hps : m.st.pots_ = some ps) :
    sumI (step cfg env m).st.payoffs = - sumI (ps.map (·.raked)) := by
  obtain ⟨hz, hp⟩ := C01_end_of_hand hc h rest hctl
  obtain ⟨hL, _, _⟩ := h.invs hc
  have hst : (step cfg env m).st.payoffs = m.st.payoffs := by unfold step; rw [hctl]; rfl
  rw [hst]
  apply C01_zero_sum hL ps hps
  · rw [← sumI_range_getI m.st.bets cfg.n hL.lenBets]
    rw [sumI_map_congr (List.range cfg.n) _ (fun _ => 0) (fun i hi => hz i (List.mem_range.1 hi))]
    rw [sumI_map_const]; simp
  · exact hp ps hps

end PK
