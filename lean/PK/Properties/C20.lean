/-
  C20 — importing a poker-site log yields a history that reproduces the log's outcome.

  Partial by construction: the importers are ~1 100 lines of regular expressions around ~150 lines of
  logic.  Lean decides the logic, at the level of the events a log yields; the regular-expression
  layer is tied by correspondence only (harness/sitelogs.py renders hands in each site's format, runs
  the real importers and compares).

  Proved here (lean/PK/Model/Import.lean):
  * `C20_convention_inverse`  for each of the six sites, converting the amount a site writes for a
                              raise back gives the "raise to" amount, whatever the bets so far;
  * `C20_raise_to`            **the imported betting actions are the actions played, with raises in
                              "raise to" form**: for every site, every sequence of posts, deals, folds,
                              calls, raises and shows (any players, any amounts, any number of
                              streets), importing what the site prints gives back exactly the hand —
                              the importer's per-street bet table is always the table of the hand;
  * `C20_short_raise_is_call` a "raise" that does not exceed the bet to match is imported as a call;
  * `C20_button_last`, `C20_order_rotation`  players are put in position order: the seat after the
                              button first, the button last, the cyclic seat order kept;
  * `C20_blinds_layout`       the first two players in position order keep what they posted, anybody
                              else's post is marked as a late post; heads-up the two entries are
                              swapped (pokerkit's heads-up convention).
-/
import PK.Model.Import
namespace PK

/-- **the six amount conventions invert**: what the site writes for a raise to `t`, read back, is `t` -/
theorem C20_convention_inverse (site : Site) (w : Wording) (maxBet own t : Nat)
    (h1 : own ≤ t) (h2 : maxBet ≤ t) :
    toAmount site w maxBet own (rawAmount site w maxBet own t) = t := by
  cases site <;> cases w <;> simp [toAmount, rawAmount] <;> omega

theorem maxN_mem_le (l : List Nat) (i : Nat) : getN l i ≤ maxN l := by
  induction l generalizing i with
  | nil => simp [getN, maxN]
  | cons x xs ih =>
    cases i with
    | zero => simp [getN, maxN]; omega
    | succ k =>
      have := ih k
      simp only [getN, List.getD_cons_succ, maxN] at this ⊢
      omega

/-- the hand is well-formed from this point on: every raise really raises -/
def GenuineRaises (site : Site) : List Nat → List TrueEvent → Prop
  | _, [] => True
  | bets, e :: es =>
    (match e with
     | .raiseTo _ t _ => maxN bets < t
     | _ => True) ∧ GenuineRaises site (renderStep site bets e).1 es

/-- **the imported actions are the hand's actions, raises in "raise to" form** — every site, every
    hand, every bet table to start from -/
theorem C20_raise_to (site : Site) : ∀ (events : List TrueEvent) (bets : List Nat),
    GenuineRaises site bets events →
    importEvents site bets (renderEvents site bets events) = events.filterMap trueAction := by
  intro events
  induction events with
  | nil => intro bets _; rfl
  | cons e es ih =>
    intro bets h
    obtain ⟨hraise, hrest⟩ := h
    unfold renderEvents importEvents
    cases e with
    | post p a =>
      simp only [renderStep, importStep, List.filterMap_cons, trueAction, List.nil_append]
      have hih := ih _ hrest
      simp only [renderStep] at hih
      exact hih
    | hole p cs =>
      simp only [renderStep, importStep, List.filterMap_cons, trueAction, List.singleton_append]
      have hih := ih _ hrest
      simp only [renderStep] at hih
      rw [hih]
    | board cs =>
      simp only [renderStep, importStep, List.filterMap_cons, trueAction, List.singleton_append]
      have hih := ih _ hrest
      simp only [renderStep] at hih
      rw [hih]
    | fold p =>
      simp only [renderStep, importStep, List.filterMap_cons, trueAction, List.singleton_append]
      have hih := ih _ hrest
      simp only [renderStep] at hih
      rw [hih]
    | call p =>
      simp only [renderStep, importStep, List.filterMap_cons, trueAction, List.singleton_append]
      have hih := ih _ hrest
      simp only [renderStep] at hih
      rw [hih]
    | shows p cs =>
      simp only [renderStep, importStep, List.filterMap_cons, trueAction, List.singleton_append]
      have hih := ih _ hrest
      simp only [renderStep] at hih
      rw [hih]
    | raiseTo p t w =>
      have hmx : maxN bets < t := hraise
      have hown : getN bets p ≤ t := Nat.le_trans (maxN_mem_le bets p) (Nat.le_of_lt hmx)
      have hinv := C20_convention_inverse site w (maxN bets) (getN bets p) t hown (Nat.le_of_lt hmx)
      simp only [renderStep, importStep, hinv, List.filterMap_cons, trueAction]
      have hnot : ¬ t ≤ maxN bets := by omega
      simp only [hnot, if_false, List.singleton_append]
      have hih := ih _ hrest
      simp only [renderStep] at hih
      rw [hih]

/-- a line worded as a bet or raise that does not exceed the bet to match is imported as a call -/
theorem C20_short_raise_is_call (site : Site) (bets : List Nat) (p raw : Nat) (w : Wording)
    (h : toAmount site w (maxN bets) (getN bets p) raw ≤ maxN bets) :
    (importStep site bets (.raise p raw w)).2 = some (.call p) := by
  simp [importStep, h]

/-- **the button is last, the seat after it first** -/
theorem C20_button_last (players : List Nat) (i : Nat) (fp : Option Nat) :
    orderedPlayers players (some i) fp = some (players.drop ((i + 1) % players.length) ++ players.take ((i + 1) % players.length)) := by
  unfold orderedPlayers
  simp only [Option.map_some]
  congr 2 <;> (
    have : (((i : Int) + 1) % (players.length : Int)).toNat = (i + 1) % players.length := by
      have h : ((i : Int) + 1) % (players.length : Int) = (((i + 1) % players.length : Nat) : Int) := by
        push_cast; rfl
      rw [h]; simp
    rw [this])

/-- whatever decides the button, the result keeps the cyclic seat order: it is a rotation -/
theorem C20_order_rotation (players : List Nat) (b : Option Nat) (fp : Option Nat) (l : List Nat)
    (h : orderedPlayers players b fp = some l) : ∃ k, l = players.drop k ++ players.take k := by
  unfold orderedPlayers at h
  simp only [Option.map_eq_some_iff] at h
  obtain ⟨f, _, hf⟩ := h
  exact ⟨_, hf.symm⟩

/-- with the button at index `i` of `n ≥ 1` seats, the last player of the result is the button and
    (for `n ≥ 2`) the first is the seat after it -/
theorem C20_button_position (players : List Nat) (i : Nat) (hi : i < players.length) (hn : 2 ≤ players.length) :
    (players.drop ((i + 1) % players.length) ++ players.take ((i + 1) % players.length)).getLast? = players[i]? ∧
    (players.drop ((i + 1) % players.length) ++ players.take ((i + 1) % players.length)).head? =
      players[(i + 1) % players.length]? := by
  by_cases hlast : i + 1 = players.length
  · have hm : (i + 1) % players.length = 0 := by rw [hlast]; exact Nat.mod_self _
    rw [hm]
    simp only [List.drop_zero, List.take_zero, List.append_nil]
    constructor
    · rw [List.getLast?_eq_getElem?]
      congr 1; omega
    · cases players with
      | nil => simp at hi
      | cons a l => rfl
  · have hm : (i + 1) % players.length = i + 1 := Nat.mod_eq_of_lt (by omega)
    rw [hm]
    constructor
    · rw [List.getLast?_append]
      have : (players.take (i + 1)).getLast? = players[i]? := by
        rw [List.getLast?_eq_getElem?, List.length_take]
        have : min (i + 1) players.length - 1 = i := by omega
        rw [this, List.getElem?_take]
        simp
      rw [this]
      simp [List.getElem?_eq_getElem hi]
    · rw [List.head?_append]
      have : (players.drop (i + 1)).head? = players[i + 1]? := by
        rw [List.head?_drop]
      rw [this]
      have h2 : i + 1 < players.length := by omega
      simp [List.getElem?_eq_getElem h2]

/-- **the blinds layout**: who posted what, in position order; late posts negative; heads-up swapped -/
theorem C20_blinds_layout (posted : List Nat) :
    (posted.length ≠ 2 → ∀ i (hi : i < posted.length),
      (blindsLayout posted)[i]? = some (if i < 2 then (posted[i] : Int) else -(posted[i] : Int))) ∧
    (∀ a b, posted = [a, b] → blindsLayout posted = [(b : Int), (a : Int)]) := by
  constructor
  · intro hne i hi
    unfold blindsLayout
    have : (posted.length == 2) = false := by simpa using hne
    simp only [this, Bool.false_eq_true, if_false]
    simp [List.getElem?_map, List.getElem?_zipIdx, hi, List.getElem?_eq_getElem]
  · intro a b h
    subst h
    rfl

end PK
