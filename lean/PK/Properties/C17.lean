/-
  C17 — ACPC and Pluribus protocol output describes the hand that was played.

  Proved here (lean/PK/Model/Acpc.lean is the model of the writers and of the parser's tokenizer):
  * `C17_actions_in_order`   the action field is, in log order, exactly one token per betting action
                             taken (`f`, `c`, `r…`) and one `/` per board dealing — nothing else is
                             written, nothing is skipped;
  * `C17_raise_is_total_committed`   in no-limit a raise is written as the total number of chips the
                             raiser has committed in the hand after the raise; in fixed-limit as a
                             bare `r`;
  * `C17_lex_roundtrip`      **reading the action field back yields exactly the tokens written**, for
                             any token sequence and any amounts (the parser's tokenizer inverts the
                             writer);
  * `C17_separators`         the number of `/` in the action field is the number of board dealings;
  * `C17_street_amounts`     the parser's conversion (written amount minus what the biggest raise stood
                             at when the street began) gives back the raise-to amounts of every
                             street, when every raiser has matched all earlier streets in full and no
                             antes were posted — the accounting is exact street after street
                             (`C17_written_amount`: the link to the writer);
  * `C17_pluribus_payoffs`   the Pluribus result field is finishing stack minus starting stack.
  NOT proved: that every raiser of a reachable state has matched the earlier streets (an engine
  invariant), the card fields, and the full parse-replay-rewrite loop; the C17 check decides them on
  generated fixed-limit and no-limit hold'em hands (2-6 players, every viewer seat).  With antes the
  written amount includes the ante while the parser subtracts only street amounts: finding F13.
-/
import PK.Model.Acpc
import PK.Properties.C16
namespace PK

/-! ### what is written -/

def isBettingOrBoard : Operation → Bool
  | .checkingOrCalling _ _ | .folding _ | .completionBettingOrRaisingTo _ _ | .boardDealing _ => true
  | _ => false

def tokKind : ATok → Nat
  | .fold => 0 | .call => 1 | .raise _ => 2 | .street => 3

def opKind : Operation → Nat
  | .folding _ => 0 | .checkingOrCalling _ _ => 1 | .completionBettingOrRaisingTo _ _ => 2 | _ => 3

/-- **exactly the betting actions taken, in order, and one separator per board dealing** -/
theorem C17_actions_in_order (nt : Bool) : ∀ (ops : List Operation) (c : ACtx),
    (acpcTokens nt c ops).map tokKind = (ops.filter isBettingOrBoard).map opKind := by
  intro ops
  induction ops with
  | nil => intro c; rfl
  | cons op ops ih =>
    intro c
    unfold acpcTokens
    cases op <;> simp [acpcStep, isBettingOrBoard, tokKind, opKind, ih, List.filter_cons]

/-- **raise sizes**: in no-limit the token of a raise carries the chips the raiser has committed in
    the whole hand after it (`-payoff`), in fixed-limit nothing -/
theorem C17_raise_is_total_committed (nt : Bool) (c : ACtx) (p : Nat) (x : Int) :
    (acpcStep nt c (.completionBettingOrRaisingTo p x)).2 =
      some (.raise (if nt then some (getI (acpcStep nt c (.completionBettingOrRaisingTo p x)).1.committed p).toNat
                    else none)) := rfl

/-- … which is what he had committed before plus what the raise adds to his bet of this street -/
theorem C17_written_amount (c : ACtx) (p : Nat) (x : Int) (hp : p < c.committed.length) :
    getI (acpcStep true c (.completionBettingOrRaisingTo p x)).1.committed p =
      (getI c.committed p - getI c.bets p) + x := by
  simp only [acpcStep, ACtx.put, getI]
  rw [List.getD_eq_getElem?_getD, List.getElem?_set_self hp]
  simp only [Option.getD_some]
  rw [List.getD_eq_getElem?_getD]
  omega

/-! ### reading it back -/

theorem renderNat_digits (n : Nat) : ∀ ch ∈ renderNat n, isDigit ch = true := by
  induction n using Nat.strongRecOn with
  | _ n ih =>
    unfold renderNat
    split
    · rename_i h
      intro ch hch
      simp only [List.mem_singleton] at hch
      subst hch
      exact (digit_facts n h).1
    · rename_i h
      intro ch hch
      rcases List.mem_append.mp hch with h1 | h1
      · exact ih (n / 10) (by omega) ch h1
      · simp only [List.mem_singleton] at h1
        subst h1
        exact (digit_facts (n % 10) (Nat.mod_lt _ (by omega))).1

theorem takeWhile_digits (ds rest : List Char) (hd : ∀ ch ∈ ds, isDigit ch = true)
    (hr : ∀ c r, rest = c :: r → isDigit c = false) :
    (ds ++ rest).takeWhile isDigit = ds ∧ (ds ++ rest).dropWhile isDigit = rest := by
  induction ds with
  | nil =>
    cases rest with
    | nil => simp
    | cons c r =>
      have := hr c r rfl
      simp [List.takeWhile, List.dropWhile, this]
  | cons d ds ih =>
    have hdd : isDigit d = true := hd d (by simp)
    obtain ⟨h1, h2⟩ := ih (fun ch hch => hd ch (by simp [hch]))
    simp [List.takeWhile, List.dropWhile, hdd, h1, h2]

theorem tok_head (t : ATok) : ∃ c r, t.text = c :: r ∧ isDigit c = false := by
  cases t with
  | fold => exact ⟨'f', [], rfl, by decide⟩
  | call => exact ⟨'c', [], rfl, by decide⟩
  | street => exact ⟨'/', [], rfl, by decide⟩
  | raise a => cases a with
    | none => exact ⟨'r', [], rfl, by decide⟩
    | some a => exact ⟨'r', renderNat a, rfl, by decide⟩

theorem actionText_head (toks : List ATok) : ∀ c r, actionText toks = c :: r → isDigit c = false := by
  intro c r h
  cases toks with
  | nil => simp [actionText] at h
  | cons t ts =>
    obtain ⟨c', r', ht, hc'⟩ := tok_head t
    simp only [actionText, List.flatMap_cons, ht, List.cons_append, List.cons.injEq] at h
    rw [← h.1]; exact hc'

/-- **the parser's tokenizer inverts the writer**: any sequence of tokens, any amounts -/
theorem C17_lex_roundtrip : ∀ (toks : List ATok) (fuel : Nat), toks.length < fuel →
    lexActions fuel (actionText toks) = some toks := by
  intro toks
  induction toks with
  | nil => intro fuel h; cases fuel with | zero => omega | succ f => rfl
  | cons t ts ih =>
    intro fuel h
    cases fuel with
    | zero => omega
    | succ f =>
      have hf : ts.length < f := by simp at h; omega
      have hrest := actionText_head ts
      cases t with
      | fold =>
        show lexActions (f + 1) ('f' :: actionText ts) = _
        simp only [lexActions]
        rw [ih f hf]; rfl
      | call =>
        show lexActions (f + 1) ('c' :: actionText ts) = _
        obtain ⟨h1, h2⟩ := takeWhile_digits [] (actionText ts) (by simp) hrest
        simp only [List.nil_append] at h1 h2
        simp only [lexActions, h2]
        rw [ih f hf]; rfl
      | street =>
        show lexActions (f + 1) ('/' :: actionText ts) = _
        simp only [lexActions]
        rw [ih f hf]; rfl
      | raise a =>
        cases a with
        | none =>
          show lexActions (f + 1) ('r' :: actionText ts) = _
          obtain ⟨h1, h2⟩ := takeWhile_digits [] (actionText ts) (by simp) hrest
          simp only [List.nil_append] at h1 h2
          simp only [lexActions, h1, h2]
          rw [ih f hf]; rfl
        | some a =>
          show lexActions (f + 1) ('r' :: (renderNat a ++ actionText ts)) = _
          obtain ⟨h1, h2⟩ := takeWhile_digits (renderNat a) (actionText ts) (renderNat_digits a) hrest
          simp only [lexActions, h1, h2]
          rw [ih f hf, C16_amount_roundtrip]; rfl

/-- **street separators**: as many `/` as board dealings -/
theorem C17_separators (nt : Bool) (ops : List Operation) (c : ACtx) :
    ((acpcTokens nt c ops).filter (· == .street)).length =
      (ops.filter fun op => match op with | .boardDealing _ => true | _ => false).length := by
  induction ops generalizing c with
  | nil => rfl
  | cons op ops ih =>
    unfold acpcTokens
    cases op <;> simp [acpcStep, ih]

/-! ### the amounts, street by street -/

/-- the tokens of the raises of a hand given street by street as raise-to amounts: every raise is
    written as `base + x`, `base` being the sum of the final levels of the earlier streets -/
def writeStreets : Nat → Nat → List (List Nat) → List ATok
  | _, _, [] => []
  | base, lvl, [st] => st.map fun x => .raise (some (base + x))
  | base, lvl, st :: st2 :: rest =>
    (st.map fun x => .raise (some (base + x))) ++ .street ::
      writeStreets (base + (st.getLast?.getD lvl)) 0 (st2 :: rest)

def lastOr (lvl : Nat) (st : List Nat) : Nat := st.getLast?.getD lvl

theorem lastOr_cons (lvl x : Nat) (st : List Nat) : lastOr lvl (x :: st) = lastOr x st := by
  unfold lastOr
  cases st with
  | nil => rfl
  | cons y ys =>
    rw [List.getLast?_cons_cons]
    cases h : (y :: ys).getLast? with
    | none => simp at h
    | some v => rfl

theorem streetAmounts_raises (base : Nat) : ∀ (st : List Nat) (lvl : Nat) (rest : List ATok),
    streetAmounts base (base + lvl) ((st.map fun x => ATok.raise (some (base + x))) ++ rest) =
      (st.map fun (x : Nat) => some (x : Int)) ++ streetAmounts base (base + lastOr lvl st) rest := by
  intro st
  induction st with
  | nil => intro lvl rest; rfl
  | cons x st ih =>
    intro lvl rest
    simp only [List.map_cons, List.cons_append, streetAmounts]
    rw [ih x rest, lastOr_cons]
    have h1 : ((base + x : Nat) : Int) - (base : Int) = (x : Int) := by omega
    rw [h1]

/-- **street by street, the parser recovers the raise-to amounts**: when every raise is written as
    the sum of the final levels of the earlier streets plus its raise-to amount (no antes; the raiser
    has matched every earlier street), subtracting what the biggest raise stood at when the street
    began gives the raise-to amounts back, for any number of streets and raises -/
theorem C17_street_amounts : ∀ (streets : List (List Nat)) (base lvl : Nat),
    streetAmounts base (base + lvl) (writeStreets base lvl streets) =
      streets.flatten.map fun (x : Nat) => some (x : Int) := by
  intro streets
  induction streets with
  | nil => intro base lvl; rfl
  | cons st rest ih =>
    intro base lvl
    cases rest with
    | nil =>
      have := streetAmounts_raises base st lvl []
      simp only [List.append_nil] at this
      simp only [writeStreets, this, streetAmounts, List.append_nil, List.flatten_cons, List.flatten_nil]
    | cons st2 rest2 =>
      simp only [writeStreets]
      rw [streetAmounts_raises base st lvl]
      simp only [streetAmounts]
      have h := ih (base + lastOr lvl st) 0
      simp only [Nat.add_zero] at h
      unfold lastOr at h ⊢
      rw [h]
      simp [List.flatten_cons]

/-- **the Pluribus result field** is finishing stack minus starting stack, player by player -/
theorem C17_pluribus_payoffs (starting finishing : List Int) (i : Nat) (h1 : i < starting.length)
    (h2 : i < finishing.length) :
    (pluribusPayoffs starting finishing)[i]? = some (finishing[i] - starting[i]) := by
  unfold pluribusPayoffs
  simp only [List.getElem?_map, List.getElem?_zip_eq_some, Option.map_eq_some_iff, Prod.exists]
  exact ⟨starting[i], finishing[i], ⟨List.getElem?_eq_getElem h1, List.getElem?_eq_getElem h2⟩, rfl⟩

end PK
