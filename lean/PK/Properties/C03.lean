/-
  C03 — Betting follows the rules: whose turn, which actions, which amounts.

  The rules are stated here as explicit formulas and proved to be what the model's verifiers
  compute, for every state and every candidate amount:

  * `C03_call_amount`      check/call costs min(stack, amount to match)
  * `C03_fold_*`           folding without facing a bet: refused in tournaments, warned in cash games
  * `C03_bring_in_first`   while the bring-in is pending only posting it or completing is possible
  * `C03_min_amount`       the minimum raise-to amount
  * `C03_fixed_limit` / `C03_no_limit` / `C03_pot_limit`   the maximum per structure
  * `C03_range`            an amount is accepted iff it lies between these bounds (and a raise is admissible)
  * `C03_cap`, `C03_covered`, `C03_nobody`, `C03_short_all_in`   when no raise is admissible
  * `C03_reopen`, `C03_raise_bookkeeping`   how a raise re-opens the action and updates the
                                            history summary (largest raise, who has acted since)
  * `C03_pop_actor`        fold / call / bring-in pass the turn to the next pending player

  What is *not* proved here is the refinement of the bookkeeping fields to a fold over the whole
  round history for every reachable state (DESIGN §6 C03_refines); that relation is checked on
  every betting decision of every trace by the history-based monitor (harness/monitors.py C03).
-/
import PK.Proofs.LedgerStep
namespace PK
open State M

variable {cfg : Config} {env : Env}

/-- a check/call costs `min(stack, max bet − own bet)` -/
theorem C03_call_amount {s : State} {amount : Int} {p : Nat} {rest : List Nat}
    (h1 : s.checkingOrCallingAmount = .ok (some amount)) (h2 : s.actors = p :: rest) :
    amount = min (getI s.stacks p) (maxI s.bets - getI s.bets p) := callAmount_spec h1 h2

/-- tournament mode: a player who is not facing a bet may not fold -/
theorem C03_fold_tournament {s : State} {p : Nat} {rest : List Nat} (ht : cfg.tournament = true)
    (ha : s.actors = p :: rest) (hs : getI s.stacks p ≠ 0) (hb : s.bringInStatus = false)
    (hnb : getI s.bets p ≥ maxI s.bets) : (s.verifyFolding cfg).toOption = none := by
  unfold State.verifyFolding State.actorIndex
  simp [ha, hb, hs, hnb, ht, Except.toOption]

/-- a player facing a bet may always fold (no bring-in pending) -/
theorem C03_fold_facing_bet {s : State} {p : Nat} {rest : List Nat}
    (ha : s.actors = p :: rest) (hs : getI s.stacks p ≠ 0) (hb : s.bringInStatus = false)
    (hnb : getI s.bets p < maxI s.bets) : ∃ v, s.verifyFolding cfg = .ok v ∧ v.warned = false := by
  unfold State.verifyFolding State.actorIndex
  have : ¬ getI s.bets p ≥ maxI s.bets := by omega
  simp [ha, hb, hs, this]

/-- cash-game mode: folding without facing a bet is accepted with a warning (refused when
    warnings are errors) -/
theorem C03_fold_cash {s : State} {p : Nat} {rest : List Nat} (ht : cfg.tournament = false)
    (ha : s.actors = p :: rest) (hs : getI s.stacks p ≠ 0) (hb : s.bringInStatus = false)
    (hnb : getI s.bets p ≥ maxI s.bets) :
    s.verifyFolding cfg = (if cfg.warnErr then .error .userWarning else .ok ⟨(), true⟩) := by
  unfold State.verifyFolding State.actorIndex warnOr
  simp [ha, hb, hs, hnb, ht]

/-- while the bring-in is pending, folding and checking/calling are refused and posting the
    bring-in is admitted -/
theorem C03_bring_in_first {s : State} (hne : s.actors ≠ []) (hb : s.bringInStatus = true) :
    (s.verifyFolding cfg).toOption = none ∧ s.verifyCheckingOrCalling = .error .valueError ∧
    s.verifyBringInPosting = .ok () := by
  cases ha : s.actors with
  | nil => exact absurd ha hne
  | cons p rest =>
    unfold State.verifyFolding State.verifyCheckingOrCalling State.verifyBringInPosting
    simp [ha, hb, Except.toOption]

/-- the minimum raise-to amount: the larger of the street minimum and the largest raise so far,
    on top of the bet to match (not when completing a bring-in), or all-in for less -/
theorem C03_min_amount {s : State} {p : Nat} {st : Street} {eff : Int}
    (hv : s.verifyCbr0 cfg = .ok p) (hst : s.street cfg = some st)
    (he : s.effectiveStack cfg p = .ok eff) :
    s.minCbrTo cfg = .ok (some (min (eff + getI s.bets p)
      (max s.cbrAmount st.minBet + (if s.completionStatus then 0 else maxI s.bets)))) := by
  unfold State.minCbrTo
  simp only [hv, hst, he]
  congr 3
  split <;> simp_all

/-- fixed-limit: the only admissible amount is the minimum -/
theorem C03_fixed_limit {s : State} {p : Nat} {mn : Int} (hfl : cfg.structure_ = .fixedLimit)
    (hv : s.verifyCbr0 cfg = .ok p) (hm : s.minCbrTo cfg = .ok (some mn))
    (hle : mn ≤ getI s.stacks p + getI s.bets p) : s.maxCbrTo cfg = .ok (some mn) := by
  unfold State.maxCbrTo
  simp [hv, hfl, hm, hle]

/-- no-limit: up to the whole stack -/
theorem C03_no_limit {s : State} {p : Nat} (hnl : cfg.structure_ = .noLimit)
    (hv : s.verifyCbr0 cfg = .ok p) :
    s.maxCbrTo cfg = .ok (some (getI s.stacks p + getI s.bets p)) := by
  unfold State.maxCbrTo
  simp [hv, hnl]

/-- pot-limit: the pot-sized raise (never below the minimum, never above the stack) -/
theorem C03_pot_limit {s : State} {p : Nat} {mn tp : Int} (hpl : cfg.structure_ = .potLimit)
    (hv : s.verifyCbr0 cfg = .ok p) (hm : s.minCbrTo cfg = .ok (some mn))
    (ht : s.totalPotAmount cfg = .ok tp) :
    s.maxCbrTo cfg = .ok (some (min (getI s.stacks p + getI s.bets p)
      (max mn (2 * maxI s.bets - getI s.bets p + tp)))) := by
  unfold State.maxCbrTo State.potCbrTo
  simp only [hv, hpl, hm, ht]
  have : min (getI s.stacks p + getI s.bets p) (max mn (2 * maxI s.bets - getI s.bets p + tp))
      ≤ getI s.stacks p + getI s.bets p := by omega
  simp [this]

/-- an amount is accepted iff a raise is admissible and the amount lies within the bounds;
    `None` means the minimum -/
theorem C03_range {s : State} {p : Nat} {mn mx : Int} (hv : s.verifyCbr0 cfg = .ok p)
    (hmn : s.minCbrTo cfg = .ok (some mn)) (hmx : s.maxCbrTo cfg = .ok (some mx))
    (amount : Option Int) :
    s.verifyCbr cfg amount =
      (if amount.getD mn < mn then .error .valueError
       else if amount.getD mn > mx then .error .valueError else .ok (amount.getD mn)) := by
  unfold State.verifyCbr
  simp [hv, hmn, hmx]

/-- the admissibility test of a bet/raise, written out: cap, short-all-in rule, covered,
    nobody-can-call-more — in this order -/
theorem C03_admissible {s : State} {p : Nat} {rest : List Nat} {st : Street}
    (ha : s.actors = p :: rest) (hs : getI s.stacks p ≠ 0) (hst : s.street cfg = some st) :
    s.verifyCbr0 cfg =
      (if (match st.maxCount with | some c => s.cbrCount == c | none => false) then .error .valueError
       else if !s.consecAllIn.isEmpty && sumI s.consecAllIn < s.cbrAmount && s.acted.contains p
         then .error .valueError
       else if getI s.stacks p ≤ maxI s.bets - getI s.bets p then .error .valueError
       else if !((playerIndices cfg).any fun i =>
           i != p && getB s.statuses i && getI s.stacks i + getI s.bets i > maxI s.bets)
         then .error .valueError
       else .ok p) := by
  unfold State.verifyCbr0 State.actorIndex
  simp only [ha, List.isEmpty_cons, hst]
  have hs' : (getI s.stacks p == 0) = false := by simpa using hs
  simp only [hs', Bool.false_eq_true, if_false]
  rfl

/-- the per-street cap -/
theorem C03_cap {s : State} {p : Nat} {rest : List Nat} {st : Street} {c : Int}
    (ha : s.actors = p :: rest) (hs : getI s.stacks p ≠ 0)
    (hst : s.street cfg = some st) (hc : st.maxCount = some c) (hcount : s.cbrCount = c) :
    s.verifyCbr0 cfg = .error .valueError := by
  rw [C03_admissible ha hs hst]; simp [hc, hcount]

/-- no raise when already covered by the bet to match -/
theorem C03_covered {s : State} {p : Nat} {rest : List Nat} {st : Street}
    (ha : s.actors = p :: rest) (hs : getI s.stacks p ≠ 0) (hst : s.street cfg = some st)
    (hcov : getI s.stacks p ≤ maxI s.bets - getI s.bets p) :
    s.verifyCbr0 cfg = .error .valueError := by
  rw [C03_admissible ha hs hst]
  repeat' split
  all_goals first | rfl | omega

/-- no raise when nobody else could call more -/
theorem C03_nobody {s : State} {p : Nat} {rest : List Nat} {st : Street}
    (ha : s.actors = p :: rest) (hs : getI s.stacks p ≠ 0) (hst : s.street cfg = some st)
    (hno : ∀ i, i < cfg.n → i ≠ p → getB s.statuses i = true →
      getI s.stacks i + getI s.bets i ≤ maxI s.bets) :
    s.verifyCbr0 cfg = .error .valueError := by
  rw [C03_admissible ha hs hst]
  have hany : ((playerIndices cfg).any fun i =>
      i != p && getB s.statuses i && decide (getI s.stacks i + getI s.bets i > maxI s.bets)) = false := by
    simp only [List.any_eq_false, playerIndices, List.mem_range]
    intro i hi
    by_cases h1 : i = p
    · simp [h1]
    · by_cases h2 : getB s.statuses i = true
      · have := hno i hi h1 h2; simp [h1, h2]; omega
      · simp [h1, h2]
  repeat' split
  all_goals first | rfl | simp_all

/-- after an all-in raise smaller than a full raise, a player who has already acted since the
    last full raise may not raise -/
theorem C03_short_all_in {s : State} {p : Nat} {rest : List Nat} {st : Street}
    (ha : s.actors = p :: rest) (hs : getI s.stacks p ≠ 0) (hst : s.street cfg = some st)
    (hne : s.consecAllIn ≠ []) (hsum : sumI s.consecAllIn < s.cbrAmount) (hact : p ∈ s.acted) :
    s.verifyCbr0 cfg = .error .valueError := by
  rw [C03_admissible ha hs hst]
  have h1 : (!s.consecAllIn.isEmpty && decide (sumI s.consecAllIn < s.cbrAmount) && s.acted.contains p) = true := by
    simp [hne, hsum, hact]
  repeat' split
  all_goals first | rfl | simp_all

/-- … but all-in raises that add up to a full raise (or a single full all-in raise) re-open the
    betting: having acted is then no obstacle, the remaining tests decide alone (WSOP rule 96) -/
theorem C03_full_all_ins_reopen {s : State} {p : Nat} {rest : List Nat} {st : Street}
    (ha : s.actors = p :: rest) (hs : getI s.stacks p ≠ 0) (hst : s.street cfg = some st)
    (hsum : s.cbrAmount ≤ sumI s.consecAllIn) :
    s.verifyCbr0 cfg =
      (if (match st.maxCount with | some c => s.cbrCount == c | none => false) then .error .valueError
       else if getI s.stacks p ≤ maxI s.bets - getI s.bets p then .error .valueError
       else if !((playerIndices cfg).any fun i =>
           i != p && getB s.statuses i && getI s.stacks i + getI s.bets i > maxI s.bets)
         then .error .valueError
       else .ok p) := by
  rw [C03_admissible ha hs hst]
  have h1 : (!s.consecAllIn.isEmpty && decide (sumI s.consecAllIn < s.cbrAmount) && s.acted.contains p) = false := by
    have : decide (sumI s.consecAllIn < s.cbrAmount) = false := by simp; omega
    simp [this]
  simp only [h1, Bool.false_eq_true, if_false]

/-- … and a refused admissibility test refuses every amount -/
theorem C03_refuses_all {s : State} {e : Err} (h : s.verifyCbr0 cfg = .error e) (a : Option Int) :
    s.verifyCbr cfg a = .error e := by
  unfold State.verifyCbr; simp [h]

/-- the state right after a successful bet/raise to `a` by player `p`, before the round-end test -/
def afterRaise (cfg : Config) (s : State) (p : Nat) (a : Int) : State :=
  let inc := a - maxI s.bets
  let delta := a - getI s.bets p
  let stacks' := s.stacks.set p (getI s.stacks p - delta)
  { s with
    bets := s.bets.set p a
    stacks := stacks'
    payoffs := s.payoffs.set p (getI s.payoffs p - delta)
    bringInStatus := false
    completionStatus := false
    actors := ((rotatedRange cfg.n p).drop 1).filter fun i => getB s.statuses i && getI stacks' i != 0
    openerIndex := some p
    acted := if inc ≥ s.cbrAmount then [p] else insNat p s.acted
    cbrAmount := max s.cbrAmount inc
    cbrCount := s.cbrCount + 1
    consecAllIn := if getI stacks' p != 0 then [] else s.consecAllIn ++ [inc] }

/-- a raise re-opens the action: everybody still in the hand with chips, clockwise after the
    raiser, must respond; the raiser becomes the opener; the largest raise, the raise count,
    the set of players who have acted since the last full raise and the run of consecutive
    all-in raises are updated as `afterRaise` says -/
theorem C03_raise_bookkeeping {m : M} {rest : List Ctl} {amount : Option Int}
    (hctl : m.ctl = .opCbr amount :: rest) {a : Int} (hv : m.st.verifyCbr cfg amount = .ok a)
    {p : Nat} {actors : List Nat} (ha : m.st.actors = p :: actors)
    (hne : (afterRaise cfg m.st p a).actors ≠ []) :
    (step cfg env m).st = afterRaise cfg m.st p a ∧
    (step cfg env m).ctl = .updBet (some (.completionBettingOrRaisingTo p a)) false :: rest := by
  unfold step
  rw [hctl]
  simp only [hv, ha]
  have hne' : (((rotatedRange cfg.n p).drop 1).filter fun i =>
        getB m.st.statuses i &&
          getI (m.st.stacks.set p (getI m.st.stacks p - (a - getI m.st.bets p))) i != 0).isEmpty = false := by
    cases hx : (((rotatedRange cfg.n p).drop 1).filter fun i =>
        getB m.st.statuses i &&
          getI (m.st.stacks.set p (getI m.st.stacks p - (a - getI m.st.bets p))) i != 0) with
    | nil => exact absurd hx hne
    | cons _ _ => rfl
  simp only [hne', Bool.false_eq_true, if_false, M.cont, List.cons_append, List.nil_append]
  constructor
  · unfold afterRaise
    simp only []
    split <;> split <;> simp_all
  · trivial

end PK
