/-
  C10 — dealing follows the street definitions.

  What is proved here (for every configuration, state and argument):
  * `C10_begin_deal`        what `_begin_dealing` sets up: burn as prescribed, the street's hole
                            facings queued for the players in the hand and nothing for the others,
                            the street's board count for every board, a draw for every player in
                            the hand; and the fall-back: when the queued hole cards exceed what the
                            dealer can still draw on, nothing is queued for the players and every
                            board gets the hole cards of the street in addition.
  * `C10_burn_first_*`      hole and board dealing are refused while the burn is pending, the
                            burn is refused when none is pending; both are refused during a draw.
  * `C10_hole_count`, `C10_board_count`    how many cards one call may deal.
  * `C10_dealee_longest`    the default dealee: the longest queue, the lowest seat on ties —
                            hence one card per round in position order.
  * `C10_deal_hole_step`    an accepted hole dealing appends exactly these cards with exactly the
                            facings at the head of the player's queue, and touches nobody else.
  * `C10_discards_held`, `C10_draw_count`, `C10_draw_step`   a discard names cards the player
                            holds (with multiplicity), removes exactly those, and queues one
                            replacement per discard with the facing the discarded card had.
  * `C10_betting_after_dealing`, `C10_no_actor_while_dealing`   at every reachable point
                            betting starts / a betting decision is pending only when nothing is
                            left to deal (corollaries of C07's phase invariant).
  Not proved: the lift "at the start of every betting round every player holds exactly the cards
  the streets so far prescribe" over whole histories (needs an invariant relating the queues to
  the history); the C10 monitor (harness/dealing.py) decides it on implementation traces.
-/
import PK.Properties.C07
namespace PK
open State M

variable {cfg : Config} {env : Env}

/-! ### nothing is dealt out of turn -/
theorem C10_burn_first_hole (s : State) (a : CardsArg) (i : Option Nat) (h : s.cardBurning = true) :
    s.verifyHoleDealing cfg env a i = .error .valueError := by
  unfold State.verifyHoleDealing State.verifyHoleDealing0
  simp [h]

theorem C10_burn_first_board (s : State) (a : CardsArg) (h : s.cardBurning = true) :
    s.verifyBoardDealing cfg env a = .error .valueError := by
  unfold State.verifyBoardDealing State.verifyBoardDealing0
  simp [h]

theorem C10_burn_only_when_prescribed (s : State) (a : CardsArg) (h : s.cardBurning = false) :
    ∃ e, s.verifyCardBurning cfg env a = .error e := by
  unfold State.verifyCardBurning
  split
  · exact ⟨_, rfl⟩
  · simp [h]

theorem C10_no_hole_during_draw (s : State) (a : CardsArg) (i : Option Nat) (h : anyB s.standingPat = true) :
    s.verifyHoleDealing cfg env a i = .error .valueError := by
  unfold State.verifyHoleDealing State.verifyHoleDealing0
  by_cases h1 : s.cardBurning <;> by_cases h2 : s.anyHoleDealing <;> simp [h, h1, h2]

theorem C10_no_board_during_draw (s : State) (a : CardsArg) (h : anyB s.standingPat = true) :
    s.verifyBoardDealing cfg env a = .error .valueError := by
  unfold State.verifyBoardDealing State.verifyBoardDealing0
  by_cases h1 : s.cardBurning <;> by_cases h2 : s.anyBoardDealing <;> simp [h, h1, h2]

theorem C10_no_burn_during_draw (s : State) (a : CardsArg) (h : anyB s.standingPat = true) :
    ∃ e, s.verifyCardBurning cfg env a = .error e := by
  unfold State.verifyCardBurning
  split
  · exact ⟨_, rfl⟩
  · split
    · exact ⟨_, rfl⟩
    · simp [h]

/-! ### how many cards one call may deal -/
theorem C10_hole_count (s : State) (a : CardsArg) (i : Option Nat) (v : Verdict (List Card × Nat))
    (h : s.verifyHoleDealing cfg env a i = .ok v) :
    v.val.2 < cfg.n ∧ 1 ≤ v.val.1.length ∧ v.val.1.length ≤ (s.holeDealing.getD v.val.2 []).length ∧
    s.cardBurning = false ∧ anyB s.standingPat = false := by
  unfold State.verifyHoleDealing at h
  split at h
  · cases h
  · rename_i h0
    have hf : s.cardBurning = false ∧ anyB s.standingPat = false := by
      unfold State.verifyHoleDealing0 at h0
      split at h0
      · cases h0
      · split at h0
        · cases h0
        · split at h0
          · cases h0
          · constructor
            · simpa using ‹¬ s.cardBurning = true›
            · simpa using ‹¬ anyB s.standingPat = true›
    split at h
    · cases h
    · simp only at h
      split at h
      · cases h
      · split at h
        · cases h
        · split at h
          · cases h
          · split at h
            · cases h
            · rename_i hn _ hr
              cases h
              simp only [Bool.not_eq_true, Bool.not_eq_eq_eq_not, Bool.not_true, Bool.and_eq_false_imp,
                decide_eq_true_eq, decide_eq_false_iff_not, Nat.not_le] at hr
              show _ < cfg.n ∧ 1 ≤ _ ∧ _ ≤ (s.holeDealing.getD _ []).length ∧ _
              refine ⟨Nat.lt_of_not_ge hn, ?_, ?_, hf.1, hf.2⟩
              · by_cases h1 : 1 ≤ (‹Verdict (List Card)›).val.length
                · exact h1
                · exact absurd (fun h2 => absurd h2 h1) hr
              · by_cases h1 : 1 ≤ (‹Verdict (List Card)›).val.length
                · apply Nat.le_of_not_lt
                  intro h2
                  exact hr (fun _ => h2)
                · exact absurd (fun h2 => absurd h2 h1) hr

theorem C10_board_count (s : State) (a : CardsArg) (v : Verdict (List Card))
    (h : s.verifyBoardDealing cfg env a = .ok v) :
    ∃ bdc, s.boardDealingCount = some bdc ∧ bdc ∈ s.boardDealing ∧ bdc ≠ 0 ∧
      0 < v.val.length ∧ (v.val.length : Int) ≤ bdc ∧ s.cardBurning = false := by
  unfold State.verifyBoardDealing at h
  split at h
  · cases h
  · rename_i h0
    have hb : s.cardBurning = false := by
      unfold State.verifyBoardDealing0 at h0
      split at h0
      · cases h0
      · simpa using ‹¬ s.cardBurning = true›
    split at h
    · cases h
    · rename_i bdc hbdc
      split at h
      · cases h
      · split at h
        · cases h
        · rename_i hr
          cases h
          have hmem : bdc ∈ s.boardDealing ∧ bdc ≠ 0 := by
            unfold State.boardDealingCount at hbdc
            rw [h0] at hbdc
            simp only at hbdc
            have := List.find?_some hbdc
            exact ⟨List.mem_of_find?_eq_some hbdc, by simpa using this⟩
          simp only [Bool.not_eq_true, Bool.and_eq_false_imp, decide_eq_true_eq,
            decide_eq_false_iff_not, Bool.not_eq_eq_eq_not, Bool.not_true] at hr
          refine ⟨bdc, hbdc, hmem.1, hmem.2, ?_, ?_, hb⟩
          · by_cases h1 : 0 < v.val.length
            · exact h1
            · exact absurd (fun h2 => absurd h2 h1) hr
          · by_cases h1 : 0 < v.val.length
            · have : ¬ (bdc < (v.val.length : Int)) := fun h2 => hr (fun _ => by omega)
              omega
            · exact absurd (fun h2 => absurd h2 h1) hr

/-! ### the default dealee -/
/-- the arg-max fold of `hole_dealee_index`: the result has a longest queue, and every earlier
    seat has a strictly shorter one -/
theorem dealee_fold (q : Nat → Nat) (l : List Nat) (b0 : Option Nat) (r : Nat)
    (h : l.foldl (fun best i => match best with
        | none => some i
        | some b => if q i > q b then some i else some b) b0 = some r) :
    (∀ i ∈ l, q i ≤ q r) ∧ (∀ b, b0 = some b → q b ≤ q r) ∧
    ((b0 = some r) ∨ r ∈ l) := by
  induction l generalizing b0 with
  | nil => simp only [List.foldl_nil] at h; subst h; simp
  | cons x xs ih =>
    simp only [List.foldl_cons] at h
    cases b0 with
    | none =>
      obtain ⟨h1, h2, h3⟩ := ih _ h
      refine ⟨?_, by simp, ?_⟩
      · intro i hi
        rcases List.mem_cons.mp hi with rfl | hi
        · exact h2 _ rfl
        · exact h1 _ hi
      · right
        rcases h3 with h3 | h3
        · cases h3; exact List.mem_cons_self
        · exact List.mem_cons_of_mem _ h3
    | some b =>
      simp only at h
      by_cases hgt : q x > q b
      · rw [if_pos hgt] at h
        obtain ⟨h1, h2, h3⟩ := ih _ h
        refine ⟨?_, ?_, ?_⟩
        · intro i hi
          rcases List.mem_cons.mp hi with rfl | hi
          · exact h2 _ rfl
          · exact h1 _ hi
        · intro b' hb'; cases hb'
          have := h2 _ rfl; omega
        · right
          rcases h3 with h3 | h3
          · cases h3; exact List.mem_cons_self
          · exact List.mem_cons_of_mem _ h3
      · rw [if_neg hgt] at h
        obtain ⟨h1, h2, h3⟩ := ih _ h
        refine ⟨?_, ?_, ?_⟩
        · intro i hi
          rcases List.mem_cons.mp hi with rfl | hi
          · have := h2 _ rfl; omega
          · exact h1 _ hi
        · intro b' hb'; cases hb'; exact h2 _ rfl
        · rcases h3 with h3 | h3
          · left; exact h3
          · right; exact List.mem_cons_of_mem _ h3

/-- on a street that deals hole cards the default dealee is a seat with the longest queue of
    cards still owed (so nobody receives a second card of the street before everybody still
    owed one has received the first) -/
theorem C10_dealee_longest (s : State) (st : Street) (p : Nat) (hst : s.street cfg = some st)
    (hh : st.hole.isEmpty = false) (h : s.holeDealeeIndex cfg = some p) :
    p < cfg.n ∧ ∀ i, i < cfg.n → (s.holeDealing.getD i []).length ≤ (s.holeDealing.getD p []).length := by
  unfold State.holeDealeeIndex at h
  split at h
  · cases h
  · rw [hst] at h
    simp only [hh, Bool.not_false, if_true] at h
    obtain ⟨h1, _, h3⟩ := dealee_fold (fun i => (s.holeDealing.getD i []).length) _ none p h
    constructor
    · rcases h3 with h3 | h3
      · cases h3
      · simpa [playerIndices] using h3
    · intro i hi
      exact h1 i (by simpa [playerIndices] using hi)


/-- ties go to the earliest seat: every element standing before the (first occurrence of the)
    result is strictly smaller -/
theorem dealee_fold_first (q : Nat → Nat) (l : List Nat) (b0 : Option Nat) (r : Nat)
    (h : l.foldl (fun best i => match best with
        | none => some i
        | some b => if q i > q b then some i else some b) b0 = some r) :
    ∀ l1 l2, b0.toList ++ l = l1 ++ r :: l2 → r ∉ l1 → ∀ i ∈ l1, q i < q r := by
  induction l generalizing b0 with
  | nil =>
    simp only [List.foldl_nil] at h; subst h
    intro l1 l2 hl hr i hi
    cases l1 with
    | nil => cases hi
    | cons y ys =>
      simp only [Option.toList_some, List.append_nil, List.cons_append, List.cons.injEq] at hl
      have : ys ++ r :: l2 = [] := hl.2.symm
      simp at this
  | cons x xs ih =>
    simp only [List.foldl_cons] at h
    cases b0 with
    | none => exact ih _ h
    | some b =>
      simp only at h
      intro l1 l2 hl hr i hi
      simp only [Option.toList_some, List.cons_append, List.nil_append] at hl
      cases l1 with
      | nil => cases hi
      | cons y l1' =>
        simp only [List.cons_append, List.cons.injEq] at hl
        obtain ⟨rfl, hl⟩ := hl
        have hbr : b ≠ r := fun e => hr (e ▸ List.mem_cons_self)
        have hr' : r ∉ l1' := fun e => hr (List.mem_cons_of_mem _ e)
        by_cases hgt : q x > q b
        · rw [if_pos hgt] at h
          have hx := (dealee_fold q xs (some x) r h).2.1 x rfl
          rcases List.mem_cons.mp hi with rfl | hi
          · omega
          · exact ih (some x) h l1' l2 (by simpa using hl) hr' i hi
        · rw [if_neg hgt] at h
          -- the result is not `b`, so it sits in `xs` and beats `b` strictly
          have hmem : r ∈ xs := by
            rcases (dealee_fold q xs (some b) r h).2.2 with e | e
            · cases e; exact absurd rfl hbr
            · exact e
          obtain ⟨as, bs, hxs, has⟩ := List.eq_append_cons_of_mem hmem
          have hb : q b < q r := by
            refine ih (some b) h (b :: as) bs (by simp [hxs]) ?_ b List.mem_cons_self
            intro e
            rcases List.mem_cons.mp e with e | e
            · exact hbr e.symm
            · exact has e
          cases l1' with
          | nil =>
            simp only [List.nil_append, List.cons.injEq] at hl
            obtain ⟨rfl, _⟩ := hl
            omega
          | cons z l1'' =>
            simp only [List.cons_append, List.cons.injEq] at hl
            obtain ⟨rfl, hl⟩ := hl
            have hr'' : r ∉ l1'' := fun e => hr' (List.mem_cons_of_mem _ e)
            have key := ih (some b) h (b :: l1'') l2 (by simp [hl]) (by
              intro e
              rcases List.mem_cons.mp e with e | e
              · exact hbr e.symm
              · exact hr'' e)
            rcases List.mem_cons.mp hi with rfl | hi
            · exact hb
            · rcases List.mem_cons.mp hi with rfl | hi
              · omega
              · exact key i (List.mem_cons_of_mem _ hi)

theorem C10_dealee_first (s : State) (st : Street) (p : Nat) (hst : s.street cfg = some st)
    (hh : st.hole.isEmpty = false) (h : s.holeDealeeIndex cfg = some p) :
    ∀ i, i < p → (s.holeDealing.getD i []).length < (s.holeDealing.getD p []).length := by
  have hp := (C10_dealee_longest s st p hst hh h).1
  unfold State.holeDealeeIndex at h
  split at h
  · cases h
  · rw [hst] at h
    simp only [hh, Bool.not_false, if_true] at h
    intro i hi
    have hsplit : (none : Option Nat).toList ++ playerIndices cfg
        = List.range p ++ p :: (List.range' (p + 1) (cfg.n - (p + 1))) := by
      simp only [Option.toList_none, List.nil_append, playerIndices]
      have : cfg.n = p + (1 + (cfg.n - (p + 1))) := by omega
      conv => lhs; rw [this]
      rw [List.range_eq_range', List.range_eq_range', ← List.range'_append_1, ← List.range'_append_1]
      simp [List.range'_succ, Nat.add_comm]
    exact dealee_fold_first (fun i => (s.holeDealing.getD i []).length) _ none p h _ _ hsplit
      (by simp) i (by simpa using hi)

/-- on a draw street (no hole cards prescribed) replacements go to the first seat owed any -/
theorem C10_dealee_draw (s : State) (st : Street) (p : Nat) (hst : s.street cfg = some st)
    (hh : st.hole.isEmpty = true) (h : s.holeDealeeIndex cfg = some p) :
    (s.holeDealing.getD p []) ≠ [] ∧ ∀ i, i < p → s.holeDealing.getD i [] = [] := by
  unfold State.holeDealeeIndex at h
  split at h
  · cases h
  · rw [hst] at h
    simp only [hh, Bool.not_true] at h
    have h' : (playerIndices cfg).find? (fun i => !(s.holeDealing.getD i []).isEmpty) = some p := by
      simpa using h
    constructor
    · have := List.find?_some h'
      intro hc; rw [hc] at this; simp at this
    · intro i hi
      have hp : p < cfg.n := by
        have := List.mem_of_find?_eq_some h'
        simpa [playerIndices] using this
      unfold playerIndices at h'
      rw [List.find?_range_eq_some] at h'
      have := h'.2.2 i hi
      simpa using this


/-! ### what an accepted hole dealing does -/
theorem consumeCards_hole (s : State) (cs : List Card) : (s.consumeCards env cs).hole = s.hole := by
  unfold State.consumeCards
  simp only []
  have key : ∀ (cs : List Card) (s : State), (cs.foldl (fun s c =>
      { s with deck := s.deck.erase c, burned := s.burned.erase c, mucked := s.mucked.erase c,
               discarded := s.discarded.map (·.erase c) }) s).hole = s.hole := by
    intro cs
    induction cs with
    | nil => intro s; rfl
    | cons c cs ih => intro s; simp only [List.foldl_cons]; rw [ih]
  rw [key]; split <;> rfl

theorem consumeCards_holeStatuses (s : State) (cs : List Card) :
    (s.consumeCards env cs).holeStatuses = s.holeStatuses := by
  unfold State.consumeCards
  simp only []
  have key : ∀ (cs : List Card) (s : State), (cs.foldl (fun s c =>
      { s with deck := s.deck.erase c, burned := s.burned.erase c, mucked := s.mucked.erase c,
               discarded := s.discarded.map (·.erase c) }) s).holeStatuses = s.holeStatuses := by
    intro cs
    induction cs with
    | nil => intro s; rfl
    | cons c cs ih => intro s; simp only [List.foldl_cons]; rw [ih]
  rw [key]; split <;> rfl

theorem consumeCards_holeDealing (s : State) (cs : List Card) :
    (s.consumeCards env cs).holeDealing = s.holeDealing := by
  unfold State.consumeCards
  simp only []
  have key : ∀ (cs : List Card) (s : State), (cs.foldl (fun s c =>
      { s with deck := s.deck.erase c, burned := s.burned.erase c, mucked := s.mucked.erase c,
               discarded := s.discarded.map (·.erase c) }) s).holeDealing = s.holeDealing := by
    intro cs
    induction cs with
    | nil => intro s; rfl
    | cons c cs ih => intro s; simp only [List.foldl_cons]; rw [ih]
  rw [key]; split <;> rfl

/-- an accepted `deal_hole` appends exactly the verified cards to the dealee's hole, with exactly
    the facings at the head of his queue, shortens the queue by as many, and touches no other
    player's cards, facings or queue -/
theorem C10_deal_hole_step (m : M) (a : CardsArg) (i : Option Nat) (rest : List Ctl)
    (hctl : m.ctl = .opDealHole a i :: rest) (v : Verdict (List Card × Nat))
    (hv : m.st.verifyHoleDealing cfg env a i = .ok v) :
    let s' := (step cfg env m).st
    let p := v.val.2
    let q := m.st.holeDealing.getD p []
    s'.hole = m.st.hole.set p (m.st.holeOf p ++ v.val.1) ∧
    s'.holeStatuses = m.st.holeStatuses.set p (m.st.holeStatusesOf p ++ q.take v.val.1.length) ∧
    s'.holeDealing = m.st.holeDealing.set p (q.drop v.val.1.length) ∧
    (step cfg env m).ctl = .updDeal (some (.holeDealing p v.val.1 (q.take v.val.1.length))) :: rest := by
  unfold step; rw [hctl]; simp only []
  rw [hv]
  simp only [cont_st, State.holeOf, State.holeStatusesOf, consumeCards_hole, consumeCards_holeStatuses,
    consumeCards_holeDealing]
  refine ⟨?_, ?_, ?_, ?_⟩ <;> first | trivial | rfl

/-- the same, read per player -/
theorem C10_deal_hole_per_player (m : M) (a : CardsArg) (i : Option Nat) (rest : List Ctl)
    (hctl : m.ctl = .opDealHole a i :: rest) (v : Verdict (List Card × Nat))
    (hv : m.st.verifyHoleDealing cfg env a i = .ok v) (hlen : v.val.2 < m.st.hole.length)
    (hlen' : v.val.2 < m.st.holeStatuses.length) (j : Nat) :
    let s' := (step cfg env m).st
    let q := m.st.holeDealing.getD v.val.2 []
    (j = v.val.2 → s'.holeOf j = m.st.holeOf j ++ v.val.1 ∧
      s'.holeStatusesOf j = m.st.holeStatusesOf j ++ q.take v.val.1.length) ∧
    (j ≠ v.val.2 → s'.holeOf j = m.st.holeOf j ∧ s'.holeStatusesOf j = m.st.holeStatusesOf j ∧
      s'.holeDealing.getD j [] = m.st.holeDealing.getD j []) := by
  obtain ⟨h1, h2, h3, _⟩ := C10_deal_hole_step m a i rest hctl v hv
  intro s' q
  constructor
  · rintro rfl
    simp only [s', State.holeOf, State.holeStatusesOf, h1, h2]
    simp [List.getD_eq_getElem?_getD, hlen, hlen', q]
  · intro hj
    simp only [s', State.holeOf, State.holeStatusesOf, h1, h2, h3]
    simp [List.getD_eq_getElem?_getD, List.getElem?_set, Ne.symm hj]

/-! ### draws -/
theorem C10_discards_held (s : State) (cards out : List Card) (h : s.verifyStandingPat cards = .ok out) :
    out = cards ∧ ∃ p, s.standerPatIndex = some p ∧ ∀ c, c ∈ cards → cards.count c ≤ (s.holeOf p).count c := by
  unfold State.verifyStandingPat at h
  split at h
  · cases h
  · rename_i p hp
    split at h
    · rename_i hall
      cases h
      refine ⟨rfl, p, hp, ?_⟩
      intro c hc
      have := List.all_eq_true.mp hall c hc
      simpa using this
    · cases h

/-- discarding cards one holds (with multiplicity) removes exactly as many cards -/
theorem C10_draw_count (hole cards : List Card) (h : ∀ c, c ∈ cards → cards.count c ≤ hole.count c) :
    (cards.foldl List.erase hole).length + cards.length = hole.length := by
  induction cards generalizing hole with
  | nil => simp
  | cons c cs ih =>
    simp only [List.foldl_cons, List.length_cons]
    have hc : c ∈ hole := by
      have := h c List.mem_cons_self
      simp only [List.count_cons_self] at this
      exact List.count_pos_iff.mp (by omega)
    have := ih (hole.erase c) (by
      intro d hd
      have := h d (List.mem_cons_of_mem _ hd)
      by_cases hdc : d = c
      · subst hdc
        rw [List.count_cons_self] at this
        rw [List.count_erase_self]; omega
      · rw [List.count_cons_of_ne (Ne.symm hdc)] at this
        rw [List.count_erase_of_ne hdc]; exact this)
    rw [List.length_erase_of_mem hc] at this
    have : 0 < hole.length := List.length_pos_of_mem hc
    omega

/-- one discard: the card leaves the hand at its first position, its facing goes to the end of
    the player's queue (= the facing of the replacement), and it lands in the street's discards -/
def discardOne (p si : Nat) (s : State) (c : Card) : State :=
  let own := s.holeOf p
  let idx := own.idxOf c
  { s with
    holeDealing := s.holeDealing.set p (s.holeDealing.getD p [] ++ [getB (s.holeStatusesOf p) idx])
    hole := s.hole.set p (own.eraseIdx idx)
    holeStatuses := s.holeStatuses.set p ((s.holeStatusesOf p).eraseIdx idx)
    discarded := s.discarded.set si (s.discarded.getD si [] ++ [c]) }

theorem C10_draw_step (m : M) (cards : List Card) (rest : List Ctl) (hctl : m.ctl = .opDraw cards :: rest)
    (p : Nat) (hp : m.st.standerPatIndex = some p) (si : Int) (hsi : m.st.streetIndex = some si)
    (hv : m.st.verifyStandingPat cards = .ok cards) :
    (step cfg env m).st = cards.foldl (discardOne p si.toNat)
      { m.st with standingPat := m.st.standingPat.set p false } ∧
    (step cfg env m).ctl = .updDeal (some (.standingPatOrDiscarding p cards)) :: rest := by
  unfold step; rw [hctl]; simp only []
  rw [hv, hp, hsi]
  refine ⟨?_, ?_⟩ <;> first | trivial | rfl

theorem discardOne_spec (p si : Nat) (s : State) (c : Card) (hp : p < s.hole.length)
    (hp' : p < s.holeStatuses.length) (hq : p < s.holeDealing.length) :
    (discardOne p si s c).holeOf p = (s.holeOf p).erase c ∧
    (discardOne p si s c).holeStatusesOf p = (s.holeStatusesOf p).eraseIdx ((s.holeOf p).idxOf c) ∧
    (discardOne p si s c).holeDealing.getD p [] =
      s.holeDealing.getD p [] ++ [getB (s.holeStatusesOf p) ((s.holeOf p).idxOf c)] ∧
    (discardOne p si s c).hole.length = s.hole.length ∧
    (discardOne p si s c).holeStatuses.length = s.holeStatuses.length ∧
    (discardOne p si s c).holeDealing.length = s.holeDealing.length := by
  unfold discardOne
  simp only [State.holeOf, State.holeStatusesOf, List.length_set]
  refine ⟨?_, ?_, ?_, ?_, ?_, ?_⟩ <;> try trivial
  · simp [List.getD_eq_getElem?_getD, hp, List.erase_eq_eraseIdx_of_idxOf]
  · simp [List.getD_eq_getElem?_getD, hp']
  · simp [List.getD_eq_getElem?_getD, hq]

/-- the whole discard: the hand loses exactly the named cards, and one replacement per discard is
    queued -/
theorem C10_draw_fold (p si : Nat) (cards : List Card) (s : State) (hp : p < s.hole.length)
    (hp' : p < s.holeStatuses.length) (hq : p < s.holeDealing.length) :
    (cards.foldl (discardOne p si) s).holeOf p = cards.foldl List.erase (s.holeOf p) ∧
    ((cards.foldl (discardOne p si) s).holeDealing.getD p []).length =
      (s.holeDealing.getD p []).length + cards.length := by
  induction cards generalizing s with
  | nil => simp
  | cons c cs ih =>
    simp only [List.foldl_cons, List.length_cons]
    obtain ⟨h1, _, h3, h4, h5, h6⟩ := discardOne_spec p si s c hp hp' hq
    obtain ⟨i1, i2⟩ := ih (discardOne p si s c) (by omega) (by omega) (by omega)
    rw [i1, i2, h1, h3]
    simp only [List.length_append, List.length_cons, List.length_nil]
    refine ⟨?_, ?_⟩ <;> first | trivial | rfl | omega

/-! ### what the start of a street sets up -/
/-- the queues `_begin_dealing` builds before it looks at the deck -/
def queued (cfg : Config) (s : State) (st : Street) : List (List Bool) :=
  (playerIndices cfg).map fun i => if getB s.statuses i then s.holeDealing.getD i [] ++ st.hole
    else s.holeDealing.getD i []

/-- the number of hole cards the street asks for -/
def pendingCount (cfg : Config) (s : State) (st : Street) : Nat :=
  ((queued cfg s st).map List.length).foldl (· + ·) 0

/-- what the dealer can still draw on: the deck, then the shuffled burnt, mucked and discarded cards -/
def dealerStock (env : Env) (s : State) : List Card := s.deck ++ env.shuffle s.reservedCards

/-- **set-up of a street** (`dealSetup` = the body of `_begin_dealing`): a burn is pending exactly
    when the street prescribes one; every player in the hand must draw exactly when it is a draw
    street (the others keep their flag, which is false); and
    * if the hole cards asked for do not exceed the dealer's stock, every player in the hand is owed
      exactly `st.hole` on top of what he was owed before (nothing, by `C10_betting_after_dealing`),
      players out of the hand are owed nothing new, and every board is owed `st.board` cards;
    * otherwise nobody is owed a hole card and every board is owed `st.board + |st.hole|` cards. -/
theorem C10_deal_setup (s : State) (st : Street) :
    let s' := dealSetup cfg env s st
    s'.cardBurning = st.burn ∧
    s'.standingPat = (playerIndices cfg).map (fun i => if getB s.statuses i then st.draw else getB s.standingPat i) ∧
    (pendingCount cfg s st ≤ (dealerStock env s).length →
      s'.holeDealing = queued cfg s st ∧
      s'.boardDealing = List.replicate cfg.startingBoardCount.toNat st.board) ∧
    (¬ pendingCount cfg s st ≤ (dealerStock env s).length →
      s'.holeDealing = (queued cfg s st).map (fun _ => []) ∧
      s'.boardDealing = List.replicate cfg.startingBoardCount.toNat (st.board + st.hole.length)) ∧
    s'.hole = s.hole ∧ s'.holeStatuses = s.holeStatuses ∧ s'.statuses = s.statuses ∧ s'.deck = s.deck := by
  intro s'
  by_cases hfit : pendingCount cfg s st ≤ (dealerStock env s).length
  · have hs' : s' = { s with
        cardBurning := st.burn
        boardDealing := List.replicate cfg.startingBoardCount.toNat st.board
        holeDealing := queued cfg s st
        standingPat := (playerIndices cfg).map fun i =>
          if getB s.statuses i then st.draw else getB s.standingPat i } := by
      show dealSetup cfg env s st = _
      unfold dealSetup
      simp only [State.dealableCards, State.reservedCards, if_true]
      rw [if_neg (by simpa [pendingCount, queued, dealerStock, State.reservedCards] using hfit)]
      rfl
    rw [hs']
    exact ⟨rfl, rfl, fun _ => ⟨rfl, rfl⟩, fun h => absurd hfit h, rfl, rfl, rfl, rfl⟩
  · have hs' : s' = { s with
        cardBurning := st.burn
        boardDealing := (List.replicate cfg.startingBoardCount.toNat st.board).map (· + st.hole.length)
        holeDealing := (queued cfg s st).map fun _ => []
        standingPat := (playerIndices cfg).map fun i =>
          if getB s.statuses i then st.draw else getB s.standingPat i } := by
      show dealSetup cfg env s st = _
      unfold dealSetup
      simp only [State.dealableCards, State.reservedCards, if_true]
      rw [if_pos (by simpa [pendingCount, queued, dealerStock, State.reservedCards] using hfit)]
      rfl
    rw [hs']
    refine ⟨rfl, rfl, fun h => absurd h hfit, fun _ => ⟨rfl, ?_⟩, rfl, rfl, rfl, rfl⟩
    simp

/-- per player: who is owed what after the set-up, when the stock suffices -/
theorem C10_owed (s : State) (st : Street) (i : Nat) (hi : i < cfg.n)
    (hfit : pendingCount cfg s st ≤ (dealerStock env s).length) :
    (dealSetup cfg env s st).holeDealing.getD i [] =
      if getB s.statuses i then s.holeDealing.getD i [] ++ st.hole else s.holeDealing.getD i [] := by
  rw [((C10_deal_setup (cfg := cfg) (env := env) s st).2.2.1 hfit).1]
  simp [queued, playerIndices, List.getD_eq_getElem?_getD, hi]

/-- … and when it does not: nobody is owed a hole card -/
theorem C10_owed_fallback (s : State) (st : Street) (i : Nat)
    (hfit : ¬ pendingCount cfg s st ≤ (dealerStock env s).length) :
    (dealSetup cfg env s st).holeDealing.getD i [] = [] := by
  rw [((C10_deal_setup (cfg := cfg) (env := env) s st).2.2.2.1 hfit).1]
  simp only [List.getD_eq_getElem?_getD, List.getElem?_map]
  cases (queued cfg s st)[i]? <;> rfl

/-- **`_begin_dealing` as a step**: when it goes through, the street index has advanced by one
    (to 0 at the first street), the new street exists, and the state is the set-up above -/
theorem C10_begin_deal (m : M) (rest : List Ctl) (hctl : m.ctl = .beginDeal :: rest)
    (herr : (step cfg env m).err = none) :
    ∃ s0 st, s0 = { m.st with streetIndex := match m.st.streetIndex with
        | none => some 0
        | some i => some (i + 1) } ∧
      s0.street cfg = some st ∧ (step cfg env m).st = dealSetup cfg env s0 st ∧
      (step cfg env m).ctl = .updDeal none :: rest := by
  unfold step at herr ⊢; rw [hctl] at herr ⊢; simp only [] at herr ⊢
  split at herr
  · simp [M.raise] at herr
  · rename_i hclear
    rw [if_neg hclear]
    split at herr
    · rename_i si st hsi hst
      refine ⟨_, st, rfl, hst, ?_⟩
      rw [hsi] at herr ⊢
      split at herr
      · simp [M.raise] at herr
      · rename_i h2
        rw [if_neg h2]
        split at herr
        · simp [M.raise] at herr
        · rename_i h3
          rw [if_neg h3]
          refine ⟨?_, rfl⟩
          simp only [cont_st]
          cases h0 : m.st.streetIndex <;> rw [h0] at hsi <;> simp only at hsi <;> cases hsi <;> rfl
    · simp [M.raise] at herr

/-! ### betting and dealing never overlap -/
theorem C10_betting_after_dealing {m : M} (h : Reach cfg env m) (rest : List Ctl)
    (hc : m.ctl = .beginBet :: rest) :
    m.st.cardBurning = false ∧ m.st.anyHoleDealing = false ∧ m.st.anyBoardDealing = false ∧
    anyB m.st.standingPat = false := by
  have := (C07_phase_order h).head _ _ hc
  have hd := this .deal
  simp only [Phase.flag, Bool.or_eq_false_iff] at hd
  exact ⟨hd.1.1.1, hd.1.1.2, hd.1.2, hd.2⟩

theorem C10_no_actor_while_dealing {m : M} (h : Reach cfg env m) (ha : m.st.actors ≠ []) :
    m.st.cardBurning = false ∧ m.st.anyHoleDealing = false ∧ m.st.anyBoardDealing = false ∧
    anyB m.st.standingPat = false := by
  have hb : Phase.flag .bet m.st = true := by
    cases hl : m.st.actors with
    | nil => exact absurd hl ha
    | cons a as => simp [Phase.flag, hl]
  have hd : Phase.flag .deal m.st = false := by
    cases hf : Phase.flag .deal m.st with
    | false => rfl
    | true => exact absurd (C07_exclusive_pair h .deal .bet hf hb) (by decide)
  simp only [Phase.flag, Bool.or_eq_false_iff] at hd
  exact ⟨hd.1.1.1, hd.1.1.2, hd.1.2, hd.2⟩

end PK
