/-
  C04, the content of the tables — **the standard lookup orders five-card hands exactly as the rules
  of poker do**.

  `PK.Spec.Ranking.standardKey` is the ranking written from the rules (category from the
  multiplicities of the ranks, straights with the ace high or low, flushes, ties broken by
  (multiplicity, rank) descending), independent of lookups.py.  The model's table is what
  `Lookup.__init__` builds (prime products, `_add_multisets`, `_add_straights`, last write wins,
  `__reset_ranks`).

  * `standard_table_ok`   the kernel evaluates the model's table construction and the specification on
                          all 7 462 signatures (rank multiset × suitedness) a five-card hand of the
                          52-card deck can have, and checks that every signature has an entry, that its
                          label is its category, and that table index and specification key order the
                          signatures identically (`decide +kernel`; no axioms beyond `propext`);
  * `C04_standard_table`  lifted to cards: for **any** two lists of five distinct cards of the deck, in
                          any order, both are accepted as hands of every hand type that uses the
                          standard lookup, the label is the category the rules give, and
                          `a < b` / `a == b` hold exactly when the rules say so;
  * `C04_standard_high`, `C04_standard_low`   the same in terms of `score` for `StandardHighHand` and
                          for the deuce-to-seven low hand (reversed).
-/
import PK.Properties.C04Kernel
import PK.Properties.C04
import Mathlib.Data.List.Sort
import Mathlib.Data.List.Nodup
import Batteries.Data.List.Perm
namespace PK
open PK.Spec PK.TableCheck

/-! ### the specification looks at the multiset of ranks only -/

theorem countEq_perm (v : Nat) {a b : List Nat} (h : a.Perm b) : countEq v a = countEq v b := by
  induction h with
  | nil => rfl
  | cons x _ ih => simp only [countEq, ih]
  | swap x y l => simp only [countEq]; split <;> split <;> rfl
  | trans _ _ ih1 ih2 => rw [ih1, ih2]

theorem groupsFrom_perm {a b : List Nat} (h : a.Perm b) : ∀ n, groupsFrom a n = groupsFrom b n
  | 0 => rfl
  | n + 1 => by
    unfold groupsFrom
    rw [countEq_perm (n + 1) h, groupsFrom_perm h n]

theorem standardKey_perm {a b : List Rank} (h : a.Perm b) (s : Bool) :
    standardKey a s = standardKey b s := by
  unfold standardKey
  rw [groupsFrom_perm (h.map valueHigh) 14]

/-! ### the enumeration of signatures is complete -/

theorem mem_multisets : ∀ (w lo k : Nat) (l : List Nat), l.length = k → l.Pairwise (· ≤ ·) →
    (∀ x ∈ l, lo ≤ x ∧ x < lo + w) → l ∈ multisets w lo k
  | 0, lo, k, l, hk, _, hb => by
    cases l with
    | nil => subst hk; simp [multisets]
    | cons x xs => have := hb x List.mem_cons_self; omega
  | w + 1, lo, k, l, hk, hs, hb => by
    unfold multisets
    induction k generalizing l with
    | zero =>
      have : l = [] := List.eq_nil_of_length_eq_zero hk
      subst this; simp [msStep]
    | succ k ih =>
      cases l with
      | nil => cases hk
      | cons x xs =>
        unfold msStep
        rw [List.mem_append]
        have ⟨hx, hxs⟩ := List.pairwise_cons.1 hs
        by_cases hxl : x = lo
        · left
          subst hxl
          rw [List.mem_map]
          refine ⟨xs, ih xs (by simpa using hk) hxs (fun y hy => hb y (List.mem_cons_of_mem _ hy)), rfl⟩
        · right
          have hxb := hb x List.mem_cons_self
          apply mem_multisets w (lo + 1) (k + 1) (x :: xs) hk hs
          intro y hy
          rcases List.mem_cons.1 hy with rfl | hy'
          · omega
          · have := hx y hy'
            have := hb y hy
            omega

theorem allSame_eq : ∀ (l : List Nat), allSame l = true → ∀ x ∈ l, ∀ y ∈ l, x = y
  | [], _, x, hx, _, _ => by cases hx
  | [a], _, x, hx, y, hy => by
    simp only [List.mem_cons, List.mem_nil_iff, or_false] at hx hy; rw [hx, hy]
  | a :: b :: rest, h, x, hx, y, hy => by
    unfold allSame at h
    by_cases hab : a = b
    · subst hab
      simp only [if_true] at h
      have ih := allSame_eq (a :: rest) h
      have fix : ∀ z, z ∈ a :: a :: rest → z ∈ a :: rest := by
        intro z hz
        rcases List.mem_cons.1 hz with rfl | hz'
        · exact List.mem_cons_self
        · exact hz'
      exact ih x (fix x hx) y (fix y hy)
    · simp [hab] at h

theorem strictlyIncreasing_of : ∀ (l : List Nat), l.Pairwise (· ≤ ·) → l.Nodup → strictlyIncreasing l = true
  | [], _, _ => rfl
  | [a], _, _ => rfl
  | a :: b :: rest, hs, hn => by
    unfold strictlyIncreasing
    have ⟨h1, h2⟩ := List.pairwise_cons.1 hs
    have ⟨n1, n2⟩ := List.nodup_cons.1 hn
    have hle := h1 b List.mem_cons_self
    have hne : a ≠ b := fun e => n1 (e ▸ List.mem_cons_self)
    have : a < b := by omega
    simp only [this, if_true]
    exact strictlyIncreasing_of (b :: rest) h2 n2

/-! ### five distinct cards of the deck -/

structure FiveCards (cs : List Card) : Prop where
  len : cs.length = 5
  nodup : cs.Nodup
  known : ∀ c ∈ cs, c.rank < 13 ∧ c.suit < 4

theorem card_ext {c d : Card} (h1 : c.rank = d.rank) (h2 : c.suit = d.suit) : c = d := by
  cases c; cases d; simp_all

/-- five distinct cards are not all of one rank (there are four suits) -/
theorem not_five_of_a_kind {cs : List Card} (h : FiveCards cs)
    (hall : ∀ x ∈ cs.map (·.rank), ∀ y ∈ cs.map (·.rank), x = y) : False := by
  have hinj : ∀ c ∈ cs, ∀ d ∈ cs, c.suit = d.suit → c = d := by
    intro c hc d hd hs
    exact card_ext (hall _ (List.mem_map_of_mem hc) _ (List.mem_map_of_mem hd)) hs
  have hnd : (cs.map (·.suit)).Nodup := List.Nodup.map_on hinj h.nodup
  have hsub : cs.map (·.suit) ⊆ List.range 4 := by
    intro s hs
    obtain ⟨c, hc, rfl⟩ := List.mem_map.1 hs
    exact List.mem_range.2 (h.known c hc).2
  have := (List.subperm_of_subset hnd hsub).length_le
  simp [h.len] at this

/-- suited distinct cards have distinct ranks -/
theorem suited_ranks_nodup {cs : List Card} (h : FiveCards cs) (hs : areSuited cs = true) :
    (cs.map (·.rank)).Nodup := by
  have hone : ∀ c ∈ cs, ∀ d ∈ cs, c.suit = d.suit := by
    intro c hc d hd
    unfold areSuited at hs
    have hle : (dedup (cs.map (·.suit))).length ≤ 1 := by simpa using hs
    have hc' : c.suit ∈ dedup (cs.map (·.suit)) := (mem_dedup' _ _).2 (List.mem_map_of_mem hc)
    have hd' : d.suit ∈ dedup (cs.map (·.suit)) := (mem_dedup' _ _).2 (List.mem_map_of_mem hd)
    generalize dedup (cs.map (·.suit)) = dl at hle hc' hd'
    match dl, hle, hc', hd' with
    | [], _, hc', _ => cases hc'
    | [x], _, hc', hd' =>
      simp only [List.mem_cons, List.mem_nil_iff, or_false] at hc' hd'
      rw [hc', hd']
    | _ :: _ :: _, hle, _, _ => simp at hle
  apply List.Nodup.map_on _ h.nodup
  intro c hc d hd hr
  exact card_ext hr (hone c hc d hd)

/-- the signature of five distinct cards is in the enumerated family -/
theorem signature_mem {cs : List Card} (h : FiveCards cs) :
    ∃ rs : List Rank, rs.Perm (cs.map (·.rank)) ∧ (rs, areSuited cs) ∈ signatures5 := by
  let rs := (cs.map (·.rank)).insertionSort (· ≤ ·)
  have hperm : rs.Perm (cs.map (·.rank)) := List.perm_insertionSort _ _
  have hsorted : rs.Pairwise (· ≤ ·) := List.pairwise_insertionSort _ _
  have hlen : rs.length = 5 := by rw [hperm.length_eq, List.length_map, h.len]
  have hb : ∀ x ∈ rs, 0 ≤ x ∧ x < 0 + 13 := by
    intro x hx
    obtain ⟨c, hc, rfl⟩ := List.mem_map.1 (hperm.mem_iff.1 hx)
    have := (h.known c hc).1
    exact ⟨Nat.zero_le _, by simpa using this⟩
  have hmem : rs ∈ multisets 13 0 5 := mem_multisets 13 0 5 rs hlen hsorted hb
  refine ⟨rs, hperm, ?_⟩
  unfold signatures5
  rw [List.mem_flatMap]
  refine ⟨rs, hmem, ?_⟩
  rw [List.mem_append]
  cases hsu : areSuited cs with
  | false =>
    left
    have : allSame rs = false := by
      cases hall : allSame rs with
      | false => rfl
      | true =>
        exfalso
        apply not_five_of_a_kind h
        intro x hx y hy
        exact allSame_eq rs hall x (hperm.mem_iff.2 hx) y (hperm.mem_iff.2 hy)
    simp [this]
  | true =>
    right
    have : strictlyIncreasing rs = true :=
      strictlyIncreasing_of rs hsorted (hperm.nodup_iff.2 (suited_ranks_nodup h hsu))
    simp [this]

theorem Lookup.contains_of_get {t : Lookup} {k : Key} {e : Entry} (h : t.get? k = some e) :
    t.contains k = true := by
  unfold Lookup.get? at h
  unfold Lookup.contains Trie.contains
  cases hd : t.dict.get? k.code <;> simp_all

theorem tbl_standard : Tables.build.tbl .standard = LookupId.standard.builder.finish := by
  unfold Tables.build
  simp only [LookupId.all, List.map_cons, List.find?_cons]
  rfl

/-- what a lookup passing the check says about a hand of five distinct cards -/
theorem standard_entry {t : Lookup} (hok : tableOk t standardKey signatures5 = true)
    {cs : List Card} (h : FiveCards cs) :
    ∃ k rs, rs.Perm (cs.map (·.rank)) ∧ (rs, areSuited cs) ∈ signatures5 ∧
      getKey .standard cs = .ok (k, areSuited cs) ∧ hashRanks rs = some k := by
  obtain ⟨rs, hperm, hmem⟩ := signature_mem h
  obtain ⟨k1, _, _, _, hk1, _⟩ :=
    tableOk_sound _ _ _ hok (rs, areSuited cs) hmem (rs, areSuited cs) hmem
  refine ⟨k1, rs, hperm, hmem, ?_, hk1⟩
  unfold getKey
  have : hashRanks (cs.map (·.rank)) = some k1 := by rw [← hashRanks_perm hperm]; exact hk1
  simp [LookupId.rainbow, this]

/-- the statement for any tables whose standard lookup passes the check (nothing to evaluate here) -/
theorem standard_table_of_check (T : Tables) (t : Lookup) (hT : T.tbl .standard = t)
    (hok : tableOk t standardKey signatures5 = true)
    (ht : HandType) (hl : ht.lookup = .standard) (a b : List Card)
    (ha : FiveCards a) (hb : FiveCards b) :
    ∃ x y, mkHand T ht a = .ok x ∧ mkHand T ht b = .ok y ∧
      x.entry.label = (standardKey (a.map (·.rank)) (areSuited a)).headD 99 ∧
      (x.entry.index < y.entry.index ↔
        lexLt (standardKey (a.map (·.rank)) (areSuited a)) (standardKey (b.map (·.rank)) (areSuited b)) = true) ∧
      (x.entry.index = y.entry.index ↔
        standardKey (a.map (·.rank)) (areSuited a) = standardKey (b.map (·.rank)) (areSuited b)) := by
  obtain ⟨ka, ra, hpa, hma, hga, hha⟩ := standard_entry hok ha
  obtain ⟨kb, rb, hpb, hmb, hgb, hhb⟩ := standard_entry hok hb
  obtain ⟨k1, k2, e1, e2, hk1, hk2, he1, he2, hlab, hlt, heq⟩ :=
    tableOk_sound _ _ _ hok (ra, areSuited a) hma (rb, areSuited b) hmb
  simp only at hk1 hk2 he1 he2 hlab hlt heq
  rw [hha] at hk1; rw [hhb] at hk2
  cases hk1; cases hk2
  rw [standardKey_perm hpa, standardKey_perm hpb] at hlt heq
  rw [standardKey_perm hpa] at hlab
  refine ⟨⟨a, e1⟩, ⟨b, e2⟩, ?_, ?_, hlab, hlt, heq⟩
  · unfold mkHand hasEntry getEntry
    rw [hl, hga, hT]
    simp [Lookup.contains_of_get he1, he1]
  · unfold mkHand hasEntry getEntry
    rw [hl, hgb, hT]
    simp [Lookup.contains_of_get he2, he2]

/-- **the standard table is the rules of poker**, for every hand type evaluated on it -/
theorem C04_standard_table (ht : HandType) (hl : ht.lookup = .standard) (a b : List Card)
    (ha : FiveCards a) (hb : FiveCards b) :
    ∃ x y, mkHand Tables.build ht a = .ok x ∧ mkHand Tables.build ht b = .ok y ∧
      x.entry.label = (standardKey (a.map (·.rank)) (areSuited a)).headD 99 ∧
      (x.entry.index < y.entry.index ↔
        lexLt (standardKey (a.map (·.rank)) (areSuited a)) (standardKey (b.map (·.rank)) (areSuited b)) = true) ∧
      (x.entry.index = y.entry.index ↔
        standardKey (a.map (·.rank)) (areSuited a) = standardKey (b.map (·.rank)) (areSuited b)) :=
  standard_table_of_check Tables.build _ tbl_standard standard_table_ok ht hl a b ha hb

/-- `StandardHighHand`: `a < b` exactly when the rules rank `a` below `b`; `a == b` exactly when they tie -/
theorem C04_standard_high (a b : List Card) (ha : FiveCards a) (hb : FiveCards b) :
    ∃ x y, mkHand Tables.build .standardHigh a = .ok x ∧ mkHand Tables.build .standardHigh b = .ok y ∧
      (score .standardHigh x < score .standardHigh y ↔
        lexLt (standardKey (a.map (·.rank)) (areSuited a)) (standardKey (b.map (·.rank)) (areSuited b)) = true) ∧
      (score .standardHigh x = score .standardHigh y ↔
        standardKey (a.map (·.rank)) (areSuited a) = standardKey (b.map (·.rank)) (areSuited b)) := by
  obtain ⟨x, y, hx, hy, _, hlt, heq⟩ := C04_standard_table .standardHigh rfl a b ha hb
  refine ⟨x, y, hx, hy, ?_, ?_⟩
  · rw [C04_high_score .standardHigh rfl]; exact hlt
  · rw [C04_eq_iff_index]; exact heq

/-- deuce-to-seven low (`StandardLowHand`): the same table read backwards — `a < b` as lows exactly
    when the rules rank `b` below `a` as highs -/
theorem C04_standard_low (a b : List Card) (ha : FiveCards a) (hb : FiveCards b) :
    ∃ x y, mkHand Tables.build .standardLow a = .ok x ∧ mkHand Tables.build .standardLow b = .ok y ∧
      (score .standardLow x < score .standardLow y ↔
        lexLt (standardKey (b.map (·.rank)) (areSuited b)) (standardKey (a.map (·.rank)) (areSuited a)) = true) ∧
      (score .standardLow x = score .standardLow y ↔
        standardKey (a.map (·.rank)) (areSuited a) = standardKey (b.map (·.rank)) (areSuited b)) := by
  obtain ⟨y, x, hy, hx, _, hlt, heq⟩ := C04_standard_table .standardLow rfl b a hb ha
  refine ⟨x, y, hx, hy, ?_, ?_⟩
  · rw [C04_low_score .standardLow rfl]; exact hlt
  · rw [C04_eq_iff_index]
    exact ⟨fun e => (heq.1 e.symm).symm, fun e => (heq.2 e.symm).symm⟩

/-- the premises are satisfiable and the statement is not vacuous: a royal flush beats four aces -/
example : FiveCards [⟨0, 0⟩, ⟨12, 0⟩, ⟨11, 0⟩, ⟨10, 0⟩, ⟨9, 0⟩] ∧ FiveCards [⟨0, 0⟩, ⟨0, 1⟩, ⟨0, 2⟩, ⟨0, 3⟩, ⟨12, 0⟩] ∧
    lexLt (standardKey [0, 0, 0, 0, 12] false) (standardKey [0, 12, 11, 10, 9] true) = true := by
  refine ⟨⟨rfl, by decide, by decide⟩, ⟨rfl, by decide, by decide⟩, by decide⟩

end PK
