/-
  C04, the content of the tables — **every lookup orders the hands it evaluates exactly as the rules of
  poker do, and accepts exactly the hands the rules admit**.

  The rankings in `PK.Spec.Ranking` are written from the rules (category from the multiplicities of the
  ranks, straights with the ace high or low, flushes, ties broken by (multiplicity, rank) descending;
  short-deck: flush above full house, A-9-8-7-6 straight; ace-to-five and eight-or-better lows; badugi;
  Kuhn), independently of lookups.py.  The model's tables are what `Lookup.__init__` builds (prime
  products, `_add_multisets`, `_add_straights`, last write wins, `__reset_ranks`).

  * `PK.Properties.C04Kernel*`: the kernel evaluates the model's construction of each table and the
    specification on every signature (rank multiset × suitedness) a hand can have — 7 462 for the
    five-card hands of the 52-card deck, 2 379 for one to four rainbow cards — and checks that every
    admissible signature has an entry, that its label is its category, that table index and
    specification key order the signatures identically, and that no inadmissible signature has an
    entry (`decide +kernel`; no axioms beyond `propext`).
  * here, lifted to cards (`PK.Proofs.TableLift`: the enumeration of signatures is complete — sorting,
    pigeonhole on four suits; the specifications look at the multiset of ranks only): for **any** card
    lists, in any order,

      `C04_standard_table` (`_high`, `_low`)   StandardHighHand, StandardLowHand, and the five-card
                                               evaluations inside Omaha / Greek hold'em
      `C04_short_deck_table`, `_rejects`       ShortDeckHoldemHand
      `C04_regular_low_table`                  RegularLowHand (razz)
      `C04_eight_table`, `_rejects`            EightOrBetterLowHand and Omaha eight-or-better
      `C04_badugi_table`, `_rejects`, `_not_rainbow`   BadugiHand and StandardBadugiHand
      `C04_kuhn_table`, `_rejects`             KuhnPokerHand

    each saying: both lists are accepted as hands, the label is the category the rules give, and
    `index a < index b` / `index a = index b` hold exactly when the rules rank `a` before / level with
    `b`; resp. the constructor raises `ValueError`.
-/
import PK.Properties.C04Kernel
import PK.Properties.C04KernelRegular
import PK.Properties.C04KernelSmall
import PK.Proofs.TableLift
namespace PK
open PK.Spec PK.TableCheck

theorem tbl_eq (l : LookupId) : Tables.build.tbl l = l.builder.finish := by
  cases l <;> (unfold Tables.build; simp only [LookupId.all, List.map_cons, List.find?_cons]; rfl)

/-! ### five cards of the 52-card deck: standard ranking -/

/-- **the standard table is the rules of poker**, for every hand type evaluated on it -/
theorem C04_standard_table (ht : HandType) (hl : ht.lookup = .standard) (a b : List Card)
    (ha : FiveCards a) (hb : FiveCards b) :
    ∃ x y, mkHand Tables.build ht a = .ok x ∧ mkHand Tables.build ht b = .ok y ∧
      x.entry.label = categoryLabel (standardKey (a.map (·.rank)) (areSuited a)) ∧
      (x.entry.index < y.entry.index ↔
        lexLt (standardKey (a.map (·.rank)) (areSuited a)) (standardKey (b.map (·.rank)) (areSuited b)) = true) ∧
      (x.entry.index = y.entry.index ↔
        standardKey (a.map (·.rank)) (areSuited a) = standardKey (b.map (·.rank)) (areSuited b)) := by
  obtain ⟨ra, hpa, _, hma⟩ := signature_mem ha
  obtain ⟨rb, hpb, _, hmb⟩ := signature_mem hb
  exact accept_of_check Tables.build .standard _ (tbl_eq _) standardKey categoryLabel signatures5
    standard_table_ok ht hl a b ha.allKnown hb.allKnown (Or.inl rfl) (Or.inl rfl)
    ra hpa hma (standardKey_perm hpa _) rb hpb hmb (standardKey_perm hpb _)

/-- `StandardHighHand`: `a < b` exactly when the rules rank `a` below `b`; `a == b` exactly when they tie -/
theorem C04_standard_high (a b : List Card) (ha : FiveCards a) (hb : FiveCards b) :
    ∃ x y, mkHand Tables.build .standardHigh a = .ok x ∧ mkHand Tables.build .standardHigh b = .ok y ∧
      (score .standardHigh x < score .standardHigh y ↔
        lexLt (standardKey (a.map (·.rank)) (areSuited a)) (standardKey (b.map (·.rank)) (areSuited b)) = true) ∧
      (score .standardHigh x = score .standardHigh y ↔
        standardKey (a.map (·.rank)) (areSuited a) = standardKey (b.map (·.rank)) (areSuited b)) := by
  obtain ⟨x, y, hx, hy, _, hlt, heq⟩ := C04_standard_table .standardHigh rfl a b ha hb
  refine ⟨x, y, hx, hy, ?_, ?_⟩
  · rw [C04_high_score .standardHigh rfl]; exact hlt
  · rw [C04_eq_iff_index]; exact heq

/-- deuce-to-seven low (`StandardLowHand`): the same table read backwards — `a < b` as lows exactly
    when the rules rank `b` below `a` as highs -/
theorem C04_standard_low (a b : List Card) (ha : FiveCards a) (hb : FiveCards b) :
    ∃ x y, mkHand Tables.build .standardLow a = .ok x ∧ mkHand Tables.build .standardLow b = .ok y ∧
      (score .standardLow x < score .standardLow y ↔
        lexLt (standardKey (b.map (·.rank)) (areSuited b)) (standardKey (a.map (·.rank)) (areSuited a)) = true) ∧
      (score .standardLow x = score .standardLow y ↔
        standardKey (a.map (·.rank)) (areSuited a) = standardKey (b.map (·.rank)) (areSuited b)) := by
  obtain ⟨y, x, hy, hx, _, hlt, heq⟩ := C04_standard_table .standardLow rfl b a hb ha
  refine ⟨x, y, hx, hy, ?_, ?_⟩
  · rw [C04_low_score .standardLow rfl]; exact hlt
  · rw [C04_eq_iff_index]
    exact ⟨fun e => (heq.1 e.symm).symm, fun e => (heq.2 e.symm).symm⟩

/-- the premises are satisfiable and the statement is not vacuous: a royal flush beats four aces -/
example : FiveCards [⟨0, 0⟩, ⟨12, 0⟩, ⟨11, 0⟩, ⟨10, 0⟩, ⟨9, 0⟩] ∧ FiveCards [⟨0, 0⟩, ⟨0, 1⟩, ⟨0, 2⟩, ⟨0, 3⟩, ⟨12, 0⟩] ∧
    lexLt (standardKey [0, 0, 0, 0, 12] false) (standardKey [0, 12, 11, 10, 9] true) = true := by
  refine ⟨⟨rfl, by decide, by decide⟩, ⟨rfl, by decide, by decide⟩, by decide⟩

/-! ### short-deck hold'em -/

theorem all_ranks {p : Nat → Bool} (cs : List Card) :
    (cs.map (·.rank)).all p = true ↔ ∀ c ∈ cs, p c.rank = true := by
  simp [List.all_eq_true]

theorem short_mem {cs : List Card} (h : FiveCards cs) (hs : ∀ c ∈ cs, isShortRank c.rank = true) :
    ∃ rs : List Rank, rs.Perm (cs.map (·.rank)) ∧ (rs, areSuited cs) ∈ shortDeckSigs := by
  obtain ⟨rs, hp, _, hm⟩ := signature_mem h
  refine ⟨rs, hp, ?_⟩
  unfold shortDeckSigs
  rw [List.mem_filter]
  exact ⟨hm, by simp only; rw [all_perm hp]; exact (all_ranks cs).2 hs⟩

theorem short_other_mem {cs : List Card} (h : FiveCards cs) (hs : ∃ c ∈ cs, isShortRank c.rank = false) :
    ∃ rs : List Rank, rs.Perm (cs.map (·.rank)) ∧ (rs, areSuited cs) ∈ shortDeckOther := by
  obtain ⟨rs, hp, _, hm⟩ := signature_mem h
  refine ⟨rs, hp, ?_⟩
  unfold shortDeckOther
  rw [List.mem_filter]
  refine ⟨hm, ?_⟩
  simp only
  rw [all_perm hp]
  cases hall : (cs.map (·.rank)).all isShortRank with
  | false => rfl
  | true =>
    obtain ⟨c, hc, hf⟩ := hs
    have := (all_ranks cs).1 hall c hc
    rw [hf] at this; cases this

/-- **ShortDeckHoldemHand**: five distinct cards of the ranks 6 … A are ordered by the short-deck rules -/
theorem C04_short_deck_table (a b : List Card) (ha : FiveCards a) (hb : FiveCards b)
    (hsa : ∀ c ∈ a, isShortRank c.rank = true) (hsb : ∀ c ∈ b, isShortRank c.rank = true) :
    ∃ x y, mkHand Tables.build .shortDeck a = .ok x ∧ mkHand Tables.build .shortDeck b = .ok y ∧
      x.entry.label = shortDeckLabel (shortDeckKey (a.map (·.rank)) (areSuited a)) ∧
      (x.entry.index < y.entry.index ↔
        lexLt (shortDeckKey (a.map (·.rank)) (areSuited a)) (shortDeckKey (b.map (·.rank)) (areSuited b)) = true) ∧
      (x.entry.index = y.entry.index ↔
        shortDeckKey (a.map (·.rank)) (areSuited a) = shortDeckKey (b.map (·.rank)) (areSuited b)) := by
  obtain ⟨ra, hpa, hma⟩ := short_mem ha hsa
  obtain ⟨rb, hpb, hmb⟩ := short_mem hb hsb
  exact accept_of_check Tables.build .shortDeck _ (tbl_eq _) shortDeckKey shortDeckLabel shortDeckSigs
    shortDeck_table_ok .shortDeck rfl a b ha.allKnown hb.allKnown (Or.inl rfl) (Or.inl rfl)
    ra hpa hma (shortDeckKey_perm hpa _) rb hpb hmb (shortDeckKey_perm hpb _)

/-- … and five distinct cards with a rank below the six are not a short-deck hand -/
theorem C04_short_deck_rejects (a : List Card) (ha : FiveCards a)
    (hs : ∃ c ∈ a, isShortRank c.rank = false) :
    mkHand Tables.build .shortDeck a = .error .valueError := by
  obtain ⟨ra, hpa, hma⟩ := short_other_mem ha hs
  exact reject_of_check Tables.build .shortDeck _ (tbl_eq _) shortDeckOther shortDeck_table_absent
    .shortDeck rfl a ra hpa hma

/-! ### ace-to-five low (razz) -/

/-- **RegularLowHand**: any five distinct cards are a hand; a smaller index is a better low, exactly as
    the ace-to-five rules rank them (pairs count, straights and flushes do not) -/
theorem C04_regular_low_table (a b : List Card) (ha : FiveCards a) (hb : FiveCards b) :
    ∃ x y, mkHand Tables.build .regularLow a = .ok x ∧ mkHand Tables.build .regularLow b = .ok y ∧
      x.entry.label = regularLowLabel (regularLowKey (a.map (·.rank)) (areSuited a)) ∧
      (x.entry.index < y.entry.index ↔
        lexLt (regularLowKey (a.map (·.rank)) (areSuited a)) (regularLowKey (b.map (·.rank)) (areSuited b)) = true) ∧
      (x.entry.index = y.entry.index ↔
        regularLowKey (a.map (·.rank)) (areSuited a) = regularLowKey (b.map (·.rank)) (areSuited b)) := by
  obtain ⟨ra, hpa, _, hma⟩ := signature_mem ha
  obtain ⟨rb, hpb, _, hmb⟩ := signature_mem hb
  exact accept_of_check Tables.build .regular _ (tbl_eq _) regularLowKey regularLowLabel signatures5
    regular_table_ok .regularLow rfl a b ha.allKnown hb.allKnown (Or.inl rfl) (Or.inl rfl)
    ra hpa hma (regularLowKey_perm hpa _) rb hpb hmb (regularLowKey_perm hpb _)

/-! ### eight-or-better low -/

/-- five different ranks, none above the eight (ace low) -/
def QualifiesEight (cs : List Card) : Prop := (cs.map (·.rank)).Nodup ∧ ∀ c ∈ cs, c.rank ≤ 7

theorem qualifies_iff {cs : List Card} {rs : List Rank} (hp : rs.Perm (cs.map (·.rank)))
    (hs : rs.Pairwise (· ≤ ·)) : qualifiesEight rs = true ↔ QualifiesEight cs := by
  unfold qualifiesEight QualifiesEight
  rw [Bool.and_eq_true, strictlyIncreasing_iff hs, hp.nodup_iff, all_perm hp, all_ranks]
  simp

theorem C04_eight_table (ht : HandType) (hl : ht.lookup = .eightOrBetter) (a b : List Card)
    (ha : FiveCards a) (hb : FiveCards b) (hqa : QualifiesEight a) (hqb : QualifiesEight b) :
    ∃ x y, mkHand Tables.build ht a = .ok x ∧ mkHand Tables.build ht b = .ok y ∧
      (x.entry.index < y.entry.index ↔
        lexLt (eightOrBetterKey (a.map (·.rank)) (areSuited a)) (eightOrBetterKey (b.map (·.rank)) (areSuited b)) = true) ∧
      (x.entry.index = y.entry.index ↔
        eightOrBetterKey (a.map (·.rank)) (areSuited a) = eightOrBetterKey (b.map (·.rank)) (areSuited b)) := by
  obtain ⟨ra, hpa, hsa, hma⟩ := signature_mem ha
  obtain ⟨rb, hpb, hsb, hmb⟩ := signature_mem hb
  have hma' : (ra, areSuited a) ∈ eightSigs := by
    unfold eightSigs; rw [List.mem_filter]; exact ⟨hma, (qualifies_iff hpa hsa).2 hqa⟩
  have hmb' : (rb, areSuited b) ∈ eightSigs := by
    unfold eightSigs; rw [List.mem_filter]; exact ⟨hmb, (qualifies_iff hpb hsb).2 hqb⟩
  obtain ⟨x, y, hx, hy, _, h1, h2⟩ :=
    accept_of_check Tables.build .eightOrBetter _ (tbl_eq _) eightOrBetterKey noLabel eightSigs
      eight_table_ok ht hl a b ha.allKnown hb.allKnown (Or.inl rfl) (Or.inl rfl)
      ra hpa hma' (eightOrBetterKey_perm hpa _) rb hpb hmb' (eightOrBetterKey_perm hpb _)
  exact ⟨x, y, hx, hy, h1, h2⟩

/-- … and five distinct cards with a pair or a card above the eight have no eight-or-better low -/
theorem C04_eight_rejects (ht : HandType) (hl : ht.lookup = .eightOrBetter) (a : List Card)
    (ha : FiveCards a) (hq : ¬ QualifiesEight a) :
    mkHand Tables.build ht a = .error .valueError := by
  obtain ⟨ra, hpa, hsa, hma⟩ := signature_mem ha
  have hma' : (ra, areSuited a) ∈ eightOther := by
    unfold eightOther; rw [List.mem_filter]
    refine ⟨hma, ?_⟩
    simp only
    cases hq' : qualifiesEight ra with
    | false => rfl
    | true => exact absurd ((qualifies_iff hpa hsa).1 hq') hq
  exact reject_of_check Tables.build .eightOrBetter _ (tbl_eq _) eightOther eight_table_absent
    ht hl a ra hpa hma'

/-! ### badugi -/

/-- one to four known cards of different suits -/
structure RainbowCards (cs : List Card) : Prop where
  pos : 1 ≤ cs.length
  le4 : cs.length ≤ 4
  known : ∀ c ∈ cs, c.rank < 13
  suits : ∀ c ∈ cs, c.suit < 4
  rainbow : areRainbow cs = true

theorem RainbowCards.allKnown {cs : List Card} (h : RainbowCards cs) : cs.all Card.known = true :=
  all_known_of_lt fun c hc => ⟨h.known c hc, h.suits c hc⟩

theorem rainbow_sig {cs : List Card} (h : RainbowCards cs) :
    ∃ rs : List Rank, rs.Perm (cs.map (·.rank)) ∧ rs.Pairwise (· ≤ ·) ∧ (rs, areSuited cs) ∈ rainbowSigs := by
  let rs := (cs.map (·.rank)).insertionSort (· ≤ ·)
  have hperm : rs.Perm (cs.map (·.rank)) := List.perm_insertionSort _ _
  have hsorted : rs.Pairwise (· ≤ ·) := List.pairwise_insertionSort _ _
  have hlen : rs.length = cs.length := by rw [hperm.length_eq, List.length_map]
  have hb : ∀ x ∈ rs, 0 ≤ x ∧ x < 0 + 13 := by
    intro x hx
    obtain ⟨c, hc, rfl⟩ := List.mem_map.1 (hperm.mem_iff.1 hx)
    exact ⟨Nat.zero_le _, by simpa using h.known c hc⟩
  have hmem : rs ∈ multisets 13 0 cs.length := mem_multisets 13 0 _ rs hlen hsorted hb
  have hsu : areSuited cs = (cs.length == 1) := by
    have hr := h.rainbow
    unfold areRainbow at hr
    unfold areSuited
    have : (dedup (cs.map (·.suit))).length = cs.length := by simpa using hr
    rw [this]
    have := h.pos
    rcases Nat.lt_or_ge 1 cs.length with h1 | h1
    · have h2 : ¬ cs.length ≤ 1 := by omega
      have h3 : ¬ cs.length = 1 := by omega
      simp [h2, h3]
    · have h2 : cs.length = 1 := by omega
      simp [h2]
  refine ⟨rs, hperm, hsorted, ?_⟩
  have hin : (rs, areSuited cs) ∈ signaturesRainbow cs.length := by
    unfold signaturesRainbow
    rw [List.mem_map]
    exact ⟨rs, hmem, by rw [hsu]⟩
  unfold rainbowSigs
  have h1 := h.pos; have h4 := h.le4
  simp only [List.mem_append]
  rcases (by omega : cs.length = 1 ∨ cs.length = 2 ∨ cs.length = 3 ∨ cs.length = 4) with e | e | e | e <;>
    (rw [e] at hin; simp [hin])

/-- **BadugiHand / StandardBadugiHand**: one to four cards of different suits and ranks are a hand; more
    cards are better, then lower cards (ace low for badugi, high for the standard rank order) -/
theorem C04_badugi_table (ht : HandType) (value : Rank → Nat)
    (hcase : (ht = .badugi ∧ value = valueLow) ∨ (ht = .standardBadugi ∧ value = valueHigh))
    (a b : List Card) (ha : RainbowCards a) (hb : RainbowCards b)
    (hda : (a.map (·.rank)).Nodup) (hdb : (b.map (·.rank)).Nodup) :
    ∃ x y, mkHand Tables.build ht a = .ok x ∧ mkHand Tables.build ht b = .ok y ∧
      (x.entry.index < y.entry.index ↔
        lexLt (badugiKey value (a.map (·.rank)) (areSuited a)) (badugiKey value (b.map (·.rank)) (areSuited b)) = true) ∧
      (x.entry.index = y.entry.index ↔
        badugiKey value (a.map (·.rank)) (areSuited a) = badugiKey value (b.map (·.rank)) (areSuited b)) := by
  obtain ⟨ra, hpa, hsa, hma⟩ := rainbow_sig ha
  obtain ⟨rb, hpb, hsb, hmb⟩ := rainbow_sig hb
  have hma' : (ra, areSuited a) ∈ badugiSigs := by
    unfold badugiSigs; rw [List.mem_filter]
    exact ⟨hma, (strictlyIncreasing_iff hsa).2 (hpa.nodup_iff.2 hda)⟩
  have hmb' : (rb, areSuited b) ∈ badugiSigs := by
    unfold badugiSigs; rw [List.mem_filter]
    exact ⟨hmb, (strictlyIncreasing_iff hsb).2 (hpb.nodup_iff.2 hdb)⟩
  rcases hcase with ⟨rfl, rfl⟩ | ⟨rfl, rfl⟩
  · obtain ⟨x, y, hx, hy, _, h1, h2⟩ :=
      accept_of_check Tables.build .badugi _ (tbl_eq _) (badugiKey valueLow) noLabel badugiSigs
        badugi_table_ok .badugi rfl a b ha.allKnown hb.allKnown
        (Or.inr ha.rainbow) (Or.inr hb.rainbow) ra hpa hma' (badugiKey_perm valueLow hpa _)
        rb hpb hmb' (badugiKey_perm valueLow hpb _)
    exact ⟨x, y, hx, hy, h1, h2⟩
  · obtain ⟨x, y, hx, hy, _, h1, h2⟩ :=
      accept_of_check Tables.build .standardBadugi _ (tbl_eq _) (badugiKey valueHigh) noLabel badugiSigs
        standardBadugi_table_ok .standardBadugi rfl a b ha.allKnown hb.allKnown
        (Or.inr ha.rainbow) (Or.inr hb.rainbow) ra hpa hma' (badugiKey_perm valueHigh hpa _)
        rb hpb hmb' (badugiKey_perm valueHigh hpb _)
    exact ⟨x, y, hx, hy, h1, h2⟩

/-- … cards of different suits with a rank twice are not a badugi hand -/
theorem C04_badugi_rejects (ht : HandType) (hcase : ht = .badugi ∨ ht = .standardBadugi)
    (a : List Card) (ha : RainbowCards a) (hda : ¬ (a.map (·.rank)).Nodup) :
    mkHand Tables.build ht a = .error .valueError := by
  obtain ⟨ra, hpa, hsa, hma⟩ := rainbow_sig ha
  have hma' : (ra, areSuited a) ∈ badugiOther := by
    unfold badugiOther; rw [List.mem_filter]
    refine ⟨hma, ?_⟩
    simp only
    cases hq : strictlyIncreasing ra with
    | false => rfl
    | true => exact absurd (hpa.nodup_iff.1 ((strictlyIncreasing_iff hsa).1 hq)) hda
  rcases hcase with rfl | rfl
  · exact reject_of_check Tables.build .badugi _ (tbl_eq _) badugiOther badugi_table_absent
      .badugi rfl a ra hpa hma'
  · exact reject_of_check Tables.build .standardBadugi _ (tbl_eq _) badugiOther standardBadugi_table_absent
      .standardBadugi rfl a ra hpa hma'

/-- … and neither are cards two of which share a suit -/
theorem C04_badugi_not_rainbow (ht : HandType) (hcase : ht = .badugi ∨ ht = .standardBadugi)
    (a : List Card) (h : areRainbow a = false) :
    mkHand Tables.build ht a = .error .valueError := by
  rcases hcase with rfl | rfl <;> exact reject_not_rainbow _ _ a rfl h

/-! ### Kuhn poker -/

theorem kuhn_sig (c : Card) (hk : c.rank < 13) :
    ([c.rank], areSuited [c]) ∈ signaturesRainbow 1 := by
  have hs : areSuited [c] = true := by simp [areSuited, dedup]
  rw [hs]
  unfold signaturesRainbow
  rw [List.mem_map]
  refine ⟨[c.rank], ?_, rfl⟩
  apply mem_multisets 13 0 1 [c.rank] rfl (List.pairwise_singleton _ _)
  intro x hx
  simp only [List.mem_cons, List.mem_nil_iff, or_false] at hx
  subst hx
  exact ⟨Nat.zero_le _, by simpa using hk⟩

/-- **KuhnPokerHand**: a jack, queen or king alone is a hand; J < Q < K -/
theorem C04_kuhn_table (c d : Card) (hc : 10 ≤ c.rank ∧ c.rank < 13) (hd : 10 ≤ d.rank ∧ d.rank < 13)
    (hcs : c.suit < 4) (hds : d.suit < 4) :
    ∃ x y, mkHand Tables.build .kuhn [c] = .ok x ∧ mkHand Tables.build .kuhn [d] = .ok y ∧
      (x.entry.index < y.entry.index ↔ c.rank < d.rank) ∧
      (x.entry.index = y.entry.index ↔ c.rank = d.rank) := by
  have hmc : ([c.rank], areSuited [c]) ∈ kuhnSigs := by
    unfold kuhnSigs; rw [List.mem_filter]
    exact ⟨kuhn_sig c hc.2, by simp [isKuhnRank, hc.1]⟩
  have hmd : ([d.rank], areSuited [d]) ∈ kuhnSigs := by
    unfold kuhnSigs; rw [List.mem_filter]
    exact ⟨kuhn_sig d hd.2, by simp [isKuhnRank, hd.1]⟩
  obtain ⟨x, y, hx, hy, _, h1, h2⟩ :=
    accept_of_check Tables.build .kuhn _ (tbl_eq _) kuhnKey noLabel kuhnSigs
      kuhn_table_ok .kuhn rfl [c] [d]
      (all_known_of_lt (by intro x hx; simp only [List.mem_singleton] at hx; subst hx; exact ⟨hc.2, hcs⟩))
      (all_known_of_lt (by intro x hx; simp only [List.mem_singleton] at hx; subst hx; exact ⟨hd.2, hds⟩))
      (Or.inl rfl) (Or.inl rfl) [c.rank] (List.Perm.refl _) hmc rfl [d.rank] (List.Perm.refl _) hmd rfl
  refine ⟨x, y, hx, hy, ?_, ?_⟩
  · rw [h1]; simp [kuhnKey, valueLow, lexLt]
  · rw [h2]; simp [kuhnKey, valueLow]

/-- … any other single card is not -/
theorem C04_kuhn_rejects (c : Card) (hc : c.rank < 10) :
    mkHand Tables.build .kuhn [c] = .error .valueError := by
  have hmc : ([c.rank], areSuited [c]) ∈ kuhnOther := by
    unfold kuhnOther; rw [List.mem_filter]
    refine ⟨kuhn_sig c (Nat.lt_of_lt_of_le hc (by decide)), ?_⟩
    have : ¬ 10 ≤ c.rank := Nat.not_le.2 hc
    simp [isKuhnRank, this]
  exact reject_of_check Tables.build .kuhn _ (tbl_eq _) kuhnOther kuhn_table_absent
    .kuhn rfl [c] [c.rank] (List.Perm.refl _) hmc

end PK
