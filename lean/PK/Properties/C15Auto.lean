/-
  C15, replay of automated hands — `C15_replay_auto`: for every history with any automation subset `A` in which no
  exception escapes from inside a cascade and mucks are by players who hold cards, and every quiescent point of
  it, driving a fresh **un-automated** machine with the logged records reproduces the state, log included.

  `twin_log` re-runs the stuttering simulation of `C09_twin` for clean histories and shows that the twin's history
  is clean too (the error register is tracked: `step_uniform_err`, `upd_err`, `inert_err`, `quiet`); `C15_replay`
  then applies to the twin.
-/
import PK.Properties.C15Replay
namespace PK
open State M

variable {cfg : Config} {env : Env}

/-! ### the error register -/

theorem step_uniform_err (s : State) (f : Ctl) (rest rest' : List Ctl) (e : Option Err) (w w' : Bool) :
    (step cfg env { st := s, ctl := f :: rest, err := e, warned := w }).err =
      (step cfg env { st := s, ctl := f :: rest', err := e, warned := w' }).err := by
  unfold step
  simp only []
  cases f
  all_goals (
    simp only []
    repeat' split
    all_goals rfl)

theorem upd_err (s : State) (f : Ctl) (rest : List Ctl) (e : Option Err) (w : Bool) (hu : f.isUpd = true) :
    (step cfg env { st := s, ctl := f :: rest, err := e, warned := w }).err = e := by
  cases f <;> first | (cases hu; done) | skip
  all_goals (
    unfold step; simp only []
    repeat' split
    all_goals rfl)

theorem inert_err (m : M) (f : Ctl) (rest : List Ctl) (hctl : m.ctl = f :: rest) (hin : f.inertK = true)
    (hA : cfg.autos = []) : (step cfg env m).err = m.err := by
  have hauto := auto_off (cfg := cfg) hA
  cases f <;> first | (cases hin; done) | skip
  all_goals (
    unfold step; rw [hctl]; simp only []
    simp only [hauto, Bool.false_eq_true, if_false, Bool.false_and, Bool.and_false, List.nil_append]
    repeat' split
    all_goals rfl)

/-- a step drops the whole stack or leaves the error register alone -/
theorem step_err_or (m : M) : (step cfg env m).ctl = [] ∨ (step cfg env m).err = m.err := by
  cases hctl : m.ctl with
  | nil => left; unfold step; rw [hctl]; exact hctl
  | cons f rest =>
    unfold step; rw [hctl]; simp only []
    cases f
    all_goals (
      simp only []
      repeat' split
      all_goals first | exact Or.inl rfl | exact Or.inr rfl)

/-- while something is running no exception has escaped -/
theorem quiet {m : M} (h : Reach cfg env m) : m.ctl ≠ [] → m.err = none := by
  induction h with
  | init => intro _; rfl
  | @step m _ ih =>
    intro hne
    rcases step_err_or (cfg := cfg) (env := env) m with h0 | h1
    · exact absurd h0 hne
    · rw [h1]
      apply ih
      intro hnil
      have : step cfg env m = m := by unfold step; rw [hnil]
      rw [this] at hne; exact hne hnil
  | op o _ _ _ _ _ _ => intro _; rfl

/-! ### the twin of a clean history is clean -/

theorem muckHolds_autos (A B : List Automation) (s : State) (f : Ctl)
    (h : MuckHolds { cfg with autos := A } env s f) : MuckHolds { cfg with autos := B } env s f := by
  intro a i v hf hv hs
  have hv' : s.verifyShow { cfg with autos := A } env a i = .ok v := by
    rw [verifyShow_autos] at hv ⊢; exact hv
  exact h a i v hf hv' hs

theorem muckHolds_inert {s : State} {f : Ctl} (h : f.inertK = true) : MuckHolds cfg env s f := by
  apply muckHolds_of_not_show
  cases f <;> first | rfl | (cases h; done)

/-- `drain` for clean histories -/
theorem drain_log (hA : cfg.autos = []) : ∀ (n : Nat) (mm : M), LogReach cfg env mm → weight mm.ctl ≤ n →
    (∀ g ∈ mm.ctl, g.inertK = true) → ∃ mm', LogReach cfg env mm' ∧ mm'.st = mm.st ∧ mm'.ctl = [] := by
  intro n
  induction n with
  | zero =>
    intro mm hr hw _
    cases hc : mm.ctl with
    | nil => exact ⟨mm, hr, rfl, hc⟩
    | cons f r =>
      rw [hc] at hw
      have : 1 ≤ wt f := by cases f <;> simp [wt]
      simp only [weight] at hw; omega
  | succ n ih =>
    intro mm hr hw hall
    cases hc : mm.ctl with
    | nil => exact ⟨mm, hr, rfl, hc⟩
    | cons f r =>
      rw [hc] at hw hall
      have hin : f.inertK = true := hall f List.mem_cons_self
      obtain ⟨hst, hctl⟩ := inert_step (env := env) hA mm f r hc hin
      have herr : (step cfg env mm).err = none := by
        rw [inert_err (env := env) mm f r hc hin hA]
        exact quiet hr.reach (by rw [hc]; exact List.cons_ne_nil _ _)
      have hr' : LogReach cfg env (step cfg env mm) := .step hr (Or.inl herr) (by
        intro f' r' hc'
        rw [hc] at hc'; cases hc'
        exact muckHolds_inert hin)
      have hw1 : 1 ≤ wt f := by cases f <;> simp [wt]
      simp only [weight] at hw
      rcases hctl with h1 | ⟨hf, h2⟩
      · obtain ⟨mm', a, b, c⟩ := ih _ hr' (by rw [h1]; omega)
          (by rw [h1]; intro g hg; exact hall g (List.mem_cons_of_mem _ hg))
        exact ⟨mm', a, b.trans hst, c⟩
      · obtain ⟨mm', a, b, c⟩ := ih _ hr' (by rw [h2]; subst hf; simp only [weight, wt] at hw ⊢; omega)
          (by rw [h2]; intro g hg
              rcases List.mem_cons.1 hg with rfl | hg
              · rfl
              · exact hall g (List.mem_cons_of_mem _ hg))
        exact ⟨mm', a, b.trans hst, c⟩

theorem fire_log (mm : M) (hr : LogReach { cfg with autos := [] } env mm) (hall : ∀ g ∈ mm.ctl, g.inertK = true)
    (o : Ctl) (ho : o.isOp = true) :
    ∃ mm', LogReach { cfg with autos := [] } env mm' ∧ mm'.st = mm.st ∧ mm'.ctl = [o] := by
  obtain ⟨m1, hr1, hst1, hctl1⟩ := drain_log (cfg := { cfg with autos := [] }) (env := env) rfl _ mm hr
    (Nat.le_refl _) hall
  exact ⟨{ m1 with ctl := [o], err := none, warned := false }, .op o hr1 hctl1 ho, hst1, rfl⟩

/-- `C09_twin` for clean histories: the twin's history is clean too -/
theorem twin_log (A : List Automation) {ma : M} (h : LogReach { cfg with autos := A } env ma) :
    ∃ mm, LogReach { cfg with autos := [] } env mm ∧ Twin ma mm := by
  induction h with
  | init =>
    refine ⟨_, .init, ⟨rfl, rfl, ?_⟩⟩
    exact inert_nonK _ rfl
  | op o hr hq ho ih =>
    obtain ⟨mm, hmm, ht⟩ := ih
    obtain ⟨mm', hr', hst', hctl'⟩ := fire_log (cfg := cfg) (env := env) mm hmm (ht.all_inert (by rw [hq]; rfl)) o ho
    exact ⟨mm', hr', ⟨ht.st.trans hst'.symm, by rw [hctl'], by rw [hctl']; exact inert_nonK o (isOp_conds ho).1⟩⟩
  | @step m hr hclean hmuck ih =>
    obtain ⟨mm, hmm, ht⟩ := ih
    cases hctl : m.ctl with
    | nil =>
      have : step { cfg with autos := A } env m = m := by unfold step; rw [hctl]
      rw [this]; exact ⟨mm, hmm, ht⟩
    | cons f rest =>
      have hrestK : ∀ g ∈ rest, g.isK = true := (C07_phase_order hr.reach).tail f rest hctl
      have hrest0 : nonK rest = [] := nonK_allK hrestK
      cases hk : f.isK with
      | true =>
        have hq : nonK m.ctl = [] := by rw [hctl, nonK_cons_K rest hk, hrest0]
        obtain ⟨hst, hc⟩ := kstep_shape (cfg := { cfg with autos := A }) (env := env) m f rest hctl hk
        rcases hc with hnil | ⟨fs, hfs, hno | ⟨o, ho, hop⟩⟩
        · exact ⟨mm, hmm, ⟨hst.trans ht.st, by rw [hnil, ← ht.ctl, hq]; rfl, ht.inert⟩⟩
        · exact ⟨mm, hmm, ⟨hst.trans ht.st, by rw [hfs, nonK_append, hno, hrest0, ← ht.ctl, hq]; rfl, ht.inert⟩⟩
        · obtain ⟨mm', hr', hst', hctl'⟩ := fire_log (cfg := cfg) (env := env) mm hmm (ht.all_inert hq) o hop
          refine ⟨mm', hr', ⟨hst.trans (ht.st.trans hst'.symm), ?_, ?_⟩⟩
          · rw [hfs, nonK_append, ho, hrest0, hctl', nonK_cons_nonK [] (isOp_conds hop).1]; rfl
          · rw [hctl']; exact inert_nonK o (isOp_conds hop).1
      | false =>
        have hq : nonK m.ctl = [f] := by rw [hctl, nonK_cons_nonK rest hk, hrest0]
        obtain ⟨rest', hmctl, hrest'K⟩ := align (fun f r hc => (C07_phase_order hmm.reach).tail f r hc) hk
          (by rw [← ht.ctl]; exact hq)
        have hrest'0 : nonK rest' = [] := nonK_allK hrest'K
        have hrest'I : InertCtl rest' := by
          intro g hg hgk; exact ht.inert g (by rw [hmctl]; exact List.mem_cons_of_mem _ hg) hgk
        have ema := M.eta m hctl
        have emm := M.eta mm hmctl
        rw [← ht.st] at emm
        have hme : m.err = none := quiet hr.reach (by rw [hctl]; exact List.cons_ne_nil _ _)
        have hmme : mm.err = none := quiet hmm.reach (by rw [hmctl]; exact List.cons_ne_nil _ _)
        have hmk : ∀ f' r', mm.ctl = f' :: r' → MuckHolds { cfg with autos := [] } env mm.st f' := by
          intro f' r' hc'
          rw [hmctl] at hc'; cases hc'
          rw [← ht.st]
          exact muckHolds_autos A [] m.st f (hmuck f rest hctl)
        cases hu : f.isUpd with
        | true =>
          obtain ⟨h1, fa, fb, h2, h3, h4, h5⟩ := upd_twin (cfg := cfg) (env := env) A m.st f rest rest' m.err mm.err
            m.warned mm.warned hu
          have herr := upd_err (cfg := { cfg with autos := [] }) (env := env) m.st f rest' mm.err mm.warned hu
          rw [← ema] at h1 h2
          rw [← emm] at h1 h3 herr
          have hstepm : LogReach { cfg with autos := [] } env (step { cfg with autos := [] } env mm) :=
            .step hmm (Or.inl (herr.trans hmme)) hmk
          rcases h5 with h5 | ⟨h5, o, h6, hop⟩
          · refine ⟨_, hstepm, ⟨h1, ?_, ?_⟩⟩
            · rw [h2, h3, nonK_append, nonK_append, hrest0, hrest'0, h5]
            · rw [h3]; intro g hg hgk
              rcases List.mem_append.1 hg with hg | hg
              · exact h4 g hg hgk
              · exact hrest'I g hg hgk
          · have hall : ∀ g ∈ (step { cfg with autos := [] } env mm).ctl, g.inertK = true := by
              rw [h3]; intro g hg
              rcases List.mem_append.1 hg with hg | hg
              · cases hgk : g.isK with
                | true => exact h4 g hg hgk
                | false =>
                  have : g ∈ nonK fb := by unfold nonK; simp [hg, hgk]
                  rw [h5] at this; cases this
              · exact hrest'I g hg (hrest'K g hg)
            obtain ⟨mm', hr', hst', hctl'⟩ := fire_log (cfg := cfg) (env := env) _ hstepm hall o hop
            refine ⟨mm', hr', ⟨h1.trans hst'.symm, ?_, ?_⟩⟩
            · rw [h2, nonK_append, h6, hrest0, hctl', nonK_cons_nonK [] (isOp_conds hop).1]; rfl
            · rw [hctl']; exact inert_nonK o (isOp_conds hop).1
        | false =>
          have hra := readsAuto_of hk hu
          have ema' : m = { st := m.st, ctl := f :: rest, err := none, warned := m.warned } := by
            have := ema; rw [hme] at this; exact this
          have emm' : mm = { st := m.st, ctl := f :: rest', err := none, warned := mm.warned } := by
            have := emm; rw [hmme] at this; exact this
          have e1 := step_autos (cfg := cfg) (env := env) A m.st f rest none m.warned hra
          have e2 := step_autos (cfg := cfg) (env := env) [] m.st f rest' none mm.warned hra
          obtain ⟨u1, u2⟩ := step_uniform (cfg := cfg) (env := env) m.st f rest rest' none none m.warned mm.warned
          have uerr := step_uniform_err (cfg := cfg) (env := env) m.st f rest rest' none m.warned mm.warned
          rw [← e1, ← e2] at u1 u2 uerr
          rw [← ema'] at u1 u2 uerr
          rw [← emm'] at u1 u2 uerr
          have hcl : CleanStep { cfg with autos := [] } env mm := by
            rcases hclean with hn | ⟨f', r', hc', hop', hsame⟩
            · exact Or.inl (uerr.symm.trans hn)
            · rw [hctl] at hc'; cases hc'
              exact Or.inr ⟨f, rest', hmctl, hop', u1.symm.trans (hsame.trans ht.st)⟩
          have hstepm : LogReach { cfg with autos := [] } env (step { cfg with autos := [] } env mm) :=
            .step hmm hcl hmk
          have hin : InertCtl (step { cfg with autos := [] } env mm).ctl := by
            rcases pushes_inert (cfg := { cfg with autos := [] }) (env := env) rfl mm f rest' hmctl
                (fun h => by rw [hk] at h; cases h) with h0 | ⟨fs, h1, h2⟩
            · rw [h0]; exact inert_nil
            · rw [h1]; intro g hg hgk
              rcases List.mem_append.1 hg with hg | hg
              · exact h2 g hg hgk
              · exact hrest'I g hg hgk
          refine ⟨_, hstepm, ⟨u1, ?_, hin⟩⟩
          rcases u2 with ⟨a, b⟩ | ⟨fs, a, b⟩
          · rw [a, b]
          · rw [a, b, nonK_append, nonK_append, hrest0, hrest'0]

/-- **replaying the log of an automated hand on a fresh un-automated machine reproduces the hand**: for every
    history with any automation subset `A` — no exception escaping from inside a cascade, mucks by players who
    hold cards — and every quiescent point of it -/
theorem C15_replay_auto (A : List Automation) {ma : M} (h : LogReach { cfg with autos := A } env ma)
    (hq : ma.ctl = []) :
    ∃ mr, ReplayReach { cfg with autos := [] } env ma.st.ops.reverse mr ∧ mr.st = ma.st ∧ mr.ctl = [] := by
  obtain ⟨mm, hmm, ht⟩ := twin_log (cfg := cfg) (env := env) A h
  obtain ⟨m1, hr1, hst1, hctl1⟩ := drain_log (cfg := { cfg with autos := [] }) (env := env) rfl _ mm hmm
    (Nat.le_refl _) (ht.all_inert (by rw [hq]; rfl))
  obtain ⟨mr, a, b, c⟩ := C15_replay (cfg := { cfg with autos := [] }) (env := env) rfl hr1 hctl1
  rw [hst1, ← ht.st] at a b
  exact ⟨mr, a, b, c⟩

end PK
