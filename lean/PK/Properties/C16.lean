/-
  C16 — hand histories survive a save/load round trip and replay to the same result.

  Proved here (the action layer of the PHH format):
  * `C16_amount_roundtrip`   a chip amount written in decimal reads back as the same number.
  * `C16_action_roundtrip`   **each action line means the same operation when parsed as it did when
                             written**: for every action `from_game_state` can write (deal board, deal
                             hole, stand pat / discard, bring-in, fold, check/call, bet/raise to, muck,
                             show — any player, any amount, any list of the 70 card texts incl. unknown
                             cards), `parse_action` of the written line is exactly that action.
  * `C16_log_actions`        the non-dealing actions are written in log order, one line per operation,
                             nothing dropped or reordered, with or without compression;
  * `C16_log_hole`, `C16_log_board`   compression merges consecutive dealing operations but every
                             player is dealt exactly the cards, in the order, the log says, and so is
                             the board.
  NOT proved (checked on every generated hand by the C16 check on the implementation): that
  `loads(dumps(h)) = h` and `dumps` is idempotent (python's `tomllib` is not modelled), that replaying
  the loaded history reproduces actions, cards, stacks and payoffs (the repair loop of
  `state_actions`), and that an inapplicable history raises instead of being truncated.
-/
import PK.Model.Notation
import PK.Properties.C19
namespace PK

/-! ### numbers -/

theorem parseNat_snoc (cs : List Char) (c : Char) (hne : cs ≠ []) (hc : ('0' ≤ c && c ≤ '9') = true) :
    parseNat (cs ++ [c]) = (parseNat cs).map fun v => v * 10 + (c.toNat - 48) := by
  unfold parseNat
  have h1 : (cs ++ [c]).isEmpty = false := by simp
  have h2 : cs.isEmpty = false := by cases cs with | nil => exact absurd rfl hne | cons _ _ => rfl
  simp only [h1, h2, Bool.false_eq_true, if_false, List.foldl_append, List.foldl_cons, List.foldl_nil]
  cases List.foldl (fun acc c => match acc with
    | none => none
    | some v => if ('0' ≤ c && c ≤ '9') = true then some (v * 10 + (c.toNat - 48)) else none) (some 0) cs with
  | none => rfl
  | some v => simp [hc]

theorem digit_facts : ∀ d < 10, (('0' ≤ Char.ofNat (48 + d) && Char.ofNat (48 + d) ≤ '9') = true) ∧
    (Char.ofNat (48 + d)).toNat - 48 = d ∧ isPyWhitespace (Char.ofNat (48 + d)) = false := by
  decide

theorem renderNat_ne_nil (n : Nat) : renderNat n ≠ [] := by
  unfold renderNat
  split
  · simp
  · simp

/-- **a decimal amount reads back as the same number** -/
theorem C16_amount_roundtrip (n : Nat) : parseNat (renderNat n) = some n := by
  induction n using Nat.strongRecOn with
  | _ n ih =>
    unfold renderNat
    split
    · rename_i h
      obtain ⟨h1, h2, _⟩ := digit_facts n h
      have h1' : '0' ≤ Char.ofNat (48 + n) ∧ Char.ofNat (48 + n) ≤ '9' := by simpa using h1
      simp [parseNat, h1', h2]
    · rename_i h
      have hd := digit_facts (n % 10) (Nat.mod_lt _ (by omega))
      rw [parseNat_snoc _ _ (renderNat_ne_nil _) hd.1, ih (n / 10) (by omega), hd.2.1]
      simp only [Option.map_some, Option.some.injEq]
      omega

theorem renderNat_plain (n : Nat) : ∀ ch ∈ renderNat n, isPyWhitespace ch = false := by
  induction n using Nat.strongRecOn with
  | _ n ih =>
    unfold renderNat
    split
    · rename_i h
      intro ch hch
      simp only [List.mem_singleton] at hch
      subst hch
      exact (digit_facts n h).2.2
    · rename_i h
      intro ch hch
      rcases List.mem_append.mp hch with h1 | h1
      · exact ih (n / 10) (by omega) ch h1
      · simp only [List.mem_singleton] at h1
        subst h1
        exact (digit_facts (n % 10) (Nat.mod_lt _ (by omega))).2.2

/-! ### words and lines -/

def plainWord (w : List Char) : Prop := w ≠ [] ∧ ∀ ch ∈ w, isPyWhitespace ch = false

theorem splitWs_go_words : ∀ (ws : List (List Char)) (acc : List (List Char)),
    (∀ w ∈ ws, plainWord w) → ws ≠ [] →
    splitWs.go (List.intercalate [' '] ws) [] acc = acc.reverse ++ ws := by
  intro ws
  induction ws with
  | nil => intro acc _ h; exact absurd rfl h
  | cons w rest ih =>
    intro acc hw _
    obtain ⟨hne, hpl⟩ := hw w (by simp)
    cases rest with
    | nil =>
      simp only [List.intercalate, List.intersperse, List.flatten_cons, List.flatten_nil, List.append_nil]
      rw [splitWs_go_plain w [] acc hpl]
      have : (w.reverse ++ []).isEmpty = false := by
        cases w with | nil => exact absurd rfl hne | cons _ _ => simp
      simp [hne]
    | cons w2 rest2 =>
      have hinter : List.intercalate [' '] (w :: w2 :: rest2) = w ++ ' ' :: List.intercalate [' '] (w2 :: rest2) := by
        simp [List.intercalate, List.intersperse]
      rw [hinter, splitWs_go_append_plain w _ [] acc hpl]
      conv => lhs; unfold splitWs.go
      have hsp : isPyWhitespace ' ' = true := by decide
      have hemp : (w.reverse ++ []).isEmpty = false := by
        cases w with | nil => exact absurd rfl hne | cons _ _ => simp
      simp only [hsp, if_true, hemp, Bool.false_eq_true, if_false]
      have h := ih ((w.reverse ++ []).reverse :: acc) (fun x hx => hw x (by simp [hx])) (by simp)
      rw [h]
      simp

/-- splitting a line of plain words joined by single blanks gives the words back -/
theorem splitWs_words (ws : List (List Char)) (h : ∀ w ∈ ws, plainWord w) :
    splitWs (List.intercalate [' '] ws) = ws := by
  cases ws with
  | nil => rfl
  | cons w rest =>
    unfold splitWs
    rw [splitWs_go_words (w :: rest) [] h (by simp)]
    rfl

theorem playerText_plain (p : Nat) : plainWord (playerText p) := by
  refine ⟨by simp [playerText], ?_⟩
  intro ch hch
  simp only [playerText, List.mem_cons] at hch
  rcases hch with rfl | h
  · decide
  · exact renderNat_plain _ ch h

theorem parsePlayer_text (p : Nat) : parsePlayer (playerText p) = some p := by
  simp [parsePlayer, playerText, C16_amount_roundtrip]

theorem cardsText_plain (cs : List Card) (h : ∀ c ∈ cs, c ∈ cards70) (hne : cs ≠ []) : plainWord (cardsText cs) := by
  refine ⟨?_, fun ch hch => (reprs_plain cs h ch hch).2.2⟩
  cases cs with
  | nil => exact absurd rfl hne
  | cons c cs => simp [cardsText, Card.reprChars]

theorem cardsText_len (cs : List Card) : (cardsText cs).length = 2 * cs.length := length_reprs cs

theorem renderNat_plainWord (n : Nat) : plainWord (renderNat n) := ⟨renderNat_ne_nil n, renderNat_plain n⟩

theorem lit_plain (w : List Char) (h : w ≠ [] ∧ w.all (fun c => !isPyWhitespace c) = true) : plainWord w := by
  refine ⟨h.1, ?_⟩
  intro ch hch
  have := List.all_eq_true.mp h.2 ch hch
  simpa using this

/-- which actions `from_game_state` can write: dealt / shown cards are a non-empty list of card texts
    (known or unknown), discards any list of card texts -/
def PAction.WF : PAction → Prop
  | .dealBoard cs => cs ≠ [] ∧ ∀ c ∈ cs, c ∈ cards70
  | .dealHole _ cs => cs ≠ [] ∧ ∀ c ∈ cs, c ∈ cards70
  | .standPat _ cs => ∀ c ∈ cs, c ∈ cards70
  | .showCards _ cs => cs ≠ [] ∧ ∀ c ∈ cs, c ∈ cards70
  | _ => True

theorem playerText_head (p : Nat) : ∃ rest, playerText p = 'p' :: rest := ⟨_, rfl⟩

/-- **each action line means the same operation when parsed as it did when written** -/
theorem C16_action_roundtrip (a : PAction) (h : a.WF) : parseActionLine a.line = some a := by
  unfold parseActionLine PAction.line
  cases a with
  | noop => rfl
  | dealBoard cs =>
    obtain ⟨hne, hc⟩ := h
    rw [splitWs_words _ (by
      intro w hw
      simp only [PAction.words, List.mem_cons, List.not_mem_nil, or_false] at hw
      rcases hw with rfl | rfl | rfl
      · exact lit_plain _ (by decide)
      · exact lit_plain _ (by decide)
      · exact cardsText_plain cs hc hne)]
    simp only [PAction.words, parseWords]
    have := C19_cards_text cs hc
    unfold cardsText
    rw [this]; rfl
  | dealHole p cs =>
    obtain ⟨hne, hc⟩ := h
    rw [splitWs_words _ (by
      intro w hw
      simp only [PAction.words, List.mem_cons, List.not_mem_nil, or_false] at hw
      rcases hw with rfl | rfl | rfl | rfl
      · exact lit_plain _ (by decide)
      · exact lit_plain _ (by decide)
      · exact playerText_plain p
      · exact cardsText_plain cs hc hne)]
    simp only [PAction.words, parseWords, parsePlayer_text]
    have := C19_cards_text cs hc
    unfold cardsText
    rw [this]
  | standPat p cs =>
    have hc : ∀ c ∈ cs, c ∈ cards70 := h
    by_cases hne : cs = []
    · subst hne
      simp only [PAction.words, List.isEmpty_nil, if_true]
      rw [splitWs_words _ (by
        intro w hw
        simp only [List.mem_cons, List.not_mem_nil, or_false] at hw
        rcases hw with rfl | rfl
        · exact playerText_plain p
        · exact lit_plain _ (by decide))]
      obtain ⟨rest, hr⟩ := playerText_head p
      have hp := parsePlayer_text p
      rw [hr] at hp ⊢
      simp [parseWords, hp]
    · have hemp : cs.isEmpty = false := by cases cs with | nil => exact absurd rfl hne | cons _ _ => rfl
      simp only [PAction.words, hemp, Bool.false_eq_true, if_false]
      rw [splitWs_words _ (by
        intro w hw
        simp only [List.mem_cons, List.not_mem_nil, or_false] at hw
        rcases hw with rfl | rfl | rfl
        · exact playerText_plain p
        · exact lit_plain _ (by decide)
        · exact cardsText_plain cs hc hne)]
      obtain ⟨rest, hr⟩ := playerText_head p
      have hp := parsePlayer_text p
      have hcards := C19_cards_text cs hc
      rw [hr] at hp ⊢
      simp only [parseWords, hp]
      unfold cardsText
      rw [hcards]
  | bringIn p =>
    rw [splitWs_words _ (by
      intro w hw
      simp only [PAction.words, List.mem_cons, List.not_mem_nil, or_false] at hw
      rcases hw with rfl | rfl
      · exact playerText_plain p
      · exact lit_plain _ (by decide))]
    obtain ⟨rest, hr⟩ := playerText_head p
    have hp := parsePlayer_text p
    simp only [PAction.words]
    rw [hr] at hp ⊢
    simp [parseWords, hp]
  | fold p =>
    rw [splitWs_words _ (by
      intro w hw
      simp only [PAction.words, List.mem_cons, List.not_mem_nil, or_false] at hw
      rcases hw with rfl | rfl
      · exact playerText_plain p
      · exact lit_plain _ (by decide))]
    obtain ⟨rest, hr⟩ := playerText_head p
    have hp := parsePlayer_text p
    simp only [PAction.words]
    rw [hr] at hp ⊢
    simp [parseWords, hp]
  | call p =>
    rw [splitWs_words _ (by
      intro w hw
      simp only [PAction.words, List.mem_cons, List.not_mem_nil, or_false] at hw
      rcases hw with rfl | rfl
      · exact playerText_plain p
      · exact lit_plain _ (by decide))]
    obtain ⟨rest, hr⟩ := playerText_head p
    have hp := parsePlayer_text p
    simp only [PAction.words]
    rw [hr] at hp ⊢
    simp [parseWords, hp]
  | cbr p amt =>
    rw [splitWs_words _ (by
      intro w hw
      simp only [PAction.words, List.mem_cons, List.not_mem_nil, or_false] at hw
      rcases hw with rfl | rfl | rfl
      · exact playerText_plain p
      · exact lit_plain _ (by decide)
      · exact renderNat_plainWord amt)]
    obtain ⟨rest, hr⟩ := playerText_head p
    have hp := parsePlayer_text p
    simp only [PAction.words]
    rw [hr] at hp ⊢
    simp [parseWords, hp, C16_amount_roundtrip]
  | muck p =>
    rw [splitWs_words _ (by
      intro w hw
      simp only [PAction.words, List.mem_cons, List.not_mem_nil, or_false] at hw
      rcases hw with rfl | rfl
      · exact playerText_plain p
      · exact lit_plain _ (by decide))]
    obtain ⟨rest, hr⟩ := playerText_head p
    have hp := parsePlayer_text p
    simp only [PAction.words]
    rw [hr] at hp ⊢
    simp [parseWords, hp]
  | showAll p =>
    rw [splitWs_words _ (by
      intro w hw
      simp only [PAction.words, List.mem_cons, List.not_mem_nil, or_false] at hw
      rcases hw with rfl | rfl | rfl
      · exact playerText_plain p
      · exact lit_plain _ (by decide)
      · exact lit_plain _ (by decide))]
    obtain ⟨rest, hr⟩ := playerText_head p
    have hp := parsePlayer_text p
    simp only [PAction.words]
    rw [hr] at hp ⊢
    simp [parseWords, hp]
  | showCards p cs =>
    obtain ⟨hne, hc⟩ := h
    rw [splitWs_words _ (by
      intro w hw
      simp only [PAction.words, List.mem_cons, List.not_mem_nil, or_false] at hw
      rcases hw with rfl | rfl | rfl
      · exact playerText_plain p
      · exact lit_plain _ (by decide)
      · exact cardsText_plain cs hc hne)]
    obtain ⟨rest, hr⟩ := playerText_head p
    have hp := parsePlayer_text p
    have hcards := C19_cards_text cs hc
    have hlen := cardsText_len cs
    have hdash : cardsText cs ≠ ['-'] := by
      intro heq; rw [heq] at hlen; simp at hlen; omega
    simp only [PAction.words]
    rw [hr] at hp ⊢
    unfold cardsText at hdash ⊢
    simp only [parseWords, hp, hcards]

/-! ### the log is written faithfully -/

def isDealing : PAction → Bool
  | .dealBoard _ | .dealHole _ _ => true
  | _ => false

def holeOf (p : Nat) : PAction → List Card
  | .dealHole q cs => if q = p then cs else []
  | _ => []

def boardOf : PAction → List Card
  | .dealBoard cs => cs
  | _ => []

def opHoleOf (p : Nat) : Operation → List Card
  | .holeDealing q cs _ => if q = p then cs else []
  | _ => []

def opBoardOf : Operation → List Card
  | .boardDealing cs => cs
  | _ => []

theorem flush_notDealing (pd : Pending) : (pd.flush.filter fun a => !isDealing a) = [] := by
  unfold Pending.flush
  rw [List.filter_append]
  have h1 : (((List.range pd.bound).filterMap fun p =>
      if (pd.holeOf p).isEmpty then none else some (PAction.dealHole p (pd.holeOf p))).filter
      fun a => !isDealing a) = [] := by
    rw [List.filter_eq_nil_iff]
    intro a ha
    rw [List.mem_filterMap] at ha
    obtain ⟨p, _, h⟩ := ha
    split at h
    · cases h
    · cases h; simp [isDealing]
  rw [h1]
  split <;> simp [isDealing]

theorem foldl_max_ge (l : List Nat) : ∀ (a : Nat), a ≤ l.foldl max a ∧ ∀ x ∈ l, x ≤ l.foldl max a := by
  induction l with
  | nil => intro a; exact ⟨Nat.le_refl _, fun x hx => by cases hx⟩
  | cons y l ih =>
    intro a
    simp only [List.foldl_cons]
    obtain ⟨h1, h2⟩ := ih (max a y)
    refine ⟨by omega, ?_⟩
    intro x hx
    rcases List.mem_cons.mp hx with rfl | hx
    · omega
    · exact h2 x hx

theorem holeOf_beyond (pd : Pending) (p : Nat) (h : pd.bound ≤ p) : pd.holeOf p = [] := by
  unfold Pending.holeOf
  rw [List.flatMap_eq_nil_iff]
  intro x hx
  obtain ⟨q, cs⟩ := x
  have hb := (foldl_max_ge (pd.hole.map fun x => x.1 + 1) 0).2 (q + 1) (List.mem_map.mpr ⟨(q, cs), hx, rfl⟩)
  unfold Pending.bound at h
  have : q ≠ p := by omega
  simp [this]

theorem flatMap_single (B p : Nat) (X : List Card) :
    ((List.range B).flatMap fun q => if q = p then X else []) = if p < B then X else [] := by
  induction B with
  | zero => simp
  | succ B ih =>
    rw [List.range_succ, List.flatMap_append, ih]
    simp only [List.flatMap_cons, List.flatMap_nil, List.append_nil]
    by_cases h1 : p < B
    · have : ¬ B = p := by omega
      simp [h1, this]; omega
    · by_cases h2 : B = p
      · subst h2; simp
      · have : ¬ p < B + 1 := by omega
        simp [h1, h2, this]

theorem flush_hole (pd : Pending) (p : Nat) : (pd.flush.flatMap (holeOf p)) = pd.holeOf p := by
  unfold Pending.flush
  rw [List.flatMap_append]
  have h2 : ((if pd.board.isEmpty then [] else [PAction.dealBoard pd.board]).flatMap (holeOf p)) = [] := by
    split <;> simp [holeOf]
  rw [h2, List.append_nil]
  have h1 : ((List.range pd.bound).filterMap fun q =>
      if (pd.holeOf q).isEmpty then none else some (PAction.dealHole q (pd.holeOf q))).flatMap (holeOf p) =
      (List.range pd.bound).flatMap fun q => if q = p then pd.holeOf p else [] := by
    induction (List.range pd.bound) with
    | nil => rfl
    | cons q l ih =>
      simp only [List.filterMap_cons, List.flatMap_cons]
      by_cases hemp : (pd.holeOf q).isEmpty = true
      · simp only [hemp, if_true]
        have hnil : pd.holeOf q = [] := by simpa using hemp
        rw [ih]
        by_cases hqp : q = p
        · subst hqp; simp [hnil]
        · simp [hqp]
      · have : (pd.holeOf q).isEmpty = false := by simpa using hemp
        simp only [this, Bool.false_eq_true, if_false, List.flatMap_cons, holeOf]
        rw [ih]
        by_cases hqp : q = p
        · subst hqp; simp
        · simp [hqp]
  rw [h1, flatMap_single]
  by_cases hp : p < pd.bound
  · simp [hp]
  · simp [hp, holeOf_beyond pd p (by omega)]

theorem flush_board (pd : Pending) : (pd.flush.flatMap boardOf) = pd.board := by
  unfold Pending.flush
  rw [List.flatMap_append]
  have h1 : (((List.range pd.bound).filterMap fun p =>
      if (pd.holeOf p).isEmpty then none else some (PAction.dealHole p (pd.holeOf p))).flatMap boardOf) = [] := by
    rw [List.flatMap_eq_nil_iff]
    intro a ha
    rw [List.mem_filterMap] at ha
    obtain ⟨p, _, h⟩ := ha
    split at h
    · cases h
    · cases h; rfl
  rw [h1, List.nil_append]
  by_cases hb : pd.board.isEmpty = true
  · have : pd.board = [] := by simpa using hb
    simp [hb, this]
  · have : pd.board.isEmpty = false := by simpa using hb
    simp [this, boardOf]

theorem opAction_notDealing (op : Operation) (a : PAction) (h : opAction op = some a) : isDealing a = false := by
  cases op <;> simp [opAction] at h <;> subst h <;> (try rfl)
  split <;> rfl

theorem opAction_hole (op : Operation) (a : PAction) (h : opAction op = some a) (p : Nat) : holeOf p a = [] := by
  cases op <;> simp [opAction] at h <;> subst h <;> (try rfl)
  split <;> rfl

theorem opAction_board (op : Operation) (a : PAction) (h : opAction op = some a) : boardOf a = [] := by
  cases op <;> simp [opAction] at h <;> subst h <;> (try rfl)
  split <;> rfl

def Operation.dealing : Operation → Bool
  | .holeDealing _ _ _ | .boardDealing _ => true
  | _ => false

theorem fromLogGo_other (compress : Bool) (op : Operation) (ops : List Operation) (pd : Pending)
    (h : op.dealing = false) :
    fromLogGo compress (op :: ops) pd =
      pd.flush ++ optList (opAction op) ++ fromLogGo compress ops {} := by
  cases op <;> simp [Operation.dealing] at h <;> simp [fromLogGo]

theorem opAction_dealing (op : Operation) (h : op.dealing = true) : opAction op = none := by
  cases op <;> simp [Operation.dealing] at h <;> rfl

theorem opHole_other (op : Operation) (h : op.dealing = false) (p : Nat) : opHoleOf p op = [] := by
  cases op <;> simp [Operation.dealing] at h <;> rfl

theorem opBoard_other (op : Operation) (h : op.dealing = false) : opBoardOf op = [] := by
  cases op <;> simp [Operation.dealing] at h <;> rfl

/-- the three projections of the written actions, for any pending dealt cards -/
theorem fromLogGo_spec (compress : Bool) : ∀ (ops : List Operation) (pd : Pending),
    ((fromLogGo compress ops pd).filter fun a => !isDealing a) = ops.filterMap opAction ∧
    (∀ p, (fromLogGo compress ops pd).flatMap (holeOf p) = pd.holeOf p ++ ops.flatMap (opHoleOf p)) ∧
    (fromLogGo compress ops pd).flatMap boardOf = pd.board ++ ops.flatMap opBoardOf := by
  intro ops
  induction ops with
  | nil =>
    intro pd
    simp only [fromLogGo, List.filterMap_nil, List.flatMap_nil, List.append_nil]
    exact ⟨flush_notDealing pd, fun p => flush_hole pd p, flush_board pd⟩
  | cons op ops ih =>
    intro pd
    by_cases hd : op.dealing = true
    · cases op <;> simp [Operation.dealing] at hd
      case boardDealing cs =>
        simp only [fromLogGo]
        by_cases hc : compress = true
        · subst hc
          simp only [Bool.not_true, Bool.false_or, Bool.false_eq_true, if_false, List.nil_append]
          obtain ⟨h1, h2, h3⟩ := ih { pd with board := pd.board ++ cs }
          refine ⟨by simpa [List.filterMap_cons, opAction] using h1, ?_, ?_⟩
          · intro p; rw [h2 p]; simp [opHoleOf, Pending.holeOf]
          · rw [h3]; simp [opBoardOf, List.append_assoc]
        · have : compress = false := by simpa using hc
          subst this
          simp only [Bool.not_false, Bool.true_or, if_true]
          obtain ⟨h1, h2, h3⟩ := ih { ({} : Pending) with board := ({} : Pending).board ++ cs }
          refine ⟨?_, ?_, ?_⟩
          · rw [List.filter_append, flush_notDealing, List.nil_append]
            simpa [List.filterMap_cons, opAction] using h1
          · intro p; rw [List.flatMap_append, flush_hole, h2 p]; simp [opHoleOf, Pending.holeOf]
          · rw [List.flatMap_append, flush_board, h3]; simp [opBoardOf]
      case holeDealing q cs st =>
        simp only [fromLogGo]
        by_cases hc : compress = true
        · subst hc
          simp only [Bool.not_true, Bool.false_or, Bool.false_eq_true, if_false, List.nil_append]
          obtain ⟨h1, h2, h3⟩ := ih (pd.addHole q cs)
          refine ⟨by simpa [List.filterMap_cons, opAction] using h1, ?_, ?_⟩
          · intro p; rw [h2 p]
            simp [opHoleOf, Pending.holeOf, Pending.addHole, List.flatMap_append, List.append_assoc]
          · rw [h3]; simp [opBoardOf, Pending.addHole]
        · have : compress = false := by simpa using hc
          subst this
          simp only [Bool.not_false, Bool.true_or, if_true]
          obtain ⟨h1, h2, h3⟩ := ih (({} : Pending).addHole q cs)
          refine ⟨?_, ?_, ?_⟩
          · rw [List.filter_append, flush_notDealing, List.nil_append]
            simpa [List.filterMap_cons, opAction] using h1
          · intro p; rw [List.flatMap_append, flush_hole, h2 p]
            simp [opHoleOf, Pending.holeOf, Pending.addHole]
          · rw [List.flatMap_append, flush_board, h3]; simp [opBoardOf, Pending.addHole]
    · have hd' : op.dealing = false := by simpa using hd
      rw [fromLogGo_other compress op ops pd hd']
      obtain ⟨h1, h2, h3⟩ := ih ({} : Pending)
      refine ⟨?_, ?_, ?_⟩
      · rw [List.filter_append, List.filter_append, flush_notDealing, List.nil_append, h1]
        simp only [List.filterMap_cons]
        cases ha : opAction op with
        | none => simp [optList]
        | some a => simp [optList, opAction_notDealing op a ha]
      · intro p
        rw [List.flatMap_append, List.flatMap_append, flush_hole, h2 p]
        have : (optList (opAction op)).flatMap (holeOf p) = [] := by
          cases ha : opAction op with
          | none => rfl
          | some a => simp [optList, opAction_hole op a ha]
        simp [this, opHole_other op hd', Pending.holeOf]
      · rw [List.flatMap_append, List.flatMap_append, flush_board, h3]
        have : (optList (opAction op)).flatMap boardOf = [] := by
          cases ha : opAction op with
          | none => rfl
          | some a => simp [optList, opAction_board op a ha]
        simp [this, opBoard_other op hd']

/-- **the betting / drawing / showdown actions are written in log order**, one line per operation,
    nothing dropped or reordered, with or without compression -/
theorem C16_log_actions (compress : Bool) (ops : List Operation) :
    ((fromLog compress ops).filter fun a => !isDealing a) = ops.filterMap opAction :=
  (fromLogGo_spec compress ops {}).1

/-- **every player is dealt exactly the cards the log says, in that order** (compression only merges
    consecutive dealing lines) -/
theorem C16_log_hole (compress : Bool) (ops : List Operation) (p : Nat) :
    (fromLog compress ops).flatMap (holeOf p) = ops.flatMap (opHoleOf p) := by
  have := (fromLogGo_spec compress ops {}).2.1 p
  simpa [fromLog, Pending.holeOf] using this

/-- **the board receives exactly the cards the log says, in that order** -/
theorem C16_log_board (compress : Bool) (ops : List Operation) :
    (fromLog compress ops).flatMap boardOf = ops.flatMap opBoardOf := by
  have := (fromLogGo_spec compress ops {}).2.2
  simpa [fromLog] using this

end PK
