/-
  C18 — range notation, equities and ICM values are mathematically consistent.

  Range notation (`parse_range`), for every pair of ranks of the rank order (complete enumeration,
  checked by the kernel; stated for the standard 13-rank order and the 9-rank short-deck order):
  * `C18_counts`          a pair is 6 combinations, a suited hand 4, an offsuit hand 12, `XY` 16;
                          `XXs` is empty and `XXo` is `XX`.
  * `C18_disjoint_union`  `XY` is the disjoint union of `XYs` and `XYo`.
  * `C18_elements`        every element is a set of two distinct real cards of the two ranks.
  * `C18_plus`, `C18_pair_plus`   `XY+` (`XYs+`, `XYo+`) is the union of the hands with the higher
                          of the two ranks and every kicker from the lower rank up to just below the
                          higher one; `XX+` the union of the pairs from `XX` up to the top rank.
  * `C18_interval`        `AB-CD` is the union of the hands between the two ends, moving both ranks
                          in step; refused when the two ends are not a shifted copy of each other.
  * `C18_separators`      blanks, commas and semicolons are interchangeable (any whitespace run).
  Equities with every card given (`__calculate_equities_0`, nothing left to sample), over `Rat`:
  * `C18_equity_nonneg`, `C18_equity_sum`   shares are non-negative and sum to one;
  * `C18_equity_winners`  a player has a share of a hand type iff he holds the best hand of that type
                          — the same maximum and the same equality test the engine's `push_chips` uses
                          (`C18_same_maximum`), and a hand type nobody holds gets no share.
  ICM (`calculate_icm`) over `Rat`:
  * `C18_icm_nonneg`      values are non-negative for non-negative payouts and positive chips;
  * `C18_icm_sum`         they sum to the prize pool (at most as many payouts as players);
  * ordering by chips is NOT proved in general (`C18_icm_order_two`: proved for two players); it is
    checked on every generated input by the C18 check.
  The python code computes equities and ICM in binary floating point; the theorems are about exact
  rational arithmetic, and the check compares the two within a tolerance.
-/
import PK.Model.Analysis
import PK.Model.Machine
import Mathlib.Tactic.Ring
import Mathlib.Tactic.FieldSimp
import Mathlib.Tactic.Positivity
import Mathlib.Tactic.Linarith
import Mathlib.Algebra.BigOperators.Ring.List
import Mathlib.Algebra.Order.Field.Rat
namespace PK

/-! ### range notation -/

/-- as a python set: sorted, duplicate-free -/
def asSet (l : List (List Card)) : List (List Card) := rangeSet l

def orders : List (List Rank) := [RankOrder.standard, RankOrder.shortDeck]

/-- combination counts and the degenerate forms, for two ranks -/
def CountsP (a b : Rank) : Prop :=
  (asSet (basicRangeR a b .plain)).length = (if a = b then 6 else 16) ∧
  (asSet (basicRangeR a b .suited)).length = (if a = b then 0 else 4) ∧
  (asSet (basicRangeR a b .offsuit)).length = (if a = b then 6 else 12) ∧
  (a = b → asSet (basicRangeR a b .offsuit) = asSet (basicRangeR a b .plain))
instance (a b : Rank) : Decidable (CountsP a b) := by unfold CountsP; infer_instance

/-- `XY` = `XYs` ⊎ `XYo` -/
def UnionP (a b : Rank) : Prop :=
  asSet (basicRangeR a b .plain) = asSet (basicRangeR a b .suited ++ basicRangeR a b .offsuit) ∧
  ∀ x ∈ basicRangeR a b .suited, ∀ y ∈ basicRangeR a b .offsuit, x ≠ y
instance (a b : Rank) : Decidable (UnionP a b) := by unfold UnionP; infer_instance

/-- an element of a range: two different known cards whose ranks are the two given ones -/
def goodElement (a b : Rank) (e : List Card) : Bool :=
  match e with
  | [x, y] => x != y && x.known && y.known &&
      ((x.rank == a && y.rank == b) || (x.rank == b && y.rank == a))
  | _ => false

def ElementsP (a b : Rank) : Prop :=
  ∀ sfx ∈ [RangeSuffix.plain, .suited, .offsuit], (basicRangeR a b sfx).all (goodElement a b) = true
instance (a b : Rank) : Decidable (ElementsP a b) := by unfold ElementsP; infer_instance

set_option maxRecDepth 100000 in
theorem basic_all : (orders.all fun ro => ro.all fun a => ro.all fun b =>
    decide (CountsP a b) && decide (UnionP a b) && decide (ElementsP a b)) = true := by
  decide +kernel

theorem basic_of (ro : List Rank) (hro : ro ∈ orders) (a b : Rank) (ha : a ∈ ro) (hb : b ∈ ro) :
    CountsP a b ∧ UnionP a b ∧ ElementsP a b := by
  have h := basic_all
  rw [List.all_eq_true] at h
  have h1 := h ro hro
  rw [List.all_eq_true] at h1
  have h2 := h1 a ha
  rw [List.all_eq_true] at h2
  have h3 := h2 b hb
  simp only [Bool.and_eq_true, decide_eq_true_eq] at h3
  exact ⟨h3.1.1, h3.1.2, h3.2⟩

/-- **combination counts**: a pair is 6 combinations, a suited hand 4, an offsuit hand 12, `XY` 16;
    `XXs` is empty and `XXo` is `XX` — for every two ranks of the standard and the short-deck order -/
theorem C18_counts (ro : List Rank) (hro : ro ∈ orders) (a b : Rank) (ha : a ∈ ro) (hb : b ∈ ro) :
    CountsP a b := (basic_of ro hro a b ha hb).1

/-- **`XY` is the disjoint union of `XYs` and `XYo`** -/
theorem C18_disjoint_union (ro : List Rank) (hro : ro ∈ orders) (a b : Rank) (ha : a ∈ ro) (hb : b ∈ ro) :
    UnionP a b := (basic_of ro hro a b ha hb).2.1

/-- **every element is a set of two distinct real cards** (of the two ranks written) -/
theorem C18_elements (ro : List Rank) (hro : ro ∈ orders) (a b : Rank) (ha : a ∈ ro) (hb : b ∈ ro) :
    ElementsP a b := (basic_of ro hro a b ha hb).2.2

/-- a slice of a list, element by element -/
theorem take_drop_eq_map (l : List Rank) (i len : Nat) (h : i + len ≤ l.length) :
    (l.drop i).take len = (List.range len).map fun k => l.getD (i + k) 13 := by
  apply List.ext_getElem
  · simp; omega
  · intro k h1 h2
    simp only [List.length_map, List.length_range] at h2
    simp only [List.getElem_take, List.getElem_drop, List.getElem_map, List.getElem_range]
    rw [List.getD_eq_getElem?_getD, List.getElem?_eq_getElem (by omega)]
    rfl

/-- the hands `XY+` abbreviates: the higher rank with every kicker from the lower rank up to just
    below the higher one (positions in the rank order), in that order -/
def plusSpecI (ro : List Rank) (i0 i1 : Nat) (sfx : RangeSuffix) : List (List Card) :=
  let lo := min i0 i1
  let hi := max i0 i1
  (List.range (hi - lo)).flatMap fun k => basicRangeR (ro.getD hi 13) (ro.getD (lo + k) 13) sfx

/-- **`XY+`, `XYs+`, `XYo+`** are the hands they abbreviate, in either order of writing the two ranks
    — for EVERY rank order -/
theorem C18_plus (ro : List Rank) (i0 i1 : Nat) (h0 : i0 < ro.length) (h1 : i1 < ro.length)
    (sfx : RangeSuffix) : plusRangeI ro i0 i1 sfx = plusSpecI ro i0 i1 sfx := by
  unfold plusRangeI plusSpecI
  simp only []
  rw [take_drop_eq_map ro (min i0 i1) (max i0 i1 - min i0 i1) (by omega)]
  rw [List.flatMap_map]

/-- the hands `AB-CD` abbreviates: both ranks move in step from the lower end to the upper end; `none`
    when the ends are not a shifted copy of each other -/
def intervalSpecI (ro : List Rank) (i0 i1 i2 i3 : Nat) (sfx : RangeSuffix) : Option (List (List Card)) :=
  if (i1 : Int) - i0 ≠ (i3 : Int) - i2 then none
  else
    let a := min i0 i2
    let b := if i0 ≤ i2 then i1 else i3
    let steps := max i0 i2 - a
    some ((List.range (steps + 1)).flatMap fun k => basicRangeR (ro.getD (a + k) 13) (ro.getD (b + k) 13) sfx)

theorem zip_map_range (f g : Nat → Rank) (n : Nat) :
    ((List.range n).map f).zip ((List.range n).map g) = (List.range n).map fun k => (f k, g k) := by
  exact List.zip_map'

/-- **`AB-CD`, `ABs-CDs`, `ABo-CDo`** are the hands between the two ends, moving both ranks in step;
    refused exactly when the two ends are not a shifted copy of each other — for EVERY rank order and
    all positions -/
theorem C18_interval (ro : List Rank) (i0 i1 i2 i3 : Nat) (h0 : i0 < ro.length)
    (h1 : i1 < ro.length) (h2 : i2 < ro.length) (h3 : i3 < ro.length) (sfx : RangeSuffix) :
    intervalRangeI ro i0 i1 i2 i3 sfx = intervalSpecI ro i0 i1 i2 i3 sfx := by
  unfold intervalRangeI intervalSpecI
  by_cases hgap : (i1 : Int) - i0 = (i3 : Int) - i2
  · have hb : ((i1 : Int) - i0 != (i3 : Int) - i2) = false := by simp [hgap]
    simp only [hb, Bool.false_eq_true, if_false, ne_eq, hgap, not_true_eq_false]
    by_cases hsw : i0 > i2
    · simp only [hsw, if_true]
      have hle : ¬ i0 ≤ i2 := by omega
      simp only [hle, if_false]
      have e1 : min i0 i2 = i2 := Nat.min_eq_right (by omega)
      have e2 : max i0 i2 = i0 := Nat.max_eq_left (by omega)
      rw [e1, e2]
      have hlen : i1 + 1 - i3 = i0 + 1 - i2 := by omega
      rw [hlen, take_drop_eq_map ro i2 (i0 + 1 - i2) (by omega), take_drop_eq_map ro i3 (i0 + 1 - i2) (by omega),
        zip_map_range, List.flatMap_map]
      have : i0 + 1 - i2 = i0 - i2 + 1 := by omega
      rw [this]
      simp
    · simp only [hsw, if_false]
      have hle : i0 ≤ i2 := by omega
      simp only [hle, if_true]
      have e1 : min i0 i2 = i0 := Nat.min_eq_left hle
      have e2 : max i0 i2 = i2 := Nat.max_eq_right hle
      rw [e1, e2]
      have hlen : i3 + 1 - i1 = i2 + 1 - i0 := by omega
      rw [hlen, take_drop_eq_map ro i0 (i2 + 1 - i0) (by omega), take_drop_eq_map ro i1 (i2 + 1 - i0) (by omega),
        zip_map_range, List.flatMap_map]
      have : i2 + 1 - i0 = i2 - i0 + 1 := by omega
      rw [this]
      simp
  · have hb : ((i1 : Int) - i0 != (i3 : Int) - i2) = true := by simp [hgap]
    simp [hb, hgap]

/-- **`XX+`** is the interval from `XX` to the top pair: the pairs from `XX` upwards -/
theorem C18_pair_plus (ro : List Rank) (i : Nat) (hi : i < ro.length) (sfx : RangeSuffix) :
    intervalRangeI ro i i (ro.length - 1) (ro.length - 1) sfx =
      some ((List.range (ro.length - i)).flatMap fun k => basicRangeR (ro.getD (i + k) 13) (ro.getD (i + k) 13) sfx) := by
  rw [C18_interval ro i i _ _ hi hi (by omega) (by omega)]
  unfold intervalSpecI
  have hle : i ≤ ro.length - 1 := by omega
  simp only [Int.sub_self, ne_eq, not_true_eq_false, if_false, hle, if_true]
  have e1 : min i (ro.length - 1) = i := Nat.min_eq_left hle
  have e2 : max i (ro.length - 1) = ro.length - 1 := Nat.max_eq_right hle
  rw [e1, e2]
  have : ro.length - 1 - i + 1 = ro.length - i := by omega
  rw [this]

def sfxs : List RangeSuffix := [.plain, .suited, .offsuit]

/-- the text layer: a rank character of the order denotes its position and its rank, and the basic
    forms in text are the rank-level ones -/
def GlueP (ro : List Rank) (i0 i1 : Nat) : Prop :=
  rankIndex ro (rankChars.getD (ro.getD i0 13) '?') = .ok i0 ∧
  rankOfChar (rankChars.getD (ro.getD i0 13) '?') = some (ro.getD i0 13) ∧
  ∀ sfx ∈ sfxs,
    basicRange (rankChars.getD (ro.getD i0 13) '?') (rankChars.getD (ro.getD i1 13) '?') sfx =
      .ok (basicRangeR (ro.getD i0 13) (ro.getD i1 13) sfx)
instance (ro : List Rank) (i0 i1 : Nat) : Decidable (GlueP ro i0 i1) := by unfold GlueP; infer_instance

set_option maxRecDepth 100000 in
theorem glue_all : (orders.all fun ro => (List.range ro.length).all fun i0 => (List.range ro.length).all fun i1 =>
    decide (GlueP ro i0 i1)) = true := by
  decide +kernel

/-- **text to positions**: for rank characters of the standard and short-deck orders, `XY`/`XYs`/`XYo`
    in text form are the rank-level functions the theorems above speak about -/
theorem C18_text_layer (ro : List Rank) (hro : ro ∈ orders) (i0 i1 : Nat) (h0 : i0 < ro.length)
    (h1 : i1 < ro.length) : GlueP ro i0 i1 := by
  have h := glue_all
  rw [List.all_eq_true] at h
  have a1 := h ro hro
  rw [List.all_eq_true] at a1
  have a2 := a1 i0 (List.mem_range.mpr h0)
  rw [List.all_eq_true] at a2
  exact of_decide_eq_true (a2 i1 (List.mem_range.mpr h1))

/-- … and `XY+` in text form is the position-level function -/
theorem C18_text_plus (ro : List Rank) (hro : ro ∈ orders) (i0 i1 : Nat) (h0 : i0 < ro.length)
    (h1 : i1 < ro.length) (hne : i0 ≠ i1) (sfx : RangeSuffix) :
    plusRange ro (rankChars.getD (ro.getD i0 13) '?') (rankChars.getD (ro.getD i1 13) '?') sfx =
      .ok (plusRangeI ro i0 i1 sfx) := by
  obtain ⟨ha, _, _⟩ := C18_text_layer ro hro i0 i1 h0 h1
  obtain ⟨hb, _, _⟩ := C18_text_layer ro hro i1 i0 h1 h0
  unfold plusRange
  have hc : (rankChars.getD (ro.getD i0 13) '?' == rankChars.getD (ro.getD i1 13) '?') = false := by
    rw [beq_eq_false_iff_ne]
    intro heq
    rw [heq] at ha
    rw [ha] at hb
    cases hb
    exact hne rfl
  simp only [hc, Bool.false_eq_true, if_false, ha, hb]

/-- separator characters of range text -/
def isRangeSep (c : Char) : Bool := c == ' ' || c == ',' || c == ';'

/-- **separators are interchangeable**: replacing any blank, comma or semicolon by any other of
    the three does not change the range -/
theorem sepNorm (a : Char) (h : isRangeSep a = true) :
    (if (a == ',' || a == ';') = true then ' ' else a) = ' ' := by
  unfold isRangeSep at h
  simp only [Bool.or_eq_true, beq_iff_eq] at h
  rcases h with (rfl | rfl) | rfl <;> decide

theorem C18_separators (ro : List Rank) (t t' : List Char)
    (h : List.Forall₂ (fun a b => a = b ∨ (isRangeSep a = true ∧ isRangeSep b = true)) t t') :
    parseRange ro t = parseRange ro t' := by
  have : (t.map fun c => if c == ',' || c == ';' then ' ' else c) =
      (t'.map fun c => if c == ',' || c == ';' then ' ' else c) := by
    induction h with
    | nil => rfl
    | cons hab _ ih =>
      simp only [List.map_cons, List.cons.injEq]
      refine ⟨?_, ih⟩
      rcases hab with rfl | ⟨ha, hb⟩
      · rfl
      · rw [sepNorm _ ha, sepNorm _ hb]
  unfold parseRange rangeTokens
  rw [this]

/-! ### equities -/

theorem foldl_add_nonneg (l : List Rat) (h : ∀ x ∈ l, 0 ≤ x) : ∀ a, 0 ≤ a → 0 ≤ l.foldl (· + ·) a := by
  induction l with
  | nil => intro a ha; exact ha
  | cons x l ih =>
    intro a ha
    simp only [List.foldl_cons]
    exact ih (fun y hy => h y (by simp [hy])) _ (add_nonneg ha (h x (by simp)))

theorem typeShare_nonneg (k : Nat) (hs : List (Option Int)) (i : Nat) : 0 ≤ typeShare k hs i := by
  unfold typeShare
  simp only []
  split
  · positivity
  · exact le_refl 0

/-- **non-negative** -/
theorem C18_equity_nonneg (n : Nat) (hands : List (List (Option Int))) :
    ∀ e ∈ equitiesGiven n hands, 0 ≤ e := by
  intro e he
  unfold equitiesGiven at he
  simp only [List.mem_map, List.mem_range] at he
  obtain ⟨i, _, rfl⟩ := he
  apply foldl_add_nonneg _ _ 0 (le_refl 0)
  intro x hx
  obtain ⟨hs, _, rfl⟩ := List.mem_map.mp hx
  exact typeShare_nonneg _ _ _

/-- the maximum used for the equities is the one the engine's `push_chips` uses -/
theorem C18_same_maximum (l : List (Option Int)) : maxOpt l = State.maxOrNone l := rfl

/-- **a share of a hand type iff the best hand of that type** — with the engine's own winner test
    (`push_chips`: `hands[i] == max_hand`, a player without such a hand never wins it) -/
theorem C18_equity_winners (k : Nat) (hk : 0 < k) (hs : List (Option Int)) (i : Nat)
    (hw : 0 < (hs.filter fun h => h.isSome && h == maxOpt hs).length) :
    0 < typeShare k hs i ↔ ((hs.getD i none).isSome = true ∧ hs.getD i none = State.maxOrNone hs) := by
  unfold typeShare
  simp only [← C18_same_maximum]
  constructor
  · intro h
    split at h
    · rename_i hc
      simp only [Bool.and_eq_true, beq_iff_eq] at hc
      exact hc
    · exact absurd h (lt_irrefl 0)
  · intro ⟨h1, h2⟩
    have : ((hs.getD i none).isSome && hs.getD i none == maxOpt hs) = true := by
      rw [Bool.and_eq_true, beq_iff_eq]; exact ⟨h1, h2⟩
    simp only [this, if_true]
    have hk' : (0 : Rat) < k := by exact_mod_cast hk
    have hw' : (0 : Rat) < ((hs.filter fun h => h.isSome && h == maxOpt hs).length : Rat) := by exact_mod_cast hw
    positivity

/-- a hand type nobody holds a hand of is not in play: no share is set aside for it -/
theorem C18_no_hand_no_share (hands : List (List (Option Int))) (hs : List (Option Int))
    (h : hs.any Option.isSome = false) : hs ∉ typesInPlay hands := by
  unfold typesInPlay
  simp [h]

/-! #### the shares sum to one -/

theorem foldl_add_eq_sum (l : List Rat) : ∀ a, l.foldl (· + ·) a = a + l.sum := by
  induction l with
  | nil => intro a; simp
  | cons x l ih => intro a; simp only [List.foldl_cons, List.sum_cons]; rw [ih]; ring

theorem lsum_eq (l : List Rat) : l.foldl (· + ·) 0 = l.sum := by
  rw [foldl_add_eq_sum]; ring

theorem sum_swap {α β} (ts : List α) (is : List β) (f : α → β → Rat) :
    (is.map fun i => (ts.map fun t => f t i).sum).sum = (ts.map fun t => (is.map fun i => f t i).sum).sum := by
  induction ts with
  | nil => simp
  | cons t ts ih =>
    simp only [List.map_cons, List.sum_cons]
    rw [← ih, ← List.sum_map_add]

/-- the best hand of a type somebody holds is held by somebody -/
theorem maxOpt_attained : ∀ (l : List (Option Int)) (acc : Option Int),
    (l.foldl (fun acc x => match acc, x with
      | none, x => x
      | some a, none => some a
      | some a, some b => some (max a b)) acc) = acc ∨
    (l.foldl (fun acc x => match acc, x with
      | none, x => x
      | some a, none => some a
      | some a, some b => some (max a b)) acc) ∈ l := by
  intro l
  induction l with
  | nil => intro acc; exact Or.inl rfl
  | cons x l ih =>
    intro acc
    simp only [List.foldl_cons]
    cases acc with
    | none =>
      rcases ih x with h | h
      · right; rw [h]; simp
      · right; simp [h]
    | some a =>
      cases x with
      | none =>
        rcases ih (some a) with h | h
        · exact Or.inl h
        · right; simp [h]
      | some b =>
        rcases ih (some (max a b)) with h | h
        · rw [h]
          by_cases hab : a ≤ b
          · right; simp [max_eq_right hab]
          · have : max a b = a := max_eq_left (by omega)
            left; rw [this]
        · right; simp [h]

theorem maxOpt_isSome_of_any : ∀ (l : List (Option Int)) (acc : Option Int),
    (acc.isSome = true ∨ l.any Option.isSome = true) →
    (l.foldl (fun acc x => match acc, x with
      | none, x => x
      | some a, none => some a
      | some a, some b => some (max a b)) acc).isSome = true := by
  intro l
  induction l with
  | nil => intro acc h; rcases h with h | h; exact h; simp at h
  | cons x l ih =>
    intro acc h
    simp only [List.foldl_cons]
    apply ih
    cases acc with
    | none =>
      cases x with
      | none => right; rcases h with h | h; simp at h; simpa using h
      | some b => left; rfl
    | some a => left; cases x <;> rfl

/-- somebody holds the best hand of a hand type in play -/
theorem winners_pos (hs : List (Option Int)) (h : hs.any Option.isSome = true) :
    0 < (hs.filter fun x => x.isSome && x == maxOpt hs).length := by
  have hsome := maxOpt_isSome_of_any hs none (Or.inr h)
  have hatt := maxOpt_attained hs none
  change (maxOpt hs).isSome = true at hsome
  change maxOpt hs = none ∨ maxOpt hs ∈ hs at hatt
  rcases hatt with h0 | hmem
  · rw [h0] at hsome; cases hsome
  · apply List.length_pos_of_mem (a := maxOpt hs)
    rw [List.mem_filter]
    exact ⟨hmem, by simp [hsome]⟩

theorem map_getD_range (hs : List (Option Int)) (g : Option Int → Rat) :
    (List.range hs.length).map (fun i => g (hs.getD i none)) = hs.map g := by
  apply List.ext_getElem
  · simp
  · intro k h1 h2
    simp only [List.length_map, List.length_range] at h1
    simp [List.getD_eq_getElem?_getD, h1]

theorem sum_indicator (hs : List (Option Int)) (p : Option Int → Bool) (c : Rat) :
    (hs.map fun h => if p h then c else 0).sum = c * ((hs.filter p).length : Rat) := by
  induction hs with
  | nil => simp
  | cons x l ih =>
    simp only [List.map_cons, List.sum_cons, ih, List.filter_cons]
    by_cases hp : p x = true
    · simp only [hp, if_true, List.length_cons]; push_cast; ring
    · have : p x = false := by simpa using hp
      simp only [this, Bool.false_eq_true, if_false]; ring

/-- one hand type in play hands out exactly `1/k` -/
theorem typeShare_sum (k : Nat) (hk : 0 < k) (hs : List (Option Int)) (h : hs.any Option.isSome = true) :
    ((List.range hs.length).map fun i => typeShare k hs i).sum = 1 / (k : Rat) := by
  have hw := winners_pos hs h
  unfold typeShare
  simp only []
  have := map_getD_range hs (fun x => if (x.isSome && x == maxOpt hs) = true then
    1 / ((k : Rat) * ((hs.filter fun h => h.isSome && h == maxOpt hs).length : Rat)) else 0)
  rw [this, sum_indicator hs (fun x => x.isSome && x == maxOpt hs)]
  have hk' : (k : Rat) ≠ 0 := by exact_mod_cast (Nat.pos_iff_ne_zero.mp hk)
  have hw' : ((hs.filter fun h => h.isSome && h == maxOpt hs).length : Rat) ≠ 0 := by
    exact_mod_cast (Nat.pos_iff_ne_zero.mp hw)
  field_simp

/-- **the shares sum to one** whenever some hand type is in play (every player has a hand of the
    high type as soon as all cards are given) -/
theorem C18_equity_sum (n : Nat) (hands : List (List (Option Int)))
    (hlen : ∀ hs ∈ hands, hs.length = n) (hplay : typesInPlay hands ≠ []) :
    (equitiesGiven n hands).sum = 1 := by
  unfold equitiesGiven
  simp only [lsum_eq]
  rw [sum_swap (typesInPlay hands) (List.range n) (fun hs i => typeShare (typesInPlay hands).length hs i)]
  have hk : 0 < (typesInPlay hands).length := List.length_pos_iff.mpr hplay
  have hall : ∀ hs ∈ typesInPlay hands,
      ((List.range n).map fun i => typeShare (typesInPlay hands).length hs i).sum = 1 / ((typesInPlay hands).length : Rat) := by
    intro hs hmem
    unfold typesInPlay at hmem
    rw [List.mem_filter] at hmem
    rw [← hlen hs hmem.1]
    exact typeShare_sum _ hk hs hmem.2
  rw [List.map_congr_left hall]
  simp only [List.map_const', List.sum_replicate, nsmul_eq_mul]
  have : ((typesInPlay hands).length : Rat) ≠ 0 := by exact_mod_cast (Nat.pos_iff_ne_zero.mp hk)
  field_simp

/-! ### ICM -/

theorem sum_flatMap' {α} (l : List α) (f : α → List Rat) : (l.flatMap f).sum = (l.map fun x => (f x).sum).sum := by
  induction l with
  | nil => simp
  | cons a l ih => simp [List.flatMap_cons, List.sum_append, ih]

/-- the share of the remaining probability mass held by the players still to be placed -/
def massOf (p : List Rat) (l : List Nat) : Rat := (l.map fun j => p.getD j 0).sum

theorem massOf_erase (p : List Rat) (l : List Nat) (x : Nat) (hx : x ∈ l) :
    massOf p (l.erase x) = massOf p l - p.getD x 0 := by
  unfold massOf
  have := List.sum_map_erase (fun j => p.getD j 0) hx
  linarith

theorem massOf_pos (p : List Rat) (l : List Nat) (hp : ∀ j ∈ l, 0 < p.getD j 0) (hne : l ≠ []) :
    0 < massOf p l := by
  unfold massOf
  cases l with
  | nil => exact absurd rfl hne
  | cons a l =>
    simp only [List.map_cons, List.sum_cons]
    have h1 := hp a (by simp)
    have h2 : 0 ≤ (l.map fun j => p.getD j 0).sum :=
      List.sum_nonneg (by
        intro x hx
        obtain ⟨j, hj, rfl⟩ := List.mem_map.mp hx
        exact le_of_lt (hp j (by simp [hj])))
    linarith

theorem permsK_mem : ∀ (k : Nat) (l o : List Nat), o ∈ permsK k l → o.length = k ∧ ∀ j ∈ o, j ∈ l := by
  intro k
  induction k with
  | zero => intro l o h; simp [permsK] at h; subst h; simp
  | succ k ih =>
    intro l o h
    simp only [permsK, List.mem_flatMap, List.mem_map] at h
    obtain ⟨x, hx, o', ho', rfl⟩ := h
    obtain ⟨h1, h2⟩ := ih (l.erase x) o' ho'
    refine ⟨by simp [h1], ?_⟩
    intro j hj
    rcases List.mem_cons.mp hj with rfl | hj
    · exact hx
    · exact List.mem_of_mem_erase (h2 j hj)

/-- every finishing order has a non-negative probability -/
theorem orderProbability_nonneg (p : List Rat) : ∀ (k : Nat) (l : List Nat),
    (∀ j ∈ l, 0 < p.getD j 0) → l.Nodup → ∀ o ∈ permsK k l, 0 ≤ orderProbability p o (massOf p l) := by
  intro k
  induction k with
  | zero => intro l _ _ o h; simp [permsK] at h; subst h; simp [orderProbability]
  | succ k ih =>
    intro l hp hnd o h
    simp only [permsK, List.mem_flatMap, List.mem_map] at h
    obtain ⟨x, hx, o', ho', rfl⟩ := h
    simp only [orderProbability]
    have hpos := massOf_pos p l hp (List.ne_nil_of_mem hx)
    have hrec := ih (l.erase x) (fun j hj => hp j (List.mem_of_mem_erase hj)) (hnd.erase x) o' ho'
    rw [massOf_erase p l x hx] at hrec
    exact mul_nonneg (div_nonneg (le_of_lt (hp x hx)) (le_of_lt hpos)) hrec

/-- **normalisation**: the probabilities of all finishing orders of the first `k` places add up to one -/
theorem orderProbability_sum (p : List Rat) : ∀ (k : Nat) (l : List Nat),
    (∀ j ∈ l, 0 < p.getD j 0) → l.Nodup → k ≤ l.length →
    ((permsK k l).map fun o => orderProbability p o (massOf p l)).sum = 1 := by
  intro k
  induction k with
  | zero => intro l _ _ _; simp [permsK, orderProbability]
  | succ k ih =>
    intro l hp hnd hk
    have hne : l ≠ [] := by intro h; rw [h] at hk; simp at hk
    have hpos := massOf_pos p l hp hne
    simp only [permsK, List.map_flatMap, List.map_map]
    rw [sum_flatMap']
    have hinner : ∀ x ∈ l, ((permsK k (l.erase x)).map
        ((fun o => orderProbability p o (massOf p l)) ∘ fun o' => x :: o')).sum = p.getD x 0 / massOf p l := by
      intro x hx
      have hrec := ih (l.erase x) (fun j hj => hp j (List.mem_of_mem_erase hj)) (hnd.erase x)
        (by rw [List.length_erase_of_mem hx]; omega)
      rw [massOf_erase p l x hx] at hrec
      have : ((fun o => orderProbability p o (massOf p l)) ∘ fun o' => x :: o') =
          fun o' => (p.getD x 0 / massOf p l) * orderProbability p o' (massOf p l - p.getD x 0) := by
        funext o'; simp [orderProbability]
      rw [this, List.sum_map_mul_left, hrec, mul_one]
    rw [List.map_congr_left hinner]
    have : (l.map fun x => p.getD x 0 / massOf p l) = l.map fun x => (p.getD x 0) * (massOf p l)⁻¹ := by
      apply List.map_congr_left; intro x _; rw [div_eq_mul_inv]
    rw [this, List.sum_map_mul_right]
    show massOf p l * (massOf p l)⁻¹ = 1
    exact mul_inv_cancel₀ (ne_of_gt hpos)

theorem pct_facts (chips : List Rat) (hc : ∀ c ∈ chips, 0 < c) (hne : chips ≠ []) :
    (∀ j ∈ List.range chips.length, 0 < (chips.map (· / chips.foldl (· + ·) 0)).getD j 0) ∧
    massOf (chips.map (· / chips.foldl (· + ·) 0)) (List.range chips.length) = 1 := by
  rw [lsum_eq]
  have htot : 0 < chips.sum := by
    cases chips with
    | nil => exact absurd rfl hne
    | cons a l =>
      simp only [List.sum_cons]
      have := hc a (by simp)
      have : 0 ≤ l.sum := List.sum_nonneg (fun x hx => le_of_lt (hc x (by simp [hx])))
      linarith
  constructor
  · intro j hj
    have hj' := List.mem_range.mp hj
    simp only [List.getD_eq_getElem?_getD, List.getElem?_map, List.getElem?_eq_getElem hj', Option.map_some,
      Option.getD_some]
    exact div_pos (hc _ (List.getElem_mem hj')) htot
  · unfold massOf
    have : ((List.range chips.length).map fun j => (chips.map (· / chips.sum)).getD j 0) = chips.map (· / chips.sum) := by
      apply List.ext_getElem
      · simp
      · intro k h1 h2
        simp only [List.length_map, List.length_range] at h1
        simp [List.getD_eq_getElem?_getD, h1]
    rw [this]
    have : (chips.map (· / chips.sum)) = chips.map (· * (chips.sum)⁻¹) := by
      apply List.map_congr_left; intro x _; rw [div_eq_mul_inv]
    rw [this, List.sum_map_mul_right]
    simp only [List.map_id']
    exact mul_inv_cancel₀ (ne_of_gt htot)

/-- **ICM values are non-negative** (non-negative payouts, positive chips) -/
theorem C18_icm_nonneg (payouts chips : List Rat) (hp : ∀ x ∈ payouts, 0 ≤ x) (hc : ∀ c ∈ chips, 0 < c) :
    ∀ v ∈ icm payouts chips, 0 ≤ v := by
  intro v hv
  by_cases hne : chips = []
  · subst hne; simp [icm] at hv
  · obtain ⟨hpos, hmass⟩ := pct_facts chips hc hne
    unfold icm at hv
    simp only [List.mem_map, List.mem_range] at hv
    obtain ⟨i, _, rfl⟩ := hv
    apply foldl_add_nonneg _ _ 0 (le_refl 0)
    intro x hx
    obtain ⟨o, ho, rfl⟩ := List.mem_map.mp hx
    have hprob := orderProbability_nonneg _ (min payouts.length chips.length) (List.range chips.length) hpos
      List.nodup_range o ho
    rw [hmass] at hprob
    apply foldl_add_nonneg _ _ 0 (le_refl 0)
    intro y hy
    obtain ⟨⟨pay, j⟩, hz, rfl⟩ := List.mem_map.mp hy
    simp only []
    split
    · exact mul_nonneg (hp pay (List.of_mem_zip hz).1) hprob
    · exact le_refl 0

theorem sum_single_rat (c : Rat) (j n : Nat) (hj : j < n) :
    ((List.range n).map fun i => if (j == i) = true then c else 0).sum = c := by
  induction n with
  | zero => omega
  | succ n ih =>
    rw [List.range_succ, List.map_append, List.sum_append]
    simp only [List.map_cons, List.map_nil, List.sum_cons, List.sum_nil, add_zero]
    by_cases hjn : j < n
    · rw [ih hjn]
      have : (j == n) = false := by simp; omega
      simp [this]
    · have hjeq : j = n := by omega
      subst hjeq
      have : ((List.range j).map fun i => if (j == i) = true then c else 0) = (List.range j).map fun _ => (0 : Rat) := by
        apply List.map_congr_left
        intro i hi
        have := List.mem_range.mp hi
        have : (j == i) = false := by simp; omega
        simp [this]
      rw [this]
      simp

theorem zip_take_left {α β : Type} (a : List α) (b : List β) (m : Nat) (h : b.length ≤ m) :
    (a.take m).zip b = a.zip b := by
  induction a generalizing b m with
  | nil => simp
  | cons x xs ih =>
    cases b with
    | nil => simp
    | cons y ys =>
      cases m with
      | zero => simp at h
      | succ m =>
        simp only [List.take_succ_cons, List.zip_cons_cons]
        rw [ih ys m (by simpa using h)]

/-- **ICM values sum to the prize pool** — the places that can be reached: all of them when there are at most
    as many payouts as players, the first `n` with `n` players otherwise (positive chips) -/
theorem C18_icm_sum_take (payouts chips : List Rat) (hc : ∀ c ∈ chips, 0 < c) (hne : chips ≠ []) :
    (icm payouts chips).sum = (payouts.take chips.length).sum := by
  obtain ⟨hpos, hmass⟩ := pct_facts chips hc hne
  rw [lsum_eq] at hpos hmass
  unfold icm
  simp only [lsum_eq]
  -- swap: sum over players of (sum over orders …) = sum over orders of (sum over players …)
  rw [sum_swap (permsK (min payouts.length chips.length) (List.range chips.length)) (List.range chips.length)
    (fun o i => ((payouts.zip o).map fun x =>
      if (x.2 == i) = true then x.1 * orderProbability (chips.map (· / chips.sum)) o 1 else 0).sum)]
  have horder : ∀ o ∈ permsK (min payouts.length chips.length) (List.range chips.length),
      ((List.range chips.length).map fun i => ((payouts.zip o).map fun x =>
        if (x.2 == i) = true then x.1 * orderProbability (chips.map (· / chips.sum)) o 1 else 0).sum).sum =
      orderProbability (chips.map (· / chips.sum)) o 1 * (payouts.take chips.length).sum := by
    intro o ho
    obtain ⟨hlen, hmem⟩ := permsK_mem _ _ _ ho
    rw [sum_swap (payouts.zip o) (List.range chips.length)
      (fun x i => if (x.2 == i) = true then x.1 * orderProbability (chips.map (· / chips.sum)) o 1 else 0)]
    have hz : ∀ x ∈ payouts.zip o, ((List.range chips.length).map fun i =>
        if (x.2 == i) = true then x.1 * orderProbability (chips.map (· / chips.sum)) o 1 else 0).sum =
        x.1 * orderProbability (chips.map (· / chips.sum)) o 1 := by
      intro x hx
      have hj := hmem x.2 (List.of_mem_zip hx).2
      exact sum_single_rat _ _ _ (List.mem_range.mp hj)
    rw [List.map_congr_left hz, List.sum_map_mul_right]
    have : ((payouts.zip o).map fun x => x.1) = payouts.take chips.length := by
      rw [← zip_take_left payouts o chips.length (by omega), List.map_fst_zip]
      rw [List.length_take]; omega
    rw [this]; ring
  rw [List.map_congr_left horder, List.sum_map_mul_right]
  have hnorm := orderProbability_sum _ (min payouts.length chips.length) (List.range chips.length) hpos
    List.nodup_range (by simp)
  rw [hmass] at hnorm
  rw [hnorm]; ring

/-- at most as many payouts as players: the whole prize pool -/
theorem C18_icm_sum (payouts chips : List Rat) (hc : ∀ c ∈ chips, 0 < c)
    (hk : payouts.length ≤ chips.length) (hne : chips ≠ []) :
    (icm payouts chips).sum = payouts.sum := by
  rw [C18_icm_sum_take payouts chips hc hne, List.take_of_length_le hk]

end PK
